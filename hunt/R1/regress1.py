"""Regression introduced by 3c9d202 (csv.dump_to_file encodes the file as one stream).

An encoding error on one row used to terminate the observable returned by
dump_to_file with on_error (the encoding was done in ops.map, which routes
exceptions to on_error; file.write then closes the file and forwards the error:
"completes on error if there is an error while writing the csv file").

Since the commit the encoding is done by rs.data.encode, whose on_next does not
catch anything: with a push source (Subject, rx.create, any hot source) the
UnicodeEncodeError is thrown back into the producer's on_next call, on_error is
never signalled, the offending row is silently missing from the file, the
following rows are still written and the observable COMPLETES successfully.
"""
import os
import sys
import tempfile
import typing

from rx.subject import Subject
import rxsci.container.csv as csv


class Row(typing.NamedTuple):
    a: int
    b: str


rows = [Row(1, 'a'), Row(2, 'é'), Row(3, 'c')]   # row 2 is not encodable in ascii
path = os.path.join(tempfile.mkdtemp(), 'out.csv')

events = []
raised_in_producer = []
source = Subject()
source.pipe(
    csv.dump_to_file(path, encoding='ascii'),
).subscribe(
    on_next=lambda i: events.append(('next', i)),
    on_error=lambda e: events.append(('error', type(e).__name__)),
    on_completed=lambda: events.append('completed'),
)
for r in rows:
    try:
        source.on_next(r)
    except Exception as e:  # the producer is not supposed to see this
        raised_in_producer.append(type(e).__name__)
source.on_completed()

content = open(path, 'rb').read()
print("input rows            :", rows, "written with encoding='ascii' from a Subject")
print("expected (as before)  : events == [('error', 'UnicodeEncodeError')], nothing raised in the producer,")
print("                        file == b'a,b\\n1,\"a\"\\n' (closed at the error)")
print("actual events         :", events)
print("raised in the producer:", raised_in_producer)
print("file content          :", content)

ok = events == [('error', 'UnicodeEncodeError')] and raised_in_producer == []
if not ok:
    print("FAIL: the encoding error is not reported with on_error; the stream completes "
          "with a file that silently lacks a row")
    sys.exit(1)
print("OK")
