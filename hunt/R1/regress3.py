"""Incomplete fix: 7527c3b (tee_map on a multiplexed source completes when all
its branches have completed).

The commit repairs "an error router placed in a later branch never completed its
errors observable" for a stream that ends with on_completed.  The very same
thing still happens when the stream ends with on_error: the on_error of the
first branch is forwarded downstream at once (on_error=observer.on_error), the
downstream observer disposes the other branches, and a router in a later branch
never sees the error: its errors observable neither receives the exception nor
completes.  With the router in branch 0 (or without tee_map) it gets the
exception and completes, so the outcome depends on the branch position.
"""
import sys

import rx
import rxsci as rs


def run(router_branch):
    data_events = []
    errors_events = []
    errors, route_errors = rs.error.create_error_router()
    errors.subscribe(
        on_next=lambda e: errors_events.append(type(e).__name__),
        on_error=lambda e: errors_events.append(('error', type(e).__name__)),
        on_completed=lambda: errors_events.append('completed'),
    )
    branches = [
        rx.pipe(rs.ops.map(lambda i: i * 2)),
        rx.pipe(rs.ops.map(lambda i: i + 1)),
    ]
    branches[router_branch] = rx.pipe(
        rs.ops.map(lambda i: 1 / (i - 1)),
        route_errors(),
    )
    rx.concat(rx.from_([0, 1, 2]), rx.throw(ValueError('boom'))).pipe(
        rs.state.with_memory_store(rx.pipe(
            rs.ops.group_by(lambda i: i % 2, rx.pipe(
                rs.ops.tee_map(*branches, join='merge'),
            )),
        )),
    ).subscribe(
        on_next=data_events.append,
        on_error=lambda e: data_events.append(('error', type(e).__name__)),
        on_completed=lambda: data_events.append('completed'),
    )
    return data_events, errors_events


print("input: items 0, 1, 2 then on_error(ValueError) ; branch with map(1/(i-1)) + route_errors()")
expected = ['ZeroDivisionError', 'ValueError', 'completed']
failed = False
for position in [0, 1]:
    data_events, errors_events = run(position)
    print("router in branch %d:" % position)
    print("   data stream      :", data_events)
    print("   expected errors  :", expected)
    print("   actual errors    :", errors_events)
    if errors_events != expected:
        failed = True

if failed:
    print("FAIL: with the router in a later branch the errors observable never gets the "
          "stream error and never completes")
    sys.exit(1)
print("OK")
