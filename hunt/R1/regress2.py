"""Regression introduced by 3c9d202 (csv.dump_to_file encodes the file as one stream).

rs.data.encode, now inserted in the dump_to_file chain when an encoding is given,
subscribes to its source without forwarding the scheduler it received.  Every
other stage of dump_to_file (dump, file.write, and the ops.map used before the
commit) forwards it.  So `subscribe(scheduler=...)` no longer reaches the source:
the source runs on its default scheduler, i.e. immediately on the current thread
inside subscribe(), instead of on the scheduler chosen by the application.
The behaviour now also differs between encoding=None (scheduler honoured) and
encoding='utf-8' (scheduler ignored).
"""
import os
import sys
import tempfile
import typing

import rx
from rx.testing import TestScheduler
import rxsci.container.csv as csv


class Row(typing.NamedTuple):
    a: int
    b: str


rows = [Row(1, 'a'), Row(2, 'b')]
failed = False
for encoding in [None, 'utf-8']:
    path = os.path.join(tempfile.mkdtemp(), 'out.csv')
    scheduler = TestScheduler()
    events = []
    rx.from_(rows).pipe(
        csv.dump_to_file(path, encoding=encoding),
    ).subscribe(
        on_completed=lambda: events.append('completed'),
        scheduler=scheduler,
    )
    before = (list(events), os.path.getsize(path))
    scheduler.start()
    after = (list(events), os.path.getsize(path))
    print("encoding=%r: rx.from_(%r) | dump_to_file, subscribed with scheduler=TestScheduler()" % (encoding, rows))
    print("   expected before scheduler.start(): ([], 0)   (nothing may run before the scheduler is started)")
    print("   actual   before scheduler.start():", before)
    print("   after scheduler.start()          :", after)
    if before != ([], 0):
        failed = True

if failed:
    print("FAIL: the scheduler given to subscribe() is dropped by dump_to_file when an encoding is set")
    sys.exit(1)
print("OK")
