"""C03 - a windowing/grouping operator object used at two places of one pipeline.

rs.data.roll / rs.ops.group_by / rs.data.split / rs.data.time_split create the
Subject that carries the outer-key events (OnCreateMux / OnCompletedMux of the
parent key) when the *operator is built*, not when it is subscribed.  Every
application / subscription of the same operator object therefore shares this
Subject: the outer events of one usage site are also delivered to all the
others.  Re-using an operator value is ordinary Rx practice (operators are
plain functions), e.g. factoring out `win = rs.data.roll(...)` of the two
branches of a tee_map.
"""
import sys
import rx
import rxsci as rs


def probe(log, name):
    """records the mux events seen at one boundary (public API only)"""
    def _probe(source):
        def on_subscribe(observer, scheduler):
            def on_next(i):
                if type(i) is rs.OnCreateMux:
                    log.append((name, 'create', i.key))
                elif type(i) is rs.OnCompletedMux:
                    log.append((name, 'completed', i.key))
                elif type(i) is rs.OnNextMux:
                    log.append((name, 'item', i.key, i.item))
                observer.on_next(i)
            return source.subscribe(on_next=on_next, on_error=observer.on_error,
                                    on_completed=observer.on_completed, scheduler=scheduler)
        return rs.MuxObservable(on_subscribe)
    return _probe


def run(items, win0, win1, log):
    out = []
    rx.from_(items).pipe(rs.state.with_memory_store(pipeline=rx.pipe(
        rs.ops.tee_map(
            rx.pipe(rs.ops.map(lambda i: i[0]), win0, probe(log, 'branch0')),
            rx.pipe(rs.ops.map(lambda i: i[1]), win1, probe(log, 'branch1')),
        ),
    ))).subscribe(on_next=out.append, on_error=lambda e: out.append(('ERROR', repr(e))))
    return out


def make_win():
    return rs.data.roll(window=3, stride=2, pipeline=rx.pipe(rs.math.sum(reduce=True)))


items = [(j, 100 + j) for j in range(7)]
print("input items:", items)
print("pipeline: tee_map(map(a) | roll(3,2,sum), map(b) | roll(3,2,sum))")

log_ref = []
expected = run(items, make_win(), make_win(), log_ref)
print("\ntwo separately built roll operators :", expected)

win = make_win()
log = []
actual = run(items, win, win, log)
print("the same roll operator object twice  :", actual)

violations = []
live = {}
for ev in log:
    name, kind, key = ev[0], ev[1], ev[2]
    if kind == 'create':
        if (name, key) in live:
            violations.append("second OnCreateMux of live key %r at boundary %s" % (key, name))
        live[(name, key)] = True
    elif kind == 'completed':
        if (name, key) not in live:
            violations.append("OnCompletedMux of non-live key %r at boundary %s" % (key, name))
        live.pop((name, key), None)
    elif kind == 'item' and (name, key) not in live:
        violations.append("item %r for non-live key %r at boundary %s" % (ev[3], key, name))

print("\nC03 requires: each key is created once, then items, then exactly one completion,")
print("at every operator boundary; and the result must not depend on operator object identity.")
print("events seen downstream of roll in branch0:", [e[1:] for e in log if e[0] == 'branch0'])
for v in violations:
    print("VIOLATION:", v)
if actual != expected:
    print("VIOLATION: output differs (last window lost): %r != %r" % (actual, expected))

if violations or actual != expected:
    sys.exit(1)
print("no violation")
