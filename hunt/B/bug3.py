"""C03 - tee_map on a MuxObservable builds its publish()/connectable once per operator
application instead of once per subscription.

All subscriptions of a tee_map pipeline share the same published Subject.  A second
subscriber that arrives while the first one is active is attached to the already
connected Subject: it never receives ProbeStateTopology / OnCreateMux, but it does
receive the items -> items for a key that was never created at every boundary of
that subscription (and an IndexError inside tee_map).  After a first subscription has
completed, the Subject is dead: a later subscription completes immediately and
silently emits nothing.
"""
import sys
import rx
from rx.subject import Subject
import rxsci as rs


def probe(log, name):
    def _probe(source):
        def on_subscribe(observer, scheduler):
            sub = [len([e for e in log if e[1] == 'subscribe' and e[0] == name])]
            log.append((name, 'subscribe', sub[0]))

            def on_next(i):
                if type(i) is rs.OnCreateMux:
                    log.append((name, sub[0], 'create', i.key))
                elif type(i) is rs.OnCompletedMux:
                    log.append((name, sub[0], 'completed', i.key))
                elif type(i) is rs.OnNextMux:
                    log.append((name, sub[0], 'item', i.key, i.item))
                observer.on_next(i)
            return source.subscribe(on_next=on_next, on_error=observer.on_error,
                                    on_completed=observer.on_completed, scheduler=scheduler)
        return rs.MuxObservable(on_subscribe)
    return _probe


log = []
source = Subject()
obs = source.pipe(rs.state.with_memory_store(pipeline=rx.pipe(
    rs.ops.tee_map(
        rx.pipe(rs.ops.map(lambda i: i + 1), probe(log, 'branch0')),
        rx.pipe(rs.ops.map(lambda i: i * 2)),
    ),
)))
a, b = [], []
obs.subscribe(on_next=a.append, on_error=lambda e: a.append(('ERROR', repr(e))), on_completed=lambda: a.append('completed'))
obs.subscribe(on_next=b.append, on_error=lambda e: b.append(('ERROR', repr(e))), on_completed=lambda: b.append('completed'))
for i in [1, 2, 3]:
    source.on_next(i)
source.on_completed()

expected = [(2, 2), (3, 4), (4, 6), 'completed']
print("input: hot source emitting 1, 2, 3 then completing; two subscribers of the same observable")
print("pipeline: with_memory_store(tee_map(map(i+1), map(i*2)))")
print("C03 requires at every boundary of every subscription: create(key), items, one completion;")
print("each subscriber should receive", expected)
print("subscriber A got:", a)
print("subscriber B got:", b)

violations = []
live = set()
for e in log:
    if e[1] == 'subscribe':
        continue
    name, sub, kind, key = e[0], e[1], e[2], e[3]
    if kind == 'create':
        live.add((sub, key))
    elif kind == 'item' and (sub, key) not in live:
        violations.append("subscription #%d, boundary %s: item %r for key %r that was never created" % (sub, name, e[4], key))
    elif kind == 'completed':
        live.discard((sub, key))
for v in violations:
    print("VIOLATION:", v)

# sequential re-subscription of a cold pipeline
cold = rx.from_([1, 2, 3]).pipe(rs.state.with_memory_store(pipeline=rx.pipe(
    rs.ops.tee_map(rs.ops.map(lambda i: i + 1), rs.ops.map(lambda i: i * 2)),
)))
first, second = [], []
cold.subscribe(on_next=first.append, on_completed=lambda: first.append('completed'))
cold.subscribe(on_next=second.append, on_completed=lambda: second.append('completed'))
print("\ncold source [1, 2, 3], same observable subscribed twice one after the other")
print("first  subscription:", first)
print("second subscription:", second)
if second != first:
    print("VIOLATION: the second subscription completes at once, nothing is emitted for the consumed items")

if violations or a != expected or b != expected or second != first:
    sys.exit(1)
print("no violation")
