"""C02 - tee_map (zip / combine_latest) keeps the cells of a key whose lifetime ended
with a mux error, and hands them to the next lifetime that re-uses the slot.

tee_map resets the per-key cells only when OnCompletedMux goes through its last branch.
It does not reset them on OnCreateMux nor on OnErrorMux.  roll (and group_by) end the
open windows of a key with OnErrorMux only (no completion) when the key receives a mux
error, and the following window re-uses the same slot index: the values buffered for the
dropped window are zipped with the items of the new window.
"""
import sys
import rx
import rxsci as rs


def parse(i):
    if i == 'bad':
        raise ValueError('cannot parse')
    return i


def pipeline():
    return rx.pipe(
        rs.ops.map(parse),
        rs.data.roll(window=4, stride=4, pipeline=rx.pipe(
            rs.ops.tee_map(
                rs.ops.filter(lambda i: i % 2 == 0),      # even items only
                rs.ops.map(lambda i: i),                  # every item
                join='zip',
            ),
            rs.error.ignore(),
        )),
        rs.error.ignore(),
    )


def run(items):
    out = []
    rx.from_(items).pipe(rs.state.with_memory_store(pipeline=pipeline())).subscribe(
        on_next=out.append, on_error=lambda e: out.append(('ERROR', repr(e))))
    return out


history = [1, 'bad', 4, 6]
alone = [4, 6]
got_history = run(history)
got_alone = run(alone)
print("pipeline: map(parse) | roll(4, 4, tee_map(filter(even), identity, join='zip') | error.ignore()) | error.ignore()")
print("window [4, 6] alone                          ->", got_alone)
print("input", history, "-> the window opened by 1 is dropped by the mux error on 'bad';")
print("the next window, served by the same slot, receives exactly [4, 6] ->", got_history)
print("C02 requires: the window [4, 6] emits the same items whatever an earlier window of the slot received")
if got_history != got_alone:
    print("VIOLATION: item 1 of the earlier window shows up in the output of the window [4, 6]")
    sys.exit(1)
print("no violation")
