"""C03 - a mux error on a key makes roll (and group_by) drop the open windows of that key
without completing them, then create the same window keys again.

rs.ops.map / filter / scan report an exception of the user function as an OnErrorMux
event and keep the key alive: the following items of the key are still emitted
("Errors on MuxObservables are not fatal", see rs.error.ignore / rs.error.map).
roll treats the very same event as the end of the key: it forwards the error to the
open windows, marks them closed *without* emitting OnCompletedMux, and restarts its
item counter.  The next item of the (still live) key re-creates window keys that were
never completed, and the windows that were open are lost.
"""
import sys
import rx
import rxsci as rs


def probe(log, name):
    def _probe(source):
        def on_subscribe(observer, scheduler):
            def on_next(i):
                if type(i) is rs.OnCreateMux:
                    log.append((name, 'create', i.key))
                elif type(i) is rs.OnCompletedMux:
                    log.append((name, 'completed', i.key))
                elif type(i) is rs.OnErrorMux:
                    log.append((name, 'error', i.key))
                elif type(i) is rs.OnNextMux:
                    log.append((name, 'item', i.key, i.item))
                observer.on_next(i)

            def on_completed():
                log.append((name, 'stream-completed', None))
                observer.on_completed()
            return source.subscribe(on_next=on_next, on_error=observer.on_error,
                                    on_completed=on_completed, scheduler=scheduler)
        return rs.MuxObservable(on_subscribe)
    return _probe


def parse(i):
    if i == 'bad':
        raise ValueError('cannot parse')
    return i


items = [1, 2, 'bad', 4, 5, 6]
log = []
out = []
rx.from_(items).pipe(rs.state.with_memory_store(pipeline=rx.pipe(
    rs.ops.map(parse),
    probe(log, 'after-map'),
    rs.data.roll(window=3, stride=1, pipeline=rx.pipe(
        probe(log, 'window'),
        rs.data.to_list(),
        rs.error.ignore(),
    )),
    rs.error.ignore(),
))).subscribe(on_next=out.append, on_error=lambda e: out.append(('ERROR', repr(e))),
              on_completed=lambda: out.append('completed'))

print("input items:", items, "(map raises on 'bad'; mux errors are ignored with rs.error.ignore)")
print("pipeline: map(parse) | roll(3, 1, to_list() | error.ignore()) | error.ignore()")
print("output:", out)
print("events at the boundary between roll and the window pipeline:")
for e in log:
    if e[0] == 'window':
        print("   ", e[1:])

violations = []
live = {}
for e in log:
    name, kind, key = e[0], e[1], e[2]
    if kind == 'create':
        if (name, key) in live:
            violations.append("%s: second OnCreateMux of key %r, which was created before and never completed" % (name, key))
        live[(name, key)] = True
    elif kind == 'completed':
        if (name, key) not in live:
            violations.append("%s: completion of non-live key %r" % (name, key))
        live.pop((name, key), None)
    elif kind in ('item', 'error'):
        if (name, key) not in live:
            violations.append("%s: %s for non-live key %r" % (name, kind, key))

print("\nC03 requires: create, items, exactly one completion per key; no second creation of a live key;")
print("every created key completed when the stream completes.")
print("(If one reads OnErrorMux as the end of the key instead, then the boundary 'after-map' violates C03:")
print(" items 4, 5, 6 and a completion are emitted for key (0,) after its error.)")
for v in violations:
    print("VIOLATION:", v)
lost = [v for v in (1, 2) if not any(isinstance(w, list) and v in w for w in out)]
if lost:
    print("VIOLATION: the two windows opened before the error never produce a result; items", lost, "appear in no emitted window")
if violations or lost:
    sys.exit(1)
print("no violation")
