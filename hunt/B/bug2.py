"""C02 - the state store is shared by all subscriptions of one with_memory_store pipeline.

rs.state.with_memory_store(pipeline=...) builds its StoreManager when the
operator is built.  Every subscription of the resulting observable (or every
source the operator is applied to) addresses the same store slots, so two
subscriptions that are active at the same time (hot source, share(), merge of two
derived streams, ...) read and write each other's per-key state.
"""
import sys
import rx
from rx.subject import Subject
import rxsci as rs

source = Subject()
counted = source.pipe(
    rs.state.with_memory_store(pipeline=rx.pipe(
        rs.ops.group_by(lambda i: i[0], pipeline=rx.pipe(
            rs.ops.count(),            # running count of the group
        )),
    )),
)

a, b = [], []
counted.subscribe(on_next=a.append, on_error=lambda e: a.append(('ERROR', repr(e))))
counted.subscribe(on_next=b.append, on_error=lambda e: b.append(('ERROR', repr(e))))

items = [('x', 1), ('y', 1), ('x', 2), ('x', 3), ('y', 2)]
for i in items:
    source.on_next(i)
source.on_completed()

expected = [1, 1, 2, 3, 2]
print("input items (hot source, two subscribers of the same observable):", items)
print("pipeline: with_memory_store(group_by(key, count()))")
print("C02 requires: what a group emits is a function of the items this group received")
print("              in this lifetime -> each subscriber must get", expected)
print("subscriber A got:", a)
print("subscriber B got:", b)

# simplest form, without any grouping
source2 = Subject()
c = source2.pipe(rs.state.with_memory_store(pipeline=rx.pipe(rs.ops.count())))
a2, b2 = [], []
c.subscribe(on_next=a2.append)
c.subscribe(on_next=b2.append)
for i in [10, 20, 30]:
    source2.on_next(i)
source2.on_completed()
print("\nwith_memory_store(count()) on items [10, 20, 30], two subscribers, expected [1, 2, 3] each")
print("subscriber A got:", a2)
print("subscriber B got:", b2)

if a != expected or b != expected or a2 != [1, 2, 3] or b2 != [1, 2, 3]:
    print("VIOLATION: per-key state leaks between concurrent subscriptions")
    sys.exit(1)
print("no violation")
