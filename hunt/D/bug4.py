"""C12 - rs.math.variance emits a NEGATIVE variance and rs.math.stddev fails with
"math domain error" on finite integer sequences with a large common offset
(values above 2**53 that straddle a power of two, e.g. nanosecond timestamps
around 2**60 ns = July 2006, or any 64-bit counters/ids around 2**60, 2**62).

variance.accumulate keeps the first item as an exact Python int (m = i) and then
mixes exact integer arithmetic (i - m1, both ints) with rounded float arithmetic
(i - m, m a float) on the second item.  For ints that are not representable as
floats and lie on both sides of a power of two (where the float grid spacing
changes) the two differences get opposite signs, so the running sum of squares s decreases
and becomes negative.  A variance can never be negative, whatever the
conditioning of the data, and stddev must emit a value after every item; the
two-pass formal.* operators stay non negative on the same input.
"""
import sys
import math
import statistics
import rx
import rxsci as rs


def run(op, xs, mux):
    out = []
    src = rx.from_(xs)
    obs = src.pipe(rs.state.with_memory_store(rx.pipe(op))) if mux else src.pipe(op)
    obs.subscribe(on_next=out.append, on_error=lambda e: out.append(('on_error', repr(e))))
    return out


failed = False
datasets = {
    'two ints near 2**60': [2**60 + 128, 2**60 - 12],
    'ids near 2**62': [2**62 + 269, 2**62 - 256, 2**62 - 153],
}
for label, xs in datasets.items():
    print("%s: %r" % (label, xs))
    exact_var = [0.0] + [float(statistics.variance(xs[:k])) for k in range(2, len(xs) + 1)]
    exact_std = [math.sqrt(v) for v in exact_var]
    for mux in (False, True):
        v = run(rs.math.variance(), xs, mux)
        s = run(rs.math.stddev(), xs, mux)
        sr = run(rs.math.stddev(reduce=True), xs, mux)
        print("  mux=%s" % mux)
        print("    exact sample variance after each item :", exact_var)
        print("    rs.math.variance()                    :", v)
        print("    exact stddev after each item          :", exact_std)
        print("    rs.math.stddev()                      :", s)
        print("    rs.math.stddev(reduce=True)           :", sr)
        if any(isinstance(x, tuple) or x < 0 for x in v):
            print("    VIOLATION: negative variance emitted")
            failed = True
        if len(s) != len(xs) or any(isinstance(x, tuple) for x in s + sr):
            print("    VIOLATION: stddev raised instead of emitting a value for every item")
            failed = True

sys.exit(1 if failed else 0)
