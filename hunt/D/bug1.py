"""C08 - tee_map output differs from "each branch run independently, then joined"
as soon as the tee_map observable is subscribed more than once.

tee_map() builds ONE publish()/connectable and ONE set of branch observables when
the operator is applied to the source (in _tee_map), not per subscription.  After
the first subscription has completed, the internal publish Subject is stopped, so
every later subscription sees an empty source.  With two live subscriptions on a
hot source, disposing one of them disposes the shared connection and starves the
other one.
"""
import sys
import rx
import rx.operators as ops
from rx.subject import Subject
import rxsci as rs

failed = False


def collect(obs):
    out = []
    obs.subscribe(on_next=out.append, on_error=lambda e: out.append(('on_error', repr(e))),
                  on_completed=lambda: out.append('completed'))
    return out


def branches():
    return [rs.ops.map(lambda i: i * 2), rs.math.sum(reduce=True)]


items = [1, 2, 3]
for join in ['zip', 'merge', 'combine_latest']:
    # what the property requires: every branch alone (a cold observable can be
    # subscribed any number of times and gives the same answer each time)
    b0 = rx.from_(items).pipe(branches()[0])
    b1 = rx.from_(items).pipe(branches()[1])
    indep = [(collect(b0), collect(b1)) for _ in range(2)]

    tee = rx.from_(items).pipe(rs.ops.tee_map(*branches(), join=join))
    first = collect(tee)
    second = collect(tee)
    print("join=%s source=%s branches=[map(x*2), sum(reduce=True)]" % (join, items))
    print("  branches alone, subscription 1:", indep[0])
    print("  branches alone, subscription 2:", indep[1], "(identical, as expected)")
    print("  tee_map, subscription 1      :", first)
    print("  tee_map, subscription 2      :", second)
    if first != second:
        print("  VIOLATION: second subscription of the same tee_map observable lost the source items")
        failed = True

# same thing on a multiplexed source
tee = rx.from_(items).pipe(rs.state.with_memory_store(
    rs.ops.tee_map(*branches(), join='merge')))
first = collect(tee)
second = collect(tee)
print("mux source: subscription 1:", first, " subscription 2:", second)
if first != second:
    print("  VIOLATION (mux)")
    failed = True

# two live subscribers on a hot source: disposing one starves the other
src = Subject()
tee = src.pipe(rs.ops.tee_map(rs.ops.map(lambda i: i * 2), rs.ops.count()))
a, b = [], []
da = tee.subscribe(a.append)
db = tee.subscribe(b.append)
src.on_next(1)
src.on_next(2)
da.dispose()
src.on_next(3)
src.on_next(4)
print("hot source 1,2,<dispose subscriber A>,3,4 ; subscriber B required [(2,1),(4,2),(6,3),(8,4)], got", b)
if b != [(2, 1), (4, 2), (6, 3), (8, 4)]:
    print("  VIOLATION: subscriber B no longer receives the source items after A was disposed")
    failed = True

sys.exit(1 if failed else 0)
