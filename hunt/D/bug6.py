"""C12 ("tiny and huge scales") - LOW CONFIDENCE / borderline scope.

At the far ends of the double range the streaming aggregates return 0.0 or inf
although the exact statistic is a perfectly representable (normal) double:

* variance/stddev (Welford) accumulate the raw sum of squared deviations
  s = sum (x-m)^2, which underflows to 0 for |x| ~ 1e-170 (exact stddev
  ~1e-170) and overflows to inf for |x| ~ 1e153 with a few hundred items (exact
  variance ~1e306, exact stddev ~1e153);
* mean accumulates the raw sum and divides at the end: mean([1e308, 1e308]) = inf;
* sum overflows on an intermediate partial sum: sum([1e308, 1e308, -1e308]) = inf.

The relative error is then 100% / infinite, i.e. not "proportional to machine
epsilon, the item count and the conditioning of the data".  (If the intended
"tiny and huge scales" stop at ~1e+-150 this is out of scope.)
"""
import sys
import math
import random
from fractions import Fraction as F
import rx
import rxsci as rs


def last(op, xs):
    out = []
    rx.from_(xs).pipe(op).subscribe(on_next=out.append, on_error=lambda e: out.append(repr(e)))
    return out[-1]


def exact_std(xs):
    fx = [F(x) for x in xs]
    m = sum(fx) / len(fx)
    v = sum((x - m) ** 2 for x in fx) / (len(fx) - 1)
    # sqrt of a Fraction with scaling to stay in range
    e = 0
    while v > F(10) ** 200:
        v /= F(10) ** 200; e += 100
    while 0 < v < F(10) ** -200:
        v *= F(10) ** 200; e -= 100
    return math.sqrt(v) * 10.0 ** e


failed = False
rnd = random.Random(1)
cases = [
    ('stddev tiny', rs.math.stddev(), [1e-170, 3e-170], None),
    ('formal.stddev tiny', rs.math.formal.stddev(), [1e-170, 3e-170], None),
    ('stddev huge', rs.math.stddev(), [rnd.gauss(0, 1e153) for _ in range(300)], None),
    ('mean huge', rs.math.mean(), [1e308, 1e308], 1e308),
    ('sum huge', rs.math.sum(), [1e308, 1e308, -1e308], 1e308),
]
for name, op, xs, ex in cases:
    got = last(op, xs)
    if ex is None:
        ex = exact_std(xs) if 'formal' not in name else exact_std(xs) * math.sqrt((len(xs) - 1) / len(xs))
    shown = xs if len(xs) < 5 else '%d samples of gauss(0, 1e153)' % len(xs)
    rel = abs(got - ex) / abs(ex) if isinstance(got, float) and math.isfinite(got) else float('inf')
    print("%-18s input=%s\n      exact=%r  library=%r  relative error=%g" % (name, shown, ex, got, rel))
    if not rel < 1e-6:
        print("      VIOLATION")
        failed = True

sys.exit(1 if failed else 0)
