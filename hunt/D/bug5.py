"""C08 (plain observables) - a branch does not receive the source items when its
pipeline subscribes to its input in a deferred way (RxPY ops.start_with /
ops.concat / ops.repeat / ops.retry / ops.catch ..., which schedule the inner
subscription on the CurrentThreadScheduler trampoline).

tee_map subscribes the branches and then immediately connect()s the published
source.  With a cold synchronous source (rx.from_, rs.ops.from_iterable, csv/file
readers...) the whole source is pushed during connect(), i.e. before the
trampolined subscription of such a branch has been executed: that branch misses
every source item, so tee_map does not "feed every source item to every branch"
and its output is not the join of the branches' own outputs.
"""
import sys
import rx
import rx.operators as ops
import rxsci as rs


def collect(obs):
    out = []
    obs.subscribe(on_next=out.append, on_error=lambda e: out.append(('on_error', repr(e))),
                  on_completed=lambda: out.append('completed'))
    return out


items = [1, 2, 3]
b0 = collect(rx.from_(items).pipe(ops.start_with(0)))
b1 = collect(rx.from_(items).pipe(rs.ops.count()))
print("source:", items)
print("branch 0 alone  ops.start_with(0):", b0)
print("branch 1 alone  rs.ops.count()   :", b1)

required = {
    # branch 0 emits 0 on subscription, then both branches emit once per source item
    'zip': [(0, 1), (1, 2), (2, 3), 'completed'],
    'merge': [0, 1, 1, 2, 2, 3, 3, 'completed'],
    'combine_latest': [(0, None), (1, None), (1, 1), (2, 1), (2, 2), (3, 2), (3, 3), 'completed'],
}
failed = False
for join in ['zip', 'merge', 'combine_latest']:
    actual = collect(rx.from_(items).pipe(
        rs.ops.tee_map(ops.start_with(0), rs.ops.count(), join=join)))
    print("join=%s" % join)
    print("   required:", required[join])
    print("   actual  :", actual)
    got_from_branch0 = [x for x in actual if x != 'completed']
    if actual != required[join]:
        print("   VIOLATION: the start_with branch never saw the source items 1, 2, 3")
        failed = True

sys.exit(1 if failed else 0)
