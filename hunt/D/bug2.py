"""C08 - tee_map with nested-window branches: when two branches are the SAME
roll/group_by/split operator object, tee_map no longer equals "each branch run
independently, then joined".

rs.data.roll(...), rs.ops.group_by(...) and rs.data.split(...) create their
`outer_observer = Subject()` once, when the operator is built, instead of once
per subscription.  All applications of that operator object therefore share one
Subject: inside a tee_map each branch receives the outer-key Create/Completed
events of BOTH branches (twice), so key completions arrive early/duplicated and
the join state of the key is wiped before the last branch has delivered.
Reusing an operator object in several branches is fine for every other operator
(rs.math.sum, rs.ops.map, rs.ops.count...), and the result must not depend on
whether two equal branches are the same object or two equal objects.
"""
import sys
import rx
import rxsci as rs

failed = False
items = [1, 2, 3, 4, 5]


def run(op):
    out = []
    rx.from_(items).pipe(rs.state.with_memory_store(rx.pipe(op))).subscribe(
        on_next=out.append, on_error=lambda e: out.append(('on_error', repr(e))),
        on_completed=lambda: out.append('completed'))
    return out


def roll():
    return rs.data.roll(window=2, stride=2, pipeline=rs.math.sum(reduce=True))


def group():
    return rs.ops.group_by(lambda i: i % 2, rs.math.sum(reduce=True))


def split():
    return rs.data.split(lambda i: i > 3, rs.math.sum(reduce=True))


for name, mk in [('roll(2,2,sum)', roll), ('group_by(i%2,sum)', group), ('split(i>3,sum)', split)]:
    alone = run(mk())
    for join in ['zip', 'merge', 'combine_latest']:
        expected = run(rs.ops.tee_map(mk(), mk(), join=join))       # two equal operator objects
        shared = mk()
        actual = run(rs.ops.tee_map(shared, shared, join=join))     # the same object twice
        ok = actual == expected
        print("source=%s branch=%s (alone -> %s) join=%s" % (items, name, alone, join))
        print("   required (join of the two independent branch outputs):", expected)
        print("   tee_map(b, b) with b the same operator object        :", actual)
        if not ok:
            print("   VIOLATION")
            failed = True

sys.exit(1 if failed else 0)
