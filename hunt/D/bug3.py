"""C13 - scan on a multiplexed stream produces mux errors for items on which the
user accumulator did NOT raise, and the later items of the key do not continue
"as if the failing item were absent".

scan_mux declares its per-key state with data_type=type(seed).  With an int seed
(the documented example: rs.ops.scan(lambda acc, i: acc + i, seed=0)) the memory
store allocates an array('q'); as soon as the accumulator returns a float (or an
int >= 2**63) store.set_state() raises inside scan's try block and the item is
turned into an OnErrorMux although the user function succeeded.  The accumulated
value is lost as well, so the items after a genuine failure do not continue.
The same pipeline on a plain observable works.
"""
import sys
import io
import contextlib
import rx
import rxsci as rs


def acc(a, i):
    if i is None:
        raise ValueError('user function fails on None')
    return a + i


items = [1.5, None, 2.5, 4]        # only the 2nd item makes the user function raise
failed = False

for handler_name in ['error.map', 'ignore', 'router', 'none']:
    dead = []
    if handler_name == 'error.map':
        handler = [rs.error.map(lambda e: ('mapped', type(e).__name__))]
        required = [1.5, ('mapped', 'ValueError'), 4.0, 8.0]
    elif handler_name == 'ignore':
        handler = [rs.error.ignore()]
        required = [1.5, 4.0, 8.0]
    elif handler_name == 'router':
        errors, route = rs.error.create_error_router()
        errors.subscribe(on_next=lambda e: dead.append(type(e).__name__))
        handler = [route()]
        required = [1.5, 4.0, 8.0]
    else:
        handler = []
        required = [1.5, ('on_error', 'ValueError')]

    out = []
    with contextlib.redirect_stdout(io.StringIO()):   # error.map prints "error" for each error
        rx.from_(items).pipe(
            rs.state.with_memory_store(rx.pipe(
                rs.ops.scan(acc, seed=0),
                *handler,
            )),
        ).subscribe(
            on_next=out.append,
            on_error=lambda e: out.append(('on_error', type(e).__name__)),
        )
    print("items=%r  scan(acc+i, seed=0) + %s" % (items, handler_name))
    print("   required:", required, "(exactly one mux error, for the None item)")
    print("   actual  :", out, ("dead letters: %s" % dead) if handler_name == 'router' else '')
    if out != required or (handler_name == 'router' and dead != ['ValueError']):
        print("   VIOLATION")
        failed = True

# all-integer input, accumulator result leaves the int64 range: user function never raises
out = []
rx.from_(list(range(1, 26))).pipe(
    rs.state.with_memory_store(rx.pipe(rs.ops.scan(lambda a, i: a * i, seed=1))),
).subscribe(on_next=out.append, on_error=lambda e: out.append(('on_error', repr(e))))
print("items=1..25 scan(a*i, seed=1): required 25 items ending with 25! =", 15511210043330985984000000)
print("   actual last output:", out[-1], " number of outputs:", len(out))
if out[-1] != 15511210043330985984000000:
    print("   VIOLATION (mux error although the accumulator never raises)")
    failed = True

sys.exit(1 if failed else 0)
