"""Exploration: thread race between a late error delivered by an asynchronous
branch (observe_on another thread) and the tap that closes the notification
window. Usage: explore_race.py <version> <trials>"""
import sys
import threading
import time
import random
sys.path.insert(0, '/tmp/ws_V/out')
from _versions import load

import rx
import rx.operators as ops
from rx.subject import Subject
from rx.scheduler import EventLoopScheduler
import rxsci as rs

version = sys.argv[1] if len(sys.argv) > 1 else 'head'
trials = int(sys.argv[2]) if len(sys.argv) > 2 else 5000
tee_map = load(version)
sys.setswitchinterval(1e-6)

C, N = rs.OnCreateMux, rs.OnNextMux
sch = EventLoopScheduler()
lost = 0
stats = {}
flag = [False]
jit = [0, 0]


def spin(us):
    t = time.perf_counter() + us * 1e-6
    while time.perf_counter() < t:
        pass


def swallow_and_flag(source):
    def on_error(e):
        flag[0] = True
        spin(jit[0])

    def sub(o, s):
        return source.subscribe(on_next=o.on_next, on_error=on_error, on_completed=o.on_completed, scheduler=s)
    return rx.create(sub)


def on_next_downstream(i):
    # runs on the event loop thread for branch 0: holds the thread (and the
    # queued error) until the source thread is about to finish the notification
    if isinstance(i, N) and i.item == 'hold' and threading.current_thread() is not threading.main_thread():
        while not flag[0]:
            pass
        spin(jit[1])


for trial in range(trials):
    s = Subject()
    got = threading.Event()
    flag[0] = False
    jit[0] = random.uniform(0, 40)
    jit[1] = 0
    d = s.pipe(
        rs.cast_as_mux_observable(),
        tee_map(
            rx.pipe(ops.observe_on(sch), rs.cast_as_mux_observable()),
            rx.pipe(swallow_and_flag, rs.cast_as_mux_observable()),
            join='merge'),
    ).subscribe(on_next=on_next_downstream, on_error=lambda e: (stats.__setitem__(threading.current_thread() is threading.main_thread(), stats.get(threading.current_thread() is threading.main_thread(),0)+1), got.set()))
    s.on_next(C((0,)))
    s.on_next(N((0,), 'hold'))
    s.on_error(Exception('E'))
    if not got.wait(0.5):
        lost += 1
        print('trial %d jit %s: error lost' % (trial, jit))
    d.dispose()

print('%s: lost %d / %d' % (version, lost, trials), 'forwarded on main thread (deferred path):', stats)
sch.dispose()
