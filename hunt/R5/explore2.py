"""Exploration, second batch."""
import sys
import traceback
sys.path.insert(0, '/tmp/ws_V/out')
from _versions import load
from explore1 import Rec, hot, ident, swallow, recover, transform, short, C, N, D, E

import rx
import rx.operators as ops
from rx.subject import Subject
from rx.scheduler import HistoricalScheduler, ImmediateScheduler, CurrentThreadScheduler
import rxsci as rs

SC = {}


def scenario(f):
    SC[f.__name__] = f
    return f


@scenario
def e01_late_subscribing_router_branch(tee_map):
    out = []
    for kind in ('subscribe_on', 'merge', 'delay_subscription0'):
        t = []
        s, src = hot()
        errors, route = rs.error.create_error_router()
        Rec('err', t).sub(errors)
        if kind == 'subscribe_on':
            late = ops.subscribe_on(CurrentThreadScheduler.singleton())
        elif kind == 'merge':
            late = ops.merge(rx.never())
        else:
            late = ops.start_with(rs.state.ProbeStateTopology(None)) if False else ops.concat()
        b1 = rx.pipe(late, rs.cast_as_mux_observable(), route())
        Rec('out', t).sub(src.pipe(tee_map(ident(), b1, join='merge')))
        s.on_next(C((0,))); s.on_next(N((0,), 1))
        s.on_error(Exception('E'))
        t.append('obs=%d' % len(s.observers))
        out.append(t)
    return out


@scenario
def e02_cold_recover(tee_map):
    out = []
    for order in (0, 1):
        t = []
        src = rx.concat(rx.from_([C((0,)), N((0,), 1)]), rx.throw(Exception('E'))).pipe(rs.cast_as_mux_observable())
        br = [rx.pipe(ops.catch(lambda e, s_: rx.from_([N((0,), 'r'), D((0,))])), rs.cast_as_mux_observable()),
              rx.pipe(ops.catch(lambda e, s_: rx.from_([N((0,), 'q'), D((0,))])), rs.cast_as_mux_observable())]
        if order:
            br.reverse()
        Rec('out', t).sub(src.pipe(tee_map(*br, join='zip')))
        out.append(t)
    return out


@scenario
def e03_identity_branch(tee_map):
    out = []
    for fail in (0, 1):
        t = []
        s, src = hot()
        Rec('out', t).sub(src.pipe(tee_map(lambda d: d, lambda d: d, join='zip')))
        s.on_next(C((0,))); s.on_next(N((0,), 1))
        if fail:
            s.on_error(Exception('E'))
        else:
            s.on_next(D((0,))); s.on_completed()
        t.append('obs=%d' % len(s.observers))
        out.append(t)
    return out


@scenario
def e04_single_branch(tee_map):
    out = []
    for fail in (0, 1):
        t = []
        s, src = hot()
        Rec('out', t).sub(src.pipe(tee_map(ident())))
        s.on_next(C((0,))); s.on_next(N((0,), 1))
        if fail:
            s.on_error(Exception('E'))
        else:
            s.on_next(D((0,))); s.on_completed()
        t.append('obs=%d' % len(s.observers))
        out.append(t)
    return out


@scenario
def e08_two_concurrent_subscriptions(tee_map):
    t = []
    s, src = hot()
    o = src.pipe(tee_map(ident(), ident()))
    Rec('a', t).sub(o)
    Rec('b', t).sub(o)
    s.on_next(C((0,))); s.on_next(N((0,), 1))
    s.on_error(Exception('E'))
    t.append('obs=%d' % len(s.observers))
    return t


@scenario
def e08b_two_subscriptions_one_disposed(tee_map):
    t = []
    s, src = hot()
    o = src.pipe(tee_map(ident(), ident()))
    a = Rec('a', t).sub(o)
    Rec('b', t).sub(o)
    s.on_next(C((0,))); s.on_next(N((0,), 1))
    a.dispose()
    s.on_next(N((0,), 2))
    t.append('obs=%d' % len(s.observers))
    return t


@scenario
def e13_branch_fails_at_subscription(tee_map):
    out = []
    for pos in (0, 1):
        t = []
        n = [0]

        def sub(o, sc):
            n[0] += 1
            o.on_next(C((0,))); o.on_next(N((0,), 1)); o.on_next(D((0,))); o.on_completed()
        src = rx.create(sub).pipe(rs.cast_as_mux_observable())
        br = [lambda d: rx.throw(Exception('sub')), ident()]
        if pos:
            br.reverse()
        Rec('out', t).sub(src.pipe(tee_map(*br)))
        t.append('connected=%d' % n[0])
        out.append(t)
    return out


@scenario
def e20_async_b0_second_lifetime(tee_map):
    t = []
    sch = HistoricalScheduler()
    s, src = hot()
    br = [rx.pipe(ident(), ops.observe_on(sch), rs.cast_as_mux_observable()), ident()]
    Rec('out', t).sub(src.pipe(tee_map(*br, join='zip')))
    try:
        s.on_next(C((0,)))
        sch.start()
        s.on_next(N((0,), 1)); sch.start()
        s.on_next(D((0,))); sch.start()
        s.on_next(C((0,)))
        s.on_next(N((0,), 2)); sch.start()
        s.on_next(D((0,))); sch.start()
    except Exception as ex:
        t.append('RAISED %r' % ex)
    return t


@scenario
def e21_downstream_raises_in_on_next_cold(tee_map):
    t = []
    errors, route = rs.error.create_error_router()
    Rec('err', t).sub(errors)
    src = rx.from_([C((0,)), N((0,), 1), N((0,), 2), D((0,))]).pipe(rs.cast_as_mux_observable())

    def on_next(x):
        t.append('out:' + short(x))
        if isinstance(x, N) and x.item == 2:
            raise Exception('downstream')
    src.pipe(tee_map(lambda d: d, route(), join='merge')).subscribe(
        on_next=on_next, on_error=lambda e: t.append('out:ERR(%s)' % e),
        on_completed=lambda: t.append('out:DONE'))
    return t


@scenario
def e22_error_mux_duplicates(tee_map):
    t = []
    s, src = hot()
    Rec('out', t).sub(src.pipe(tee_map(ident(), ident(), ident())))
    s.on_next(C((0,))); s.on_next(E((0,), 'x')); s.on_next(C((0,))); s.on_next(N((0,), 1)); s.on_next(D((0,))); s.on_completed()
    return t


@scenario
def e23_catch_resubscribes_source(tee_map):
    # branch that retries the shared source
    t = []
    s, src = hot()
    br = [rx.pipe(ops.retry(2), rs.cast_as_mux_observable()), ident()]
    Rec('out', t).sub(src.pipe(tee_map(*br, join='merge')))
    s.on_next(C((0,))); s.on_next(N((0,), 1)); s.on_error(Exception('E'))
    t.append('obs=%d' % len(s.observers))
    return t


@scenario
def e24_source_completes_branch_errors_on_completion(tee_map):
    out = []
    for pos in (0, 1):
        t = []
        s, src = hot()
        errors, route = rs.error.create_error_router()
        Rec('err', t).sub(errors)
        br = [rx.pipe(ops.filter(lambda i: False), ops.last(), rs.cast_as_mux_observable()), rx.pipe(ident(), route())]
        if pos:
            br.reverse()
        Rec('out', t).sub(src.pipe(tee_map(*br, join='merge')))
        s.on_next(C((0,))); s.on_next(N((0,), 1)); s.on_next(D((0,))); s.on_completed()
        t.append('obs=%d' % len(s.observers))
        out.append(t)
    return out


@scenario
def e25_multiplex_public(tee_map):
    out = []
    for fail in (0, 1):
        t = []
        s = Subject()
        errors, route = rs.error.create_error_router()
        Rec('err', t).sub(errors)
        Rec('out', t).sub(s.pipe(rs.ops.multiplex(rx.pipe(
            tee_map(rs.ops.map(lambda i: 1 / i), rx.pipe(rs.ops.map(lambda i: 2 / i), route())),
        ))))
        s.on_next(1); s.on_next(0); s.on_next(2)
        if fail:
            s.on_error(Exception('E'))
        else:
            s.on_completed()
        t.append('obs=%d' % len(s.observers))
        out.append(t)
    return out


if __name__ == '__main__':
    names = sys.argv[1:] or sorted(SC)
    impls = {k: load(k) for k in ('pre', 'prev', 'head')}
    for name in names:
        res = {}
        for k, tm in impls.items():
            try:
                res[k] = SC[name](tm)
            except Exception as ex:
                res[k] = 'RAISED %r\n%s' % (ex, traceback.format_exc(limit=-3))
        same = res['pre'] == res['prev'] == res['head']
        print('== %s %s' % (name, 'SAME' if same else 'DIFF'))
        if same:
            print('   all :', res['head'])
        else:
            for k in ('pre', 'prev', 'head'):
                print('   %-4s:' % k, res[k])
