"""Exploration helper (not a demonstration): loads tee_map as of a given commit
without touching the work tree."""
import subprocess
import sys
import types

sys.path.insert(0, '/tmp/ws_V')

SHAS = {
    'pre': '7527c3b^',     # before the chain (tee_map.py as of f2a44b9)
    'prev': 'd3917d2',     # commit just before the reviewed one
    'head': 'HEAD',
}


def load(name):
    sha = SHAS.get(name, name)
    if name == 'work':
        src = open('/tmp/ws_V/rxsci/operators/tee_map.py', 'rb').read()
    else:
        src = subprocess.check_output(
            ['git', '-C', '/tmp/ws_V', 'show', sha + ':rxsci/operators/tee_map.py'])
    mod = types.ModuleType('tee_map_' + name)
    exec(compile(src, 'tee_map@' + sha, 'exec'), mod.__dict__)
    return mod.tee_map
