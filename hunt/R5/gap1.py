"""gap1 (remaining gap, NOT a regression: same result before the chain).

"When the source fails, nothing is signalled downstream before every branch
has been notified, so that an error router in a later branch receives the
stream error and completes its errors observable."

The tap that closes the notification is subscribed right after the branches
have been *asked* to subscribe. It is the last observer of the shared source
only if every branch subscribes to the source synchronously and delivers the
error synchronously. Two ordinary Rx constructions break the assumption:

 A. a branch that subscribes to the source through the trampoline
    (ops.merge, ops.concat / start_with, ops.subscribe_on): its subscription
    is placed AFTER the tap, the error is forwarded and everything is
    disposed before that branch is notified;
 B. a branch with an observe_on before the router: the router has not seen
    the error yet when the synchronous branch's error is forwarded.

In both cases the errors observable of the router never completes (the
symptom the chain of commits set out to fix).

exit 1 when the problem shows, 0 otherwise.
"""
import sys

import rx
import rx.operators as ops
from rx.subject import Subject
from rx.scheduler import HistoricalScheduler
import rxsci as rs

C, N, D = rs.OnCreateMux, rs.OnNextMux, rs.OnCompletedMux


def run(case):
    sch = HistoricalScheduler()
    s = Subject()
    control = Subject()   # e.g. a control stream merged in the branch
    t = []
    errors, route = rs.error.create_error_router()
    errors.subscribe(
        on_next=lambda e: t.append('errors:on_next(%s)' % e),
        on_completed=lambda: t.append('errors:completed'),
    )
    if case == 'A':
        later = rx.pipe(ops.merge(control), rs.cast_as_mux_observable(), route())
    elif case == 'B':
        later = rx.pipe(ops.observe_on(sch), rs.cast_as_mux_observable(), route())
    else:  # reference: synchronous branch
        later = rx.pipe(rs.ops.map(lambda i: i), route())
    s.pipe(
        rs.cast_as_mux_observable(),
        rs.ops.tee_map(rs.ops.map(lambda i: i), later, join='merge'),
    ).subscribe(
        on_next=lambda x: None,
        on_error=lambda e: t.append('out:on_error(%s)' % e),
        on_completed=lambda: t.append('out:completed'),
    )
    s.on_next(C((0,))); s.on_next(N((0,), 1)); sch.start()
    s.on_error(Exception('E')); sch.start()
    return t


rc = 0
expected = ['errors:on_next(E)', 'errors:completed', 'out:on_error(E)']
print('input   : hot source create(0) next(0,1) ERROR(E); tee_map(map, <later branch with the error router>)')
print('expected:', expected)
for case, label in (('ref', 'synchronous later branch'),
                    ('A', 'later branch = merge(control) | router  (late subscription)'),
                    ('B', 'later branch = observe_on | router      (late delivery)')):
    got = run(case)
    ok = got == expected
    print('%-4s %-62s got: %s %s' % (case, label, got, '' if ok else '<-- router never completed'))
    if not ok:
        rc = 1
print('PROBLEM' if rc else 'ok')
sys.exit(rc)
