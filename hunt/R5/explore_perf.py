"""Exploration: per-item overhead of the two taps (not a demonstration)."""
import sys, time
sys.path.insert(0, '/tmp/ws_V/out')
from _versions import load
import rx, rxsci as rs
C, N, D = rs.OnCreateMux, rs.OnNextMux, rs.OnCompletedMux
data = [C((0,))] + [N((0,), i) for i in range(300000)] + [D((0,))]
for rnd in range(3):
    for v in ('pre', 'prev', 'head'):
        tm = load(v)
        n = [0]
        t0 = time.perf_counter()
        rx.from_(data).pipe(rs.cast_as_mux_observable(), tm(lambda d: d, lambda d: d)).subscribe(on_next=lambda i: None)
        print(rnd, v, '%.3fs' % (time.perf_counter() - t0))
