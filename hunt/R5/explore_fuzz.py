"""Exploration: random branch mixes on a hot source, invariants checked on a
given version (default head)."""
import sys
import random
sys.path.insert(0, '/tmp/ws_V/out')
from _versions import load
from explore1 import Rec, hot, ident, swallow, recover, transform, short, C, N, D, E

import rx
import rx.operators as ops
from rx.scheduler import HistoricalScheduler
import rxsci as rs

version = sys.argv[1] if len(sys.argv) > 1 else 'head'
trials = int(sys.argv[2]) if len(sys.argv) > 2 else 3000
tee_map = load(version)
rng = random.Random(int(sys.argv[3]) if len(sys.argv) > 3 else 1)

KINDS = ['ident', 'ident', 'router', 'swallow', 'recover', 'transform', 'async', 'own', 'early', 'nested', 'filter']
bad = 0

for trial in range(trials):
    t = []
    sch = HistoricalScheduler()
    s, src = hot()
    errors, route = rs.error.create_error_router()
    Rec('err', t).sub(errors)
    n = rng.randint(1, 4)
    kinds = [rng.choice(KINDS) for _ in range(n)]
    if kinds.count('router') > 1:
        kinds = [k if k != 'router' or i == kinds.index('router') else 'ident' for i, k in enumerate(kinds)]
    own_at = rng.randint(1, 4)

    def mk(k):
        if k == 'ident':
            return ident()
        if k == 'router':
            return rx.pipe(ident(), route())
        if k == 'swallow':
            return rx.pipe(swallow(), rs.cast_as_mux_observable())
        if k == 'recover':
            return rx.pipe(recover(N((0,), 'r'), D((0,))), rs.cast_as_mux_observable())
        if k == 'transform':
            return rx.pipe(transform('T'), rs.cast_as_mux_observable())
        if k == 'async':
            return rx.pipe(ops.observe_on(sch), rs.cast_as_mux_observable())
        if k == 'own':
            def f(x):
                if isinstance(x, N) and x.item == own_at:
                    raise Exception('own')
                return x
            return rx.pipe(ops.map(f), rs.cast_as_mux_observable())
        if k == 'early':
            return rx.pipe(ops.take(2), rs.cast_as_mux_observable())
        if k == 'nested':
            return tee_map(ident(), ident(), join='merge')
        if k == 'filter':
            return rs.ops.filter(lambda i: False)
    join = rng.choice(['zip', 'merge', 'combine_latest'])
    if 'async' in kinds:
        join = 'merge'   # zip with an asynchronous branch 0 raises IndexError in every version
    end = rng.choice(['error', 'complete', 'dispose'])
    nitems = rng.randint(0, 5)
    try:
        d = Rec('out', t).sub(src.pipe(tee_map(*[mk(k) for k in kinds], join=join)))
        s.on_next(C((0,)))
        for i in range(1, nitems + 1):
            s.on_next(N((0,), i))
            if rng.random() < 0.3:
                sch.start()
        if end == 'error':
            s.on_error(Exception('E'))
        elif end == 'complete':
            s.on_next(D((0,))); s.on_completed()
        else:
            d.dispose()
        sch.start()
    except Exception as ex:
        t.append('RAISED %r' % ex)
    terms = [x for x in t if x.startswith('out:ERR') or x == 'out:DONE']
    problems = []
    if any(x.startswith('RAISED') for x in t):
        problems.append('exception escaped')
    if len(terms) > 1:
        problems.append('several terminal events')
    if terms and not (t[-1] in terms or t[-1].startswith('err:')):
        idx = t.index(terms[0])
        if any(x.startswith('out:') for x in t[idx + 1:]):
            problems.append('event after terminal')
    if len(s.observers) != 0 and (terms or end == 'dispose'):
        problems.append('observer left on the source')
    own_fired = 'own' in kinds and nitems >= own_at
    if end == 'error' and not own_fired:
        handing = [k for k in kinds if k in ('ident', 'router', 'nested', 'filter', 'transform', 'async', 'early')]
        # 'early' completed branches hand nothing over
        handing = [k for k in handing if not (k == 'early' and nitems >= 1)]
        if handing and not any(x.startswith('out:ERR') for x in t):
            problems.append('source error not forwarded')
        if 'router' in kinds and 'err:DONE' not in t:
            problems.append('router not completed')
    if end == 'complete' and not own_fired:
        blockers = [k for k in kinds if k in ()]
        if 'out:DONE' not in t:
            problems.append('no completion')
        if 'router' in kinds and 'err:DONE' not in t:
            problems.append('router not completed on completion')
    if problems:
        bad += 1
        if bad <= 15:
            print(trial, kinds, join, end, nitems, own_at, problems)
            print('    ', t)
print('%s: %d problems / %d' % (version, bad, trials))
