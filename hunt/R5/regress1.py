"""regress1: the reset of the join cells at OnCreateMux is done when BRANCH 0
sees the create. When branch 0 is asynchronous (observe_on) and lags behind a
synchronous branch, the value the other branch already stored for the NEW
lifetime of the key is wiped, and zip pairs items of different source events.

Regression since bdc7cba ("tee_map resets the cells of a key when the key is
created"), still present on HEAD. Before the chain the same run is correct.

exit 1 when the problem shows, 0 otherwise.
"""
import sys

import rx
import rx.operators as ops
from rx.subject import Subject
from rx.scheduler import HistoricalScheduler
import rxsci as rs

C, N, D = rs.OnCreateMux, rs.OnNextMux, rs.OnCompletedMux


def run(join):
    sch = HistoricalScheduler()     # deterministic "other thread" of branch 0
    s = Subject()
    got = []
    s.pipe(
        rs.cast_as_mux_observable(),
        rs.ops.tee_map(
            # branch 0: asynchronous delivery
            rx.pipe(rs.ops.map(lambda i: i), ops.observe_on(sch), rs.cast_as_mux_observable()),
            # branch 1: synchronous
            rs.ops.map(lambda i: i),
            join=join,
        ),
    ).subscribe(
        on_next=lambda x: got.append(x.item) if isinstance(x, N) else None,
        on_error=lambda e: got.append('ERR %r' % e),
    )

    # first lifetime of key 1: branch 0 keeps up
    s.on_next(C((1,))); sch.start()
    s.on_next(N((1,), 'a')); sch.start()
    s.on_next(D((1,))); sch.start()
    # second lifetime of key 1: branch 0 lags by one event
    s.on_next(C((1,)))
    s.on_next(N((1,), 'b')); sch.start()
    s.on_next(N((1,), 'c')); sch.start()
    s.on_next(D((1,))); sch.start()
    s.on_completed(); sch.start()
    return got


rc = 0
print('input   : key 1 [create a complete] [create b c complete]; branch 0 = observe_on, '
      'lags by one event in the second lifetime; branch 1 synchronous')
expected = [('a', 'a'), ('b', 'b'), ('c', 'c')]
got = run('zip')
print('zip      expected:', expected)
print('zip      got     :', got)
if got != expected:
    rc = 1

got = run('combine_latest')
# every emitted pair of the second lifetime must be made of values of the
# second lifetime only, and the last one must be ('c', 'c')
print('combine  got     :', got)
if got[-1] != ('c', 'c') or ('b', None) in got:
    # ('b', None): the 'b' of branch 1 was erased by the late create of branch 0
    rc = 1
print('PROBLEM' if rc else 'ok')
sys.exit(rc)
