"""Exploration: runs scenarios against three versions of tee_map and prints
the traces that differ."""
import sys
import traceback
sys.path.insert(0, '/tmp/ws_V/out')
from _versions import load

import rx
import rx.operators as ops
from rx.subject import Subject
from rx.scheduler import HistoricalScheduler, ImmediateScheduler
import rxsci as rs

C, N, D, E = rs.OnCreateMux, rs.OnNextMux, rs.OnCompletedMux, rs.OnErrorMux


def short(x):
    if isinstance(x, C):
        return 'C%s' % (x.key[0],)
    if isinstance(x, N):
        return 'N%s:%r' % (x.key[0], x.item)
    if isinstance(x, D):
        return 'D%s' % (x.key[0],)
    if isinstance(x, E):
        return 'E%s:%r' % (x.key[0], x.error)
    return repr(x)


class Rec:
    def __init__(self, name, trace):
        self.name, self.trace = name, trace

    def sub(self, obs, scheduler=None):
        return obs.subscribe(
            on_next=lambda x: self.trace.append('%s:%s' % (self.name, short(x))),
            on_error=lambda e: self.trace.append('%s:ERR(%s)' % (self.name, e)),
            on_completed=lambda: self.trace.append('%s:DONE' % self.name),
            scheduler=scheduler,
        )


def hot():
    s = Subject()
    return s, s.pipe(rs.cast_as_mux_observable())


def ident():
    return rs.ops.map(lambda i: i)


SC = {}


def scenario(f):
    SC[f.__name__] = f
    return f


@scenario
def s01_hot_error(tee_map):
    t = []
    s, src = hot()
    Rec('out', t).sub(src.pipe(tee_map(ident(), ident())))
    s.on_next(C((0,))); s.on_next(N((0,), 1)); s.on_error(Exception('E'))
    t.append('obs=%d' % len(s.observers))
    return t


@scenario
def s02_router_later_branch_error(tee_map):
    t = []
    s, src = hot()
    errors, route = rs.error.create_error_router()
    Rec('err', t).sub(errors)
    Rec('out', t).sub(src.pipe(tee_map(ident(), rx.pipe(ident(), route()))))
    s.on_next(C((0,))); s.on_next(N((0,), 1)); s.on_error(Exception('E'))
    t.append('obs=%d' % len(s.observers))
    return t


@scenario
def s02b_router_later_branch_completed(tee_map):
    t = []
    s, src = hot()
    errors, route = rs.error.create_error_router()
    Rec('err', t).sub(errors)
    Rec('out', t).sub(src.pipe(tee_map(ident(), rx.pipe(ident(), route()))))
    s.on_next(C((0,))); s.on_next(N((0,), 1)); s.on_next(D((0,))); s.on_completed()
    t.append('obs=%d' % len(s.observers))
    return t


def swallow():
    return ops.catch(lambda e, src: rx.never())


@scenario
def s03_one_swallows(tee_map):
    out = []
    for order in (0, 1):
        t = []
        s, src = hot()
        br = [rx.pipe(ident(), swallow(), rs.cast_as_mux_observable()), ident()]
        if order:
            br.reverse()
        Rec('out', t).sub(src.pipe(tee_map(*br)))
        s.on_next(C((0,))); s.on_next(N((0,), 1)); s.on_error(Exception('E'))
        t.append('obs=%d' % len(s.observers))
        out.append(t)
    return out


@scenario
def s04_all_swallow(tee_map):
    t = []
    s, src = hot()
    br = [rx.pipe(ident(), swallow(), rs.cast_as_mux_observable()) for _ in range(2)]
    Rec('out', t).sub(src.pipe(tee_map(*br)))
    s.on_next(C((0,))); s.on_next(N((0,), 1)); s.on_error(Exception('E'))
    t.append('obs=%d' % len(s.observers))
    return t


def recover(*items):
    return ops.catch(lambda e, src: rx.from_(items, scheduler=ImmediateScheduler()))


@scenario
def s05_recover_and_forward(tee_map):
    out = []
    for order in (0, 1):
        for join in ('zip', 'merge'):
            t = []
            s, src = hot()
            br = [rx.pipe(ident(), recover(N((0,), 'r'), D((0,))), rs.cast_as_mux_observable()), ident()]
            if order:
                br.reverse()
            Rec('out', t).sub(src.pipe(tee_map(*br, join=join)))
            s.on_next(C((0,))); s.on_next(N((0,), 1)); s.on_error(Exception('E'))
            t.append('obs=%d' % len(s.observers))
            out.append(t)
    return out


@scenario
def s05b_all_recover(tee_map):
    t = []
    s, src = hot()
    br = [rx.pipe(ident(), recover(N((0,), 'r%d' % i), D((0,))), rs.cast_as_mux_observable()) for i in range(2)]
    Rec('out', t).sub(src.pipe(tee_map(*br)))
    s.on_next(C((0,))); s.on_next(N((0,), 1)); s.on_error(Exception('E'))
    t.append('obs=%d' % len(s.observers))
    return t


def transform(msg):
    return ops.catch(lambda e, src: rx.throw(Exception(msg)))


@scenario
def s06_transform(tee_map):
    out = []
    for order in (0, 1):
        t = []
        s, src = hot()
        br = [rx.pipe(ident(), transform('T'), rs.cast_as_mux_observable()), ident()]
        if order:
            br.reverse()
        Rec('out', t).sub(src.pipe(tee_map(*br)))
        s.on_next(C((0,))); s.on_next(N((0,), 1)); s.on_error(Exception('E'))
        out.append(t)
    return out


@scenario
def s07_all_async(tee_map):
    t = []
    sch = HistoricalScheduler()
    s, src = hot()
    br = [rx.pipe(ident(), ops.observe_on(sch), rs.cast_as_mux_observable()) for _ in range(2)]
    Rec('out', t).sub(src.pipe(tee_map(*br)))
    s.on_next(C((0,))); s.on_next(N((0,), 1)); s.on_error(Exception('E'))
    t.append('--start')
    sch.start()
    t.append('obs=%d' % len(s.observers))
    return t


@scenario
def s08_one_async(tee_map):
    out = []
    for order in (0, 1):
        for join in ('merge',):
            t = []
            sch = HistoricalScheduler()
            s, src = hot()
            br = [rx.pipe(ident(), ops.observe_on(sch), rs.cast_as_mux_observable()), ident()]
            if order:
                br.reverse()
            Rec('out', t).sub(src.pipe(tee_map(*br, join=join)))
            s.on_next(C((0,))); s.on_next(N((0,), 1)); s.on_error(Exception('E'))
            t.append('--start')
            sch.start()
            t.append('obs=%d' % len(s.observers))
            out.append(t)
    return out


@scenario
def s08b_async_and_swallow(tee_map):
    out = []
    for order in (0, 1):
        t = []
        sch = HistoricalScheduler()
        s, src = hot()
        br = [rx.pipe(ident(), ops.observe_on(sch), rs.cast_as_mux_observable()),
              rx.pipe(ident(), swallow(), rs.cast_as_mux_observable())]
        if order:
            br.reverse()
        Rec('out', t).sub(src.pipe(tee_map(*br, join='merge')))
        s.on_next(C((0,))); s.on_next(N((0,), 1)); s.on_error(Exception('E'))
        t.append('--start')
        sch.start()
        t.append('obs=%d' % len(s.observers))
        out.append(t)
    return out


def boom(x):
    raise Exception('own')


@scenario
def s09_own_error(tee_map):
    out = []
    for order in (0, 1):
        t = []
        s, src = hot()
        br = [rx.pipe(ident(), ops.map(lambda x: boom(x) if isinstance(x, N) and x.item == 2 else x), rs.cast_as_mux_observable()), ident()]
        if order:
            br.reverse()
        Rec('out', t).sub(src.pipe(tee_map(*br, join='merge')))
        s.on_next(C((0,))); s.on_next(N((0,), 1)); s.on_next(N((0,), 2)); s.on_next(N((0,), 3))
        t.append('obs=%d' % len(s.observers))
        s.on_error(Exception('E'))
        out.append(t)
    return out


@scenario
def s10_dispose_before_completion(tee_map):
    t = []
    s, src = hot()
    d = Rec('out', t).sub(src.pipe(tee_map(ident(), ident())))
    s.on_next(C((0,))); s.on_next(N((0,), 1))
    t.append('obs=%d' % len(s.observers))
    d.dispose()
    t.append('obs=%d' % len(s.observers))
    s.on_next(N((0,), 2)); s.on_error(Exception('E'))
    return t


@scenario
def s11_take_downstream(tee_map):
    t = []
    s, src = hot()
    Rec('out', t).sub(src.pipe(tee_map(ident(), ident()), ops.take(2)))
    s.on_next(C((0,))); s.on_next(N((0,), 1))
    t.append('obs=%d' % len(s.observers))
    s.on_next(N((0,), 2)); s.on_error(Exception('E'))
    return t


@scenario
def s11b_take_downstream_cold(tee_map):
    t = []
    src = rx.from_([C((0,)), N((0,), 1), N((0,), 2), N((0,), 3), D((0,))]).pipe(rs.cast_as_mux_observable())
    Rec('out', t).sub(src.pipe(tee_map(ident(), ident()), ops.take(2)))
    return t


@scenario
def s12_resubscribe_hot(tee_map):
    t = []
    s, src = hot()
    o = src.pipe(tee_map(ident(), ident()))
    d = Rec('a', t).sub(o)
    s.on_next(C((0,))); s.on_next(N((0,), 1))
    d.dispose()
    t.append('obs=%d' % len(s.observers))
    d = Rec('b', t).sub(o)
    t.append('obs=%d' % len(s.observers))
    s.on_next(C((1,))); s.on_next(N((1,), 1))
    s.on_error(Exception('E'))
    t.append('obs=%d' % len(s.observers))
    Rec('c', t).sub(o)
    return t


@scenario
def s12b_resubscribe_cold(tee_map):
    t = []
    src = rx.from_([C((0,)), N((0,), 1), D((0,))]).pipe(rs.cast_as_mux_observable())
    o = src.pipe(tee_map(ident(), ident()))
    Rec('a', t).sub(o)
    Rec('b', t).sub(o)
    return t


@scenario
def s12c_retry_downstream(tee_map):
    t = []
    n = [0]

    def sub(o, sc):
        n[0] += 1
        o.on_next(C((0,))); o.on_next(N((0,), n[0]))
        o.on_error(Exception('E%d' % n[0]))
    src = rx.create(sub).pipe(rs.cast_as_mux_observable())
    Rec('a', t).sub(src.pipe(tee_map(ident(), ident()), ops.retry(3)))
    t.append('subs=%d' % n[0])
    return t


@scenario
def s13_nested_branch(tee_map):
    t = []
    s, src = hot()
    errors, route = rs.error.create_error_router()
    Rec('err', t).sub(errors)
    inner = tee_map(ident(), rx.pipe(ident(), route()))
    Rec('out', t).sub(src.pipe(tee_map(inner, ident(), inner if False else ident())))
    s.on_next(C((0,))); s.on_next(N((0,), 1)); s.on_error(Exception('E'))
    t.append('obs=%d' % len(s.observers))
    return t


@scenario
def s13b_nested_last_branch(tee_map):
    t = []
    s, src = hot()
    errors, route = rs.error.create_error_router()
    Rec('err', t).sub(errors)
    inner = tee_map(ident(), rx.pipe(ident(), route()))
    Rec('out', t).sub(src.pipe(tee_map(ident(), inner)))
    s.on_next(C((0,))); s.on_next(N((0,), 1)); s.on_next(D((0,))); s.on_completed()
    t.append('obs=%d' % len(s.observers))
    return t


@scenario
def s13c_in_group_by(tee_map):
    out = []
    for fail in (False, True):
        t = []
        s = Subject()
        errors, route = rs.error.create_error_router()
        Rec('err', t).sub(errors)
        Rec('out', t).sub(s.pipe(
            rs.state.with_memory_store(rx.pipe(
                rs.ops.group_by(lambda i: i % 2, rx.pipe(
                    tee_map(rs.ops.count(reduce=True), rx.pipe(rs.math.sum(reduce=True), route())),
                )),
            )),
        ))
        for i in range(5):
            s.on_next(i)
        if fail:
            s.on_error(Exception('E'))
        else:
            s.on_completed()
        t.append('obs=%d' % len(s.observers))
        out.append(t)
    return out


@scenario
def s13d_in_roll_split(tee_map):
    out = []
    for fail in (False, True):
        for op in ('roll', 'split'):
            t = []
            s = Subject()
            if op == 'roll':
                w = rs.data.roll(window=2, stride=2, pipeline=rx.pipe(
                    tee_map(rs.ops.count(reduce=True), rs.math.sum(reduce=True))))
            else:
                w = rs.data.split(lambda i: i // 2, rx.pipe(
                    tee_map(rs.ops.count(reduce=True), rs.math.sum(reduce=True))))
            Rec('out', t).sub(s.pipe(rs.state.with_memory_store(rx.pipe(w))))
            for i in range(5):
                s.on_next(i)
            if fail:
                s.on_error(Exception('E'))
            else:
                s.on_completed()
            t.append('obs=%d' % len(s.observers))
            out.append(t)
    return out


@scenario
def s14_fail_during_connect(tee_map):
    out = []
    t = []
    errors, route = rs.error.create_error_router()
    Rec('err', t).sub(errors)
    src = rx.throw(Exception('E')).pipe(rs.cast_as_mux_observable())
    Rec('out', t).sub(src.pipe(tee_map(ident(), rx.pipe(ident(), route()))))
    out.append(t)

    t = []
    errors, route = rs.error.create_error_router()
    Rec('err', t).sub(errors)

    def sub(o, sc):
        o.on_next(C((0,))); o.on_next(N((0,), 1))
        raise Exception('raised in subscribe')
    src = rx.create(sub).pipe(rs.cast_as_mux_observable())
    Rec('out', t).sub(src.pipe(tee_map(ident(), rx.pipe(ident(), route()))))
    out.append(t)
    return out


@scenario
def s15_misbehaving(tee_map):
    out = []
    for br_kind in ('plain', 'swallow'):
        t = []

        def sub(o, sc):
            o.on_next(C((0,))); o.on_next(N((0,), 1))
            o.on_error(Exception('E1'))
            o.on_next(N((0,), 2))
            o.on_error(Exception('E2'))
            o.on_completed()
        src = rx.create(sub).pipe(rs.cast_as_mux_observable())
        if br_kind == 'plain':
            br = [ident(), ident()]
        else:
            br = [rx.pipe(ident(), swallow(), rs.cast_as_mux_observable()) for _ in range(2)]
        Rec('out', t).sub(src.pipe(tee_map(*br)))
        out.append(t)
    return out


@scenario
def s16_key_reuse(tee_map):
    out = []
    for join in ('zip', 'combine_latest'):
        t = []
        s, src = hot()

        def m(i):
            if i == 'bad':
                raise Exception('bad')
            return i
        Rec('out', t).sub(src.pipe(tee_map(
            rx.pipe(rs.ops.map(m)),
            rx.pipe(rs.ops.filter(lambda i: i != 'skip')), join=join)))
        s.on_next(C((5,)))
        s.on_next(N((5,), 'bad'))   # b0 -> OnErrorMux, b1 -> cell set
        s.on_next(C((5,)))
        s.on_next(N((5,), 'skip'))  # b0 cell set, b1 nothing
        s.on_next(N((5,), 2))
        s.on_next(D((5,)))
        s.on_next(C((5,)))
        s.on_next(N((5,), 3))
        s.on_next(D((5,)))
        s.on_completed()
        out.append(t)
    return out


@scenario
def s17_reentrant_failure(tee_map):
    out = []
    for order in (0, 1):
        t = []
        s, src = hot()
        errors, route = rs.error.create_error_router()
        Rec('err', t).sub(errors)

        def act(i):
            if i == 2:
                s.on_error(Exception('E'))
            return i
        br = [rx.pipe(rs.ops.map(act)), rx.pipe(ident(), route())]
        if order:
            br.reverse()
        Rec('out', t).sub(src.pipe(tee_map(*br, join='merge')))
        s.on_next(C((0,))); s.on_next(N((0,), 1)); s.on_next(N((0,), 2)); s.on_next(N((0,), 3))
        t.append('obs=%d' % len(s.observers))
        out.append(t)
    return out


@scenario
def s18_own_during_failure(tee_map):
    # b1, when notified (do_action on_error), pushes an error in a side subject
    # merged in b0/b2: an own error raised while the branches are being notified
    out = []
    for pos in (0, 2):
        t = []
        s, src = hot()
        side = Subject()
        errors, route = rs.error.create_error_router()
        Rec('err', t).sub(errors)
        own = rx.pipe(ident(), ops.merge(side), rs.cast_as_mux_observable())
        trig = rx.pipe(ident(), ops.do_action(on_error=lambda e: side.on_error(Exception('own'))), rs.cast_as_mux_observable())
        last = rx.pipe(ident(), route())
        br = [own, trig, last] if pos == 0 else [ident(), trig, own, last]
        Rec('out', t).sub(src.pipe(tee_map(*br, join='merge')))
        s.on_next(C((0,))); s.on_next(N((0,), 1)); s.on_error(Exception('E'))
        t.append('obs=%d side=%d' % (len(s.observers), len(side.observers)))
        out.append(t)
    return out


@scenario
def s19_scheduler_at_subscription(tee_map):
    t = []
    sch = HistoricalScheduler()
    seen = []
    src = rx.from_([C((0,)), N((0,), 1), D((0,))]).pipe(rs.cast_as_mux_observable())
    probe = rx.pipe(ident(), rs.ops.on_subscribe(lambda: None) if False else ident())
    Rec('out', t).sub(src.pipe(tee_map(ident(), ident())), scheduler=sch)
    t.append('--start')
    sch.start()
    return t


@scenario
def s20_early_complete_branch(tee_map):
    out = []
    for fail in (False, True):
        t = []
        s, src = hot()
        br = [rx.pipe(ops.take(2), rs.cast_as_mux_observable()), ident()]
        Rec('out', t).sub(src.pipe(tee_map(*br, join='merge')))
        s.on_next(C((0,))); s.on_next(N((0,), 1)); s.on_next(N((0,), 2))
        t.append('obs=%d' % len(s.observers))
        if fail:
            s.on_error(Exception('E'))
        else:
            s.on_next(D((0,))); s.on_completed()
        t.append('obs=%d' % len(s.observers))
        out.append(t)
    return out


@scenario
def s21_never_emitting_branch(tee_map):
    out = []
    for fail in (False, True):
        t = []
        s, src = hot()
        br = [rx.pipe(rs.ops.filter(lambda i: False)), ident()]
        Rec('out', t).sub(src.pipe(tee_map(*br, join='zip')))
        s.on_next(C((0,))); s.on_next(N((0,), 1)); s.on_next(N((0,), 2))
        if fail:
            s.on_error(Exception('E'))
        else:
            s.on_next(D((0,))); s.on_completed()
        t.append('obs=%d' % len(s.observers))
        out.append(t)
    return out


@scenario
def s22_large_key(tee_map):
    t = []
    s, src = hot()
    Rec('out', t).sub(src.pipe(tee_map(ident(), ident())))
    s.on_next(C((100000,))); s.on_next(N((100000,), 1)); s.on_next(D((100000,)))
    s.on_next(C((3,))); s.on_next(N((3,), 1)); s.on_next(D((3,)))
    s.on_completed()
    return t


if __name__ == '__main__':
    names = sys.argv[1:] or sorted(SC)
    impls = {k: load(k) for k in ('pre', 'prev', 'head')}
    for name in names:
        res = {}
        for k, tm in impls.items():
            try:
                res[k] = SC[name](tm)
            except Exception as ex:
                res[k] = 'RAISED %r\n%s' % (ex, traceback.format_exc(limit=-3))
        same = res['pre'] == res['prev'] == res['head']
        print('== %s %s' % (name, 'SAME' if same else 'DIFF'))
        if same:
            print('   all :', res['head'])
        else:
            for k in ('pre', 'prev', 'head'):
                print('   %-4s:' % k, res[k])
