import sys, threading, time
from collections import namedtuple
import rx, rx.operators as ops
from rx.subject import Subject
import rxsci as rs
print("rxsci from", rs.__file__)

def rec(ev, done=None):
    return dict(on_next=lambda i: ev.append(i), on_error=lambda e: (ev.append('E:'+repr(e)), done and done.set()), on_completed=lambda: (ev.append('C'), done and done.set()))

def with_store(p):
    return rs.state.with_memory_store(p)

def run(label, pipeline, drive):
    ev = []
    s = Subject()
    try:
        d = s.pipe(pipeline).subscribe(**rec(ev))
        drive(s)
    except Exception as e:
        ev.append('RAISED '+repr(e))
    print('%-40s %s obs=%d' % (label, ev, len(s.observers)))

def err(s):
    for i in [1,2,3,4]: s.on_next(i)
    s.on_error(ValueError('boom'))
def ok(s):
    for i in [1,2,3,4]: s.on_next(i)
    s.on_completed()

for join in ['zip', 'merge', 'combine_latest']:
    print('--', join)
    nested = lambda: with_store(rx.pipe(rs.ops.tee_map(
        rs.ops.tee_map(rs.ops.first(), rs.ops.last(), join=join),
        rs.ops.count(reduce=True),
        join=join)))
    run('nested ok', nested(), ok)
    run('nested err', nested(), err)
    nested2 = lambda: with_store(rx.pipe(rs.ops.tee_map(
        rs.ops.count(reduce=True),
        rs.ops.tee_map(rs.ops.first(), rs.ops.last(), join=join),
        join=join)))
    run('nested2 ok', nested2(), ok)
    run('nested2 err', nested2(), err)
    gb = lambda: with_store(rx.pipe(rs.ops.group_by(lambda i: i % 2, rx.pipe(
        rs.ops.tee_map(rs.ops.first(), rs.math.sum(reduce=True), join=join)))))
    run('group_by ok', gb(), ok)
    run('group_by err', gb(), err)
    rl = lambda: with_store(rx.pipe(rs.data.roll(window=2, stride=2, pipeline=rx.pipe(
        rs.ops.tee_map(rs.ops.first(), rs.math.sum(reduce=True), join=join)))))
    run('roll ok', rl(), ok)
    run('roll err', rl(), err)
    sp = lambda: with_store(rx.pipe(rs.data.split(lambda i: i > 2, rx.pipe(
        rs.ops.tee_map(rs.ops.first(), rs.math.sum(reduce=True), join=join)))))
    run('split ok', sp(), ok)
    run('split err', sp(), err)
    # mux-level errors
    me = lambda: with_store(rx.pipe(rs.ops.tee_map(
        rs.ops.map(lambda i: 1/(i-2)), rs.ops.map(lambda i: i), join=join), rs.error.ignore()))
    run('mux error ok', me(), ok)
    run('mux error then fatal', me(), err)
    # re-subscription of a cold pipeline
    ev1 = []; ev2 = []
    p = rx.from_([1,2,3]).pipe(with_store(rx.pipe(rs.ops.tee_map(rs.ops.map(lambda i: i), rs.ops.map(lambda i: i*10), join=join))))
    p.subscribe(**rec(ev1)); p.subscribe(**rec(ev2))
    print('resub ok', ev1, ev2)
    ev1 = []; ev2 = []
    p = rx.concat(rx.from_([1,2,3]), rx.throw(ValueError('boom'))).pipe(with_store(rx.pipe(rs.ops.tee_map(rs.ops.map(lambda i: i), rs.ops.map(lambda i: i*10), join=join))))
    p.subscribe(**rec(ev1)); p.subscribe(**rec(ev2))
    print('resub err', ev1, ev2)
