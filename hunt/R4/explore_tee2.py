import sys, threading, time
import rx, rx.operators as ops
from rx.subject import Subject
from rx.scheduler import HistoricalScheduler, NewThreadScheduler, ThreadPoolScheduler, EventLoopScheduler
import rxsci as rs
print("rxsci from", rs.__file__)

def rec(ev, done=None):
    return dict(on_next=lambda i: ev.append(i), on_error=lambda e: (ev.append('E:'+repr(e)), done and done.set()), on_completed=lambda: (ev.append('C'), done and done.set()))

# 1. observe_on in branches: items queued when the source fails
for join in ['merge', 'zip']:
    ev = []; done = threading.Event()
    el = EventLoopScheduler()
    gate = threading.Event()
    el.schedule(lambda *_: gate.wait(2))   # block the loop so that items queue up
    s = Subject()
    s.pipe(rs.ops.multiplex(rs.ops.tee_map(
        rx.pipe(rs.ops.map(lambda i: i), ops.observe_on(el)),
        rx.pipe(rs.ops.map(lambda i: i*10), ops.observe_on(el)),
        join=join))).subscribe(**rec(ev, done))
    s.on_next(1); s.on_next(2); s.on_error(ValueError('boom'))
    gate.set()
    done.wait(2); time.sleep(0.2)
    print('observe_on branches', join, ev)
    el.dispose()

# 2. delay in branches with historical scheduler
from datetime import timedelta
for join in ['merge']:
    ev = []
    hs = HistoricalScheduler()
    s = Subject()
    s.pipe(rs.ops.multiplex(rs.ops.tee_map(
        rx.pipe(rs.ops.map(lambda i: i), ops.delay(timedelta(seconds=1))),
        rx.pipe(rs.ops.map(lambda i: i*10), ops.delay(timedelta(seconds=1))),
        join=join))).subscribe(**rec(ev), scheduler=hs)
    s.on_next(1); s.on_next(2);
    hs.advance_by(timedelta(seconds=5))
    s.on_next(3)
    s.on_error(ValueError('boom'))
    hs.advance_by(timedelta(seconds=5))
    print('delay branches', join, ev)

# 3. error router in later branch
for join in ['merge', 'zip']:
    ev = []; errs = []
    errors, route = rs.error.create_error_router()
    errors.subscribe(**rec(errs))
    s = Subject()
    s.pipe(rs.ops.multiplex(rs.ops.tee_map(
        rs.ops.map(lambda i: i),
        rx.pipe(rs.ops.map(lambda i: 1/(i-2)), route()),
        join=join))).subscribe(**rec(ev))
    s.on_next(1); s.on_next(2); s.on_next(3); s.on_error(ValueError('boom'))
    print('router later branch', join, ev, 'errors:', errs)

# 4. reentrancy: branch handler triggers source error
for join in ['merge', 'zip']:
    ev = []
    s = Subject()
    def trig(i):
        if i == 2: s.on_error(ValueError('reentrant'))
        return i
    s.pipe(rs.ops.multiplex(rs.ops.tee_map(
        rs.ops.map(trig),
        rs.ops.map(lambda i: i*10),
        join=join))).subscribe(**rec(ev))
    s.on_next(1); s.on_next(2); s.on_next(3)
    print('reentrant b0', join, ev, 'observers', len(s.observers))
    ev = []
    s = Subject()
    s.pipe(rs.ops.multiplex(rs.ops.tee_map(
        rs.ops.map(lambda i: i*10),
        rs.ops.map(trig),
        join=join))).subscribe(**rec(ev))
    s.on_next(1); s.on_next(2); s.on_next(3)
    print('reentrant b1', join, ev, 'observers', len(s.observers))

# 5. branch own error before / after source failure
for join in ['merge', 'zip']:
    ev = []
    s = Subject()
    def own(i):
        raise KeyError('own')
    s.pipe(rs.ops.multiplex(rs.ops.tee_map(
        rs.ops.map(lambda i: i),
        rx.pipe(rs.ops.map(lambda i: i), ops.map(lambda x: own(x) if isinstance(x, rs.OnNextMux) and x.item == 2 else x)),
        join=join))).subscribe(**rec(ev))
    s.on_next(1); s.on_next(2); s.on_next(3); s.on_error(ValueError('boom'))
    print('own fatal before source error', join, ev, 'observers', len(s.observers))
    ev = []
    s = Subject()
    s.pipe(rs.ops.multiplex(rs.ops.tee_map(
        rs.ops.map(lambda i: i),
        rx.pipe(rs.ops.map(lambda i: i), ops.do_action(on_error=lambda e: own(e))),
        join=join))).subscribe(**rec(ev))
    try:
        s.on_next(1); s.on_next(2); s.on_error(ValueError('boom'))
    except Exception as e:
        ev.append('RAISED '+repr(e))
    print('own fatal while handling source error', join, ev, 'observers', len(s.observers))

# 6. disposal
for join in ['merge', 'zip']:
    ev = []
    s = Subject()
    d = s.pipe(rs.ops.multiplex(rs.ops.tee_map(
        rs.ops.map(lambda i: i),
        rs.ops.map(lambda i: i*10),
        join=join))).subscribe(**rec(ev))
    s.on_next(1)
    d.dispose()
    print('dispose early', join, ev, 'observers', len(s.observers))
    s.on_next(2); 
    print('  after', ev)

# 7. early completing branches
for join in ['merge', 'zip']:
    ev = []
    s = Subject()
    s.pipe(rs.ops.multiplex(rs.ops.tee_map(
        rx.pipe(rs.ops.map(lambda i: i), ops.take(2)),
        rs.ops.map(lambda i: i*10),
        join=join))).subscribe(**rec(ev))
    s.on_next(1); s.on_next(2); s.on_error(ValueError('boom'))
    print('b0 rx.take(2) then source error', join, ev, 'observers', len(s.observers))
    ev = []
    s = Subject()
    s.pipe(rs.ops.multiplex(rs.ops.tee_map(
        rx.pipe(rs.ops.map(lambda i: i), ops.take(2)),
        rx.pipe(rs.ops.map(lambda i: i*10), ops.take(2)),
        join=join))).subscribe(**rec(ev))
    s.on_next(1); s.on_next(2); 
    print('all rx.take(2)', join, ev, 'observers', len(s.observers))
    ev = []
    s = Subject()
    s.pipe(rs.ops.multiplex(rs.ops.tee_map(
        rs.ops.first(),
        rs.ops.last(),
        join=join))).subscribe(**rec(ev))
    s.on_next(1); s.on_next(2); s.on_error(ValueError('boom'))
    print('first/last then error', join, ev, 'observers', len(s.observers))
    ev = []
    s = Subject()
    s.pipe(rs.ops.multiplex(rs.ops.tee_map(
        rs.ops.first(),
        rs.ops.last(),
        join=join))).subscribe(**rec(ev))
    s.on_next(1); s.on_next(2); s.on_completed()
    print('first/last then completed', join, ev, 'observers', len(s.observers))
    ev = []
    s = Subject()
    s.pipe(rs.ops.multiplex(rs.ops.tee_map(
        rs.ops.map(lambda i: i),
        rs.ops.filter(lambda i: False),
        join=join))).subscribe(**rec(ev))
    s.on_next(1); s.on_next(2); s.on_error(ValueError('boom'))
    print('never-emitting branch then error', join, ev, 'observers', len(s.observers))
