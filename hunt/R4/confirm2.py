'''what d3917d2 fixes: on 13beab6 a branch that swallows the source error
without terminating hung the stream although another branch forwards the error
(the original code forwarded it). The error router of a later branch must still
be notified before downstream.
exit 1 when the stream hangs or the router is not notified, 0 otherwise.
'''
import sys
import rx
import rx.operators as ops
import rxsci as rs

print('rxsci from', rs.__file__)
got = []
routed = []
errors, route_errors = rs.error.create_error_router()
errors.subscribe(on_next=lambda e: routed.append(repr(e)), on_completed=lambda: routed.append('completed'))
rx.concat(rx.from_([1, 2]), rx.throw(ValueError('boom'))).pipe(
    rs.ops.multiplex(rs.ops.tee_map(
        rx.pipe(rs.ops.map(lambda i: i), ops.catch(lambda e, _: rx.never())),
        rx.pipe(rs.ops.map(lambda i: i * 10), route_errors()),
    )),
).subscribe(
    on_next=got.append,
    on_error=lambda e: got.append('error ' + repr(e)),
    on_completed=lambda: got.append('completed'),
)
expected = [(1, 10), (2, 20), "error ValueError('boom')"]
print('input   : 1, 2, on_error(boom); branch 0 = catch(-> never), branch 1 = error router')
print('expected:', expected, "router: [\"ValueError('boom')\", 'completed']")
print('got     :', got, 'router:', routed)
failed = got != expected or routed != ["ValueError('boom')", 'completed']
print('PROBLEM' if failed else 'ok')
sys.exit(1 if failed else 0)
