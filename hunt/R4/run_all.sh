#!/bin/sh
# runs every script against: orig (e6465df^), prev (13beab6 = tree before the two commits), head, patched (head + the two diffs)
cd /tmp/ws_V
for r in confirm1 confirm2 regress1 regress2 regress3 regress4 regress5 regress6 regress7 regress8; do
  line="$r:"
  for t in out/_trees/orig out/_trees/prev . out/_trees/patched; do
    PYTHONPATH=/tmp/ws_V/$t timeout 60 /venv/bin/python out/$r.py >/dev/null 2>&1
    line="$line $(basename $t | sed 's/^\.$/head/')=$?"
  done
  echo "$line"
done
