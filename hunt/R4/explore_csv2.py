import sys, os, tempfile, threading, time, codecs
from collections import namedtuple
import rx, rx.operators as ops
from rx.subject import Subject
from rx.scheduler import HistoricalScheduler, NewThreadScheduler, ThreadPoolScheduler, CurrentThreadScheduler, ImmediateScheduler, EventLoopScheduler
import rxsci as rs
import rxsci.container.csv as csv
print("rxsci from", rs.__file__)
R = namedtuple('R', ['a', 'b'])
rows = [R(1, 'x'), R(2, 'é'), R(3, 'z')]

class F:
    opened = []
    fail_write_at = None
    fail_open = False
    def __init__(self, name, mode, encoding=None):
        if F.fail_open: raise OSError('cannot open')
        self.name=name; self.mode=mode; self.writes=[]; self.closed=0
        F.opened.append(self)
    def write(self, d):
        if self.closed: raise ValueError("write on closed")
        if F.fail_write_at is not None and len(self.writes) == F.fail_write_at:
            raise OSError('disk full')
        self.writes.append(d)
    def close(self): self.closed += 1

def run(label, src, encoding, scheduler=None, drive=None, wait=None):
    F.opened.clear()
    ev = []
    done = threading.Event()
    d = None
    try:
        d = src.pipe(csv.dump_to_file('f.csv', encoding=encoding, open_obj=F)).subscribe(
            on_next=lambda i: ev.append(('n', i)),
            on_error=lambda e: (ev.append(('e', type(e).__name__)), done.set()),
            on_completed=lambda: (ev.append(('c',)), done.set()),
            scheduler=scheduler)
        if drive: drive()
        if wait: done.wait(3)
    except Exception as e:
        print(label, 'RAISED', repr(e))
    f = F.opened[0] if F.opened else None
    print(label, 'events', ev, 'writes', f and f.writes, 'closed', f and f.closed)
    return d

# hot + scheduler
for enc in [None, 'utf-16']:
    for mk in [HistoricalScheduler, NewThreadScheduler, lambda: ThreadPoolScheduler(1), EventLoopScheduler]:
        sch = mk()
        s = Subject()
        def drive():
            for r in rows: s.on_next(r)
            s.on_completed()
            if isinstance(sch, HistoricalScheduler): sch.start()
            else: time.sleep(0.3)
        run('hot+%s %s' % (type(sch).__name__, enc), s, enc, scheduler=sch, drive=drive)
        print('   observers left', len(s.observers))

# write failure
for enc in [None, 'utf-16']:
    for at in [0, 2, 4]:
        F.fail_write_at = at
        run('write fails at %d, cold %s' % (at, enc), rx.from_(rows), enc)
        s = Subject()
        def drive():
            for r in rows: s.on_next(r)
            s.on_completed()
        run('write fails at %d, hot %s' % (at, enc), s, enc, drive=drive)
        print('   observers left', len(s.observers))
F.fail_write_at = None
# open failure
F.fail_open = True
for enc in [None, 'utf-16']:
    run('open fails cold %s' % enc, rx.from_(rows), enc)
    s = Subject()
    def drive():
        for r in rows: s.on_next(r)
        s.on_completed()
    run('open fails hot %s' % enc, s, enc, drive=drive)
    run('open fails empty %s' % enc, rx.empty(), enc)
F.fail_open = False
# final flush error: idna
R1 = namedtuple('R1', ['a'])
run('idna final', rx.from_([R1(1), R1(2)]), 'idna')
s = Subject()
def drive():
    s.on_next(R1(1)); s.on_next(R1(2)); s.on_completed()
run('idna final hot', s, 'idna', drive=drive)
# non-text codec
run('base64', rx.from_(rows), 'base64')
run('rot13', rx.from_(rows), 'rot13')
# custom codec without incremental encoder
def search(name):
    if name == 'myenc':
        return codecs.CodecInfo(name='myenc', encode=lambda s, errors='strict': (s.upper().encode('ascii', errors), len(s)), decode=lambda b, errors='strict': (bytes(b).decode('ascii', errors), len(b)))
codecs.register(search)
run('custom codec', rx.from_([R(1,'x')]), 'myenc')
# under tee_map
for enc in [None, 'utf-16']:
    F.opened.clear()
    ev=[]
    rx.from_(rows).pipe(rs.ops.tee_map(
        ops.count(),
        csv.dump_to_file('f.csv', encoding=enc, open_obj=F),
        join='merge',
    )).subscribe(on_next=lambda i: ev.append(i), on_error=lambda e: ev.append(repr(e)), on_completed=lambda: ev.append('c'))
    print('tee_map plain', enc, ev, [(f.writes, f.closed) for f in F.opened])
