'''tee_map on a multiplexed source: the source error overtakes the items still
queued in asynchronous branches (observe_on): they are lost.

exit 1 when the problem shows, 0 otherwise.
'''
import sys
import rx
import rx.operators as ops
from rx.subject import Subject
from rx.scheduler import HistoricalScheduler
import rxsci as rs

print('rxsci from', rs.__file__)
failed = False
for join, expected in [
    ('merge', [1, 10, 2, 20, "error ValueError('boom')"]),
    ('zip', [(1, 10), (2, 20), "error ValueError('boom')"]),
    ('combine_latest', [(1, None), (1, 10), (2, 10), (2, 20), "error ValueError('boom')"]),
]:
    got = []
    loop = HistoricalScheduler()   # virtual time: runs only when started
    source = Subject()
    source.pipe(
        rs.ops.multiplex(rs.ops.tee_map(
            rx.pipe(rs.ops.map(lambda i: i), ops.observe_on(loop)),
            rx.pipe(rs.ops.map(lambda i: i * 10), ops.observe_on(loop)),
            join=join,
        )),
    ).subscribe(
        on_next=got.append,
        on_error=lambda e: got.append('error ' + repr(e)),
        on_completed=lambda: got.append('completed'),
    )
    source.on_next(1)
    source.on_next(2)
    source.on_error(ValueError('boom'))
    loop.start()   # the branches now deliver what they queued

    print('join=%s' % join)
    print('  input   : Subject emits 1, 2, on_error(boom); each branch ends with observe_on(loop); loop runs afterwards')
    print('  expected:', expected)
    print('  got     :', got)
    if got != expected:
        failed = True
print('PROBLEM' if failed else 'ok')
sys.exit(1 if failed else 0)
