'''tee_map on a multiplexed source: every branch recovers from the error of the
source (on_error_resume_next / catch with a fallback sequence), tee_map
nevertheless fails the stream with the source error and drops the fallback.

exit 1 when the problem shows, 0 otherwise.
'''
import sys
import rx
import rx.operators as ops
import rxsci as rs

print('rxsci from', rs.__file__)
failed = False


def source():
    return rx.concat(rx.from_([1, 2]), rx.throw(ValueError('boom')))


def fallback():
    return rx.from_([rs.OnNextMux((0,), -1), rs.OnCompletedMux((0,))])


cases = [
    ('on_error_resume_next(empty) in every branch', 'merge',
     lambda: ops.on_error_resume_next(rx.empty()),
     [1, 10, 2, 20, 'completed']),
    ('catch(fallback sequence) in every branch', 'merge',
     lambda: ops.catch(lambda e, _: fallback()),
     # original: [.., -1, 'completed'] ; 13beab6: [.., -1, -1, 'completed']
     None),
    ('catch(fallback sequence) in every branch', 'zip',
     lambda: ops.catch(lambda e, _: fallback()),
     # original: [(1, 10), (2, 20), 'completed'] ; 13beab6: [.., (-1, -1), 'completed']
     None),
]
for label, join, recover, expected in cases:
    got = []
    source().pipe(
        rs.ops.multiplex(rs.ops.tee_map(
            rx.pipe(rs.ops.map(lambda i: i), recover()),
            rx.pipe(rs.ops.map(lambda i: i * 10), recover()),
            join=join,
        )),
    ).subscribe(
        on_next=got.append,
        on_error=lambda e: got.append('error ' + repr(e)),
        on_completed=lambda: got.append('completed'),
    )
    print('%s, join=%s' % (label, join))
    print('  input   : 1, 2, on_error(boom) from a cold source')
    print('  expected:', expected if expected is not None else "no error: the last event is 'completed'")
    print('  got     :', got)
    if (expected is not None and got != expected) or got[-1:] != ['completed']:
        failed = True
print('PROBLEM' if failed else 'ok')
sys.exit(1 if failed else 0)
