import sys, threading, time
import rx, rx.operators as ops
from rx.subject import Subject
from rx.scheduler import HistoricalScheduler, NewThreadScheduler, ThreadPoolScheduler, EventLoopScheduler, ImmediateScheduler
import rxsci as rs
print("rxsci from", rs.__file__)
def rec(ev, done=None):
    return dict(on_next=lambda i: ev.append(i), on_error=lambda e: (ev.append('E:'+repr(e)), done and done.set()), on_completed=lambda: (ev.append('C'), done and done.set()))

for join in ['zip', 'merge']:
  for mk in [HistoricalScheduler, NewThreadScheduler, lambda: ThreadPoolScheduler(2), EventLoopScheduler, ImmediateScheduler]:
    for src, l in [(lambda: rx.from_([1,2,3]), 'ok'), (lambda: rx.concat(rx.from_([1,2]), rx.throw(ValueError('boom'))), 'err')]:
        sch = mk(); ev = []; done = threading.Event()
        errs = []
        errors, route = rs.error.create_error_router()
        errors.subscribe(**rec(errs))
        src().pipe(rs.ops.multiplex(rs.ops.tee_map(rs.ops.map(lambda i: i), rx.pipe(rs.ops.map(lambda i: i*10), route()), join=join))).subscribe(**rec(ev, done), scheduler=sch)
        if isinstance(sch, HistoricalScheduler): sch.start()
        done.wait(2)
        print(join, type(sch).__name__, l, ev, 'router:', errs)

# plain path
for join in ['zip', 'merge']:
    seen = []
    ev = []
    rx.concat(rx.from_([1,2]), rx.throw(ValueError('boom'))).pipe(rs.ops.tee_map(
        ops.map(lambda i: i), rx.pipe(ops.map(lambda i: i*10), ops.do_action(on_error=seen.append)), join=join)).subscribe(**rec(ev))
    print('plain', join, ev, 'later branch saw error:', seen)
    seen = []
    ev = []
    rx.concat(rx.from_([1,2]), rx.throw(ValueError('boom'))).pipe(rs.ops.multiplex(rs.ops.tee_map(
        rs.ops.map(lambda i: i), rx.pipe(rs.ops.map(lambda i: i*10), ops.do_action(on_error=seen.append)), join=join))).subscribe(**rec(ev))
    print('mux  ', join, ev, 'later branch saw error:', seen)
