'''tee_map on a plain Observable (path not touched by the chain): the error of
the source is forwarded by the first branch at once and the disposal cuts the
later branches off, they never see it. The multiplexed path was fixed for this
(13beab6 / d3917d2), the plain path still behaves as before.

exit 1 when the problem shows, 0 otherwise.
'''
import sys
import rx
import rx.operators as ops
import rxsci as rs

print('rxsci from', rs.__file__)
failed = False
for mux in [True, False]:
    seen = []
    got = []
    if mux:
        m = rs.ops.map
        wrap = rs.ops.multiplex
    else:
        m = ops.map
        wrap = lambda p: p
    rx.concat(rx.from_([1, 2]), rx.throw(ValueError('boom'))).pipe(
        wrap(rs.ops.tee_map(
            m(lambda i: i),
            rx.pipe(m(lambda i: i * 10), ops.do_action(on_error=seen.append)),
        )),
    ).subscribe(
        on_next=got.append,
        on_error=lambda e: got.append('error ' + repr(e)),
    )
    print('%s source' % ('multiplexed' if mux else 'plain'))
    print('  input   : 1, 2, on_error(boom); the second branch observes errors with do_action')
    print("  expected: second branch saw [ValueError('boom')]")
    print('  got     : second branch saw', seen, '; downstream', got)
    if len(seen) != 1:
        failed = True
print('PROBLEM' if failed else 'ok')
sys.exit(1 if failed else 0)
