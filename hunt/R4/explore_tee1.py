import sys, threading, time
import rx, rx.operators as ops
from rx.subject import Subject
from rx.scheduler import HistoricalScheduler, NewThreadScheduler, ThreadPoolScheduler, EventLoopScheduler
import rxsci as rs
print("rxsci from", rs.__file__)

def rec(ev, tag=''):
    return dict(on_next=lambda i: ev.append(i), on_error=lambda e: ev.append(tag+'E:'+repr(e)), on_completed=lambda: ev.append(tag+'C'))

def src_err(n=2):
    return rx.concat(rx.from_(list(range(1, n+1))), rx.throw(ValueError('boom')))

def case(label, build, source=None, join='zip'):
    ev = []
    try:
        s = source() if source else src_err()
        s.pipe(rs.ops.multiplex(build(join))).subscribe(**rec(ev))
    except Exception as e:
        ev.append('RAISED ' + repr(e))
    print('%-45s %s' % (label, ev))

swallow_empty = lambda: ops.catch(lambda e, s: rx.empty())
swallow_never = lambda: ops.catch(lambda e, s: rx.never())
class Wrapped(Exception): pass
wrap = lambda: ops.catch(lambda e, s: rx.throw(Wrapped(repr(e))))
fallback = lambda: ops.catch(lambda e, s: rx.from_([rs.OnNextMux((0,), 'fallback'), rs.OnCompletedMux((0,))]))

for join in ['zip', 'merge', 'combine_latest']:
    print('--', join)
    case('plain branches', lambda j: rs.ops.tee_map(rs.ops.map(lambda i: i), rs.ops.map(lambda i: i*10), join=j), join=join)
    case('all swallow->empty', lambda j: rs.ops.tee_map(rx.pipe(rs.ops.map(lambda i: i), swallow_empty()), rx.pipe(rs.ops.map(lambda i: i*10), swallow_empty()), join=j), join=join)
    case('all fallback', lambda j: rs.ops.tee_map(rx.pipe(rs.ops.map(lambda i: i), fallback()), rx.pipe(rs.ops.map(lambda i: i*10), fallback()), join=j), join=join)
    case('b0 swallow->empty', lambda j: rs.ops.tee_map(rx.pipe(rs.ops.map(lambda i: i), swallow_empty()), rs.ops.map(lambda i: i*10), join=j), join=join)
    case('b1 swallow->empty', lambda j: rs.ops.tee_map(rs.ops.map(lambda i: i), rx.pipe(rs.ops.map(lambda i: i*10), swallow_empty()), join=j), join=join)
    case('b0 swallow->never', lambda j: rs.ops.tee_map(rx.pipe(rs.ops.map(lambda i: i), swallow_never()), rs.ops.map(lambda i: i*10), join=j), join=join)
    case('all swallow->never', lambda j: rs.ops.tee_map(rx.pipe(rs.ops.map(lambda i: i), swallow_never()), rx.pipe(rs.ops.map(lambda i: i*10), swallow_never()), join=j), join=join)
    case('all wrap', lambda j: rs.ops.tee_map(rx.pipe(rs.ops.map(lambda i: i), wrap()), rx.pipe(rs.ops.map(lambda i: i*10), wrap()), join=j), join=join)
    case('b0 wrap', lambda j: rs.ops.tee_map(rx.pipe(rs.ops.map(lambda i: i), wrap()), rs.ops.map(lambda i: i*10), join=j), join=join)
    case('b1 wrap', lambda j: rs.ops.tee_map(rs.ops.map(lambda i: i), rx.pipe(rs.ops.map(lambda i: i*10), wrap()), join=j), join=join)
    case('retry(2) b0', lambda j: rs.ops.tee_map(rx.pipe(rs.ops.map(lambda i: i), ops.retry(2)), rs.ops.map(lambda i: i*10), join=j), join=join)
    case('on_error_resume_next all', lambda j: rs.ops.tee_map(rx.pipe(rs.ops.map(lambda i: i), ops.on_error_resume_next(rx.empty())), rx.pipe(rs.ops.map(lambda i: i*10), ops.on_error_resume_next(rx.empty())), join=j), join=join)
