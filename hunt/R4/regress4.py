'''csv.dump_to_file(encoding=...): one more write than lines, an empty chunk
b'' at completion. A sink that fails on that last write is not reported with
on_error: the exception escapes from subscribe() and the file stays open,
whereas a failing write of a line is routed to on_error and the file closed.

exit 1 when the problem shows, 0 otherwise.
'''
import sys
from collections import namedtuple
import rx
import rxsci.container.csv as csv
import rxsci as rs

print('rxsci from', rs.__file__)
Row = namedtuple('Row', ['a', 'b'])
rows = [Row(1, 'x'), Row(2, 'y')]


class Sink:
    ''' a quota of 3 writes (header + 2 rows) '''
    def __init__(self, name, mode, encoding=None):
        self.writes = []
        self.closed = 0
        sinks.append(self)

    def write(self, data):
        if len(self.writes) == 3:
            raise OSError('quota exceeded')
        self.writes.append(data)

    def close(self):
        self.closed += 1


failed = False
for encoding in ['utf-8', 'utf-16']:
    sinks = []
    got = []
    try:
        rx.from_(rows).pipe(
            csv.dump_to_file('out.csv', encoding=encoding, open_obj=Sink),
        ).subscribe(
            on_error=lambda e: got.append('error ' + repr(e)),
            on_completed=lambda: got.append('completed'),
        )
    except Exception as e:  # pylint: disable=broad-except
        got.append('subscribe() raised ' + repr(e))
    print('encoding=%s' % encoding)
    print('  input   : 2 rows with a header, a sink that accepts 3 writes')
    print("  expected: 3 writes, ['completed'], closed once")
    print('  got     : %d writes, %s, closed %d time(s)' % (len(sinks[0].writes), got, sinks[0].closed))
    if got != ['completed'] or sinks[0].closed != 1 or len(sinks[0].writes) != 3:
        failed = True
print('PROBLEM' if failed else 'ok')
sys.exit(1 if failed else 0)
