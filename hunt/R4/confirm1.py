'''what 67a3a08 fixes: csv.dump_to_file(encoding=...) on a hot source with a
scheduler given at subscription lost every row on the previous commit.
exit 1 when the rows are lost, 0 otherwise.
'''
import sys
from collections import namedtuple
import rx
from rx.subject import Subject
from rx.scheduler import HistoricalScheduler
import rxsci.container.csv as csv
import rxsci as rs

print('rxsci from', rs.__file__)
Row = namedtuple('Row', ['a', 'b'])
writes = []
closed = []
got = []


class Sink:
    def __init__(self, name, mode, encoding=None):
        pass

    def write(self, data):
        writes.append(data)

    def close(self):
        closed.append(True)


scheduler = HistoricalScheduler()
source = Subject()
source.pipe(
    csv.dump_to_file('out.csv', encoding='utf-16', open_obj=Sink),
).subscribe(
    on_error=lambda e: got.append('error ' + repr(e)),
    on_completed=lambda: got.append('completed'),
    scheduler=scheduler,
)
source.on_next(Row(1, 'x'))
source.on_next(Row(2, 'y'))
source.on_completed()
scheduler.start()
content = b''.join(writes).decode('utf-16')
expected = 'a,b\n1,"x"\n2,"y"\n'
print('input   : Subject emits 2 rows and completes, HistoricalScheduler started afterwards')
print('expected:', repr(expected), "['completed'] closed once, no observer left")
print('got     :', repr(content), got, 'closed %d' % len(closed), 'observers left %d' % len(source.observers))
failed = content != expected or got != ['completed'] or len(closed) != 1 or len(source.observers) != 0
print('PROBLEM' if failed else 'ok')
sys.exit(1 if failed else 0)
