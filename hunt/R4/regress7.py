'''csv.dump_to_file: open_obj fails and the source is empty. file.write signals
on_error but goes on with the file name in place of the file object:
the completion then raises AttributeError out of subscribe().
Same on the original code (rxsci/io/file.py, not touched by the chain).

exit 1 when the problem shows, 0 otherwise.
'''
import sys
import rx
import rxsci.container.csv as csv
import rxsci as rs

print('rxsci from', rs.__file__)


def failing_open(name, mode, encoding=None):
    raise OSError('cannot open ' + name)


failed = False
for encoding in [None, 'utf-8']:
    got = []
    try:
        rx.empty().pipe(
            csv.dump_to_file('out.csv', encoding=encoding, open_obj=failing_open),
        ).subscribe(
            on_error=lambda e: got.append('error ' + repr(e)),
            on_completed=lambda: got.append('completed'),
        )
    except Exception as e:  # pylint: disable=broad-except
        got.append('subscribe() raised ' + repr(e))
    print('encoding=%s' % encoding)
    print('  input   : empty source, open_obj raises OSError')
    print("  expected: [\"error OSError('cannot open out.csv')\"]")
    print('  got     :', got)
    if got != ["error OSError('cannot open out.csv')"]:
        failed = True
print('PROBLEM' if failed else 'ok')
sys.exit(1 if failed else 0)
