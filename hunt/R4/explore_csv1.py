import sys, os, tempfile, threading, time, codecs
from collections import namedtuple
import rx, rx.operators as ops
from rx.subject import Subject
from rx.scheduler import HistoricalScheduler, NewThreadScheduler, ThreadPoolScheduler, CurrentThreadScheduler, ImmediateScheduler, EventLoopScheduler
import rxsci as rs
import rxsci.container.csv as csv
print("rxsci from", rs.__file__)
R = namedtuple('R', ['a', 'b'])
rows = [R(1, 'x'), R(2, 'é'), R(3, 'z')]

class F:
    opened = []
    def __init__(self, name, mode, encoding=None):
        self.name=name; self.mode=mode; self.writes=[]; self.closed=0
        F.opened.append(self)
    def write(self, d):
        if self.closed: raise ValueError("write on closed")
        self.writes.append(d)
    def close(self): self.closed += 1

def run(label, src, encoding, scheduler=None, drive=None, wait=None):
    F.opened.clear()
    ev = []
    done = threading.Event()
    d = src.pipe(csv.dump_to_file('f.csv', encoding=encoding, open_obj=F)).subscribe(
        on_next=lambda i: ev.append(('n', i)),
        on_error=lambda e: (ev.append(('e', type(e).__name__)), done.set()),
        on_completed=lambda: (ev.append(('c',)), done.set()),
        scheduler=scheduler)
    if drive: drive()
    if wait: done.wait(5)
    f = F.opened[0] if F.opened else None
    print(label, 'events', ev, 'writes', f and f.writes, 'closed', f and f.closed)
    return d

for enc in [None, 'utf-8', 'utf-16', 'utf-8-sig', 'utf-7', 'iso2022_jp', 'utf-32']:
    try:
        run('cold %s' % enc, rx.from_(rows if enc!='iso2022_jp' else [R(1,'x'), R(2,'あ'), R(3,'z')]), enc)
    except Exception as e:
        print('cold', enc, 'RAISED', repr(e))
# empty
for enc in [None, 'utf-8', 'utf-16']:
    run('empty %s' % enc, rx.empty(), enc)
# hot
for enc in [None, 'utf-16']:
    s = Subject()
    def drive():
        for r in rows: s.on_next(r)
        s.on_completed()
    run('hot %s' % enc, s, enc, drive=drive)
    print('  observers left', len(s.observers))
# schedulers
for enc in [None, 'utf-16']:
    hs = HistoricalScheduler()
    run('hist %s' % enc, rx.from_(rows), enc, scheduler=hs, drive=hs.start)
    run('newthread %s' % enc, rx.from_(rows), enc, scheduler=NewThreadScheduler(), wait=True)
    tp = ThreadPoolScheduler(2)
    run('pool %s' % enc, rx.from_(rows), enc, scheduler=tp, wait=True)
    run('subscribe_on %s' % enc, rx.from_(rows).pipe(ops.subscribe_on(NewThreadScheduler())), enc, wait=True)
    run('imm %s' % enc, rx.from_(rows), enc, scheduler=ImmediateScheduler())
# unknown encoding
for src, l in [(rx.from_(rows), 'rows'), (rx.empty(), 'empty')]:
    try:
        run('unknown enc %s' % l, src, 'nope')
    except Exception as e:
        print('unknown enc', l, 'RAISED', repr(e))
# encode error midstream
try:
    run('ascii', rx.from_(rows), 'ascii')
except Exception as e:
    print('ascii RAISED', repr(e))
s = Subject()
def drive():
    for r in rows:
        s.on_next(r)
    print('  observers after err', len(s.observers))
    s.on_completed()
try:
    run('ascii hot', s, 'ascii', drive=drive)
except Exception as e:
    print('ascii hot RAISED', repr(e))
# source error
run('src err utf-16', rx.concat(rx.from_(rows[:1]), rx.throw(ValueError('boom'))), 'utf-16')
run('src err None', rx.concat(rx.from_(rows[:1]), rx.throw(ValueError('boom'))), None)
# resubscribe
F.opened.clear()
p = rx.from_(rows).pipe(csv.dump_to_file('f.csv', encoding='utf-16', open_obj=F))
p.subscribe(); p.subscribe()
print('resub', [ (f.writes, f.closed) for f in F.opened])
# dispose before completion on hot
for enc in [None, 'utf-16']:
    s = Subject()
    d = run('dispose hot %s' % enc, s, enc, drive=lambda: s.on_next(rows[0]))
    d.dispose()
    print('  observers left', len(s.observers), 'closed', F.opened[0].closed)
