'''rs.data.encode (public, rxsci/data/codec.py) is the operator 3c9d202 used and
that eaa560a / 67a3a08 replaced in csv.py by a private corrected copy: the
public operator keeps both defects (encoding exception escapes into the
producer instead of on_error; scheduler of the subscription dropped).

exit 1 when the problem shows, 0 otherwise.
'''
import sys
import rx
from rx.subject import Subject
from rx.scheduler import HistoricalScheduler
import rxsci as rs

print('rxsci from', rs.__file__)
failed = False

got = []
source = Subject()
source.pipe(rs.data.encode('ascii')).subscribe(
    on_next=got.append,
    on_error=lambda e: got.append('error ' + type(e).__name__),
)
try:
    source.on_next('a')
    source.on_next('\xe9')
except Exception as e:  # pylint: disable=broad-except
    got.append('on_next() raised ' + type(e).__name__)
print("input   : Subject emits 'a', '\\xe9' through rs.data.encode('ascii')")
print("expected: [b'a', 'error UnicodeEncodeError']")
print('got     :', got)
if got != [b'a', 'error UnicodeEncodeError']:
    failed = True

seen = []
scheduler = HistoricalScheduler()


def probe(observer, sched):
    seen.append(sched)
    observer.on_completed()


rx.create(probe).pipe(rs.data.encode('utf-8')).subscribe(scheduler=scheduler)
print('input   : subscribe(scheduler=HistoricalScheduler) through rs.data.encode')
print('expected: the source is subscribed with that scheduler')
print('got     :', seen)
if seen != [scheduler]:
    failed = True
print('PROBLEM' if failed else 'ok')
sys.exit(1 if failed else 0)
