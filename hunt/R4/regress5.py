'''csv.dump_to_file(encoding=...) with a codec that has no incremental encoder
(CodecInfo.incrementalencoder is optional): str.encode() works with it, the
stream encoder fails with LookupError.

exit 1 when the problem shows, 0 otherwise.
'''
import sys
import codecs
from collections import namedtuple
import rx
import rxsci.container.csv as csv
import rxsci as rs

print('rxsci from', rs.__file__)


def search(name):
    if name == 'upper_ascii':
        return codecs.CodecInfo(
            name='upper_ascii',
            encode=lambda s, errors='strict': (s.upper().encode('ascii', errors), len(s)),
            decode=lambda b, errors='strict': (bytes(b).decode('ascii', errors), len(b)),
        )
    return None


codecs.register(search)
assert 'x'.encode('upper_ascii') == b'X'

Row = namedtuple('Row', ['a', 'b'])
writes = []
got = []


class Sink:
    def __init__(self, name, mode, encoding=None):
        pass

    def write(self, data):
        writes.append(data)

    def close(self):
        pass


rx.from_([Row(1, 'x')]).pipe(
    csv.dump_to_file('out.csv', encoding='upper_ascii', open_obj=Sink),
).subscribe(
    on_error=lambda e: got.append('error ' + repr(e)),
    on_completed=lambda: got.append('completed'),
)
expected = b'A,B\n1,"X"\n'
print("input   : 1 row, encoding='upper_ascii' (registered codec without incremental encoder)")
print("expected: ['completed'], content", expected)
print('got     :', got, ', content', b''.join(writes))
failed = got != ['completed'] or b''.join(writes) != expected
print('PROBLEM' if failed else 'ok')
sys.exit(1 if failed else 0)
