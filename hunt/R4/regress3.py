'''tee_map on a multiplexed source: a branch that transforms the error of the
source (catch -> throw a wrapping error) is ignored, downstream receives the
raw source error.

exit 1 when the problem shows, 0 otherwise.
'''
import sys
import rx
import rx.operators as ops
from rx.subject import Subject
import rxsci as rs

print('rxsci from', rs.__file__)
failed = False


class PipelineError(Exception):
    pass


def wrap():
    return ops.catch(lambda e, _: rx.throw(PipelineError('stage failed: %r' % e)))


for hot in [False, True]:
    for join in ['zip', 'merge', 'combine_latest']:
        got = []
        source = Subject() if hot else rx.concat(rx.from_([1, 2]), rx.throw(ValueError('boom')))
        source.pipe(
            rs.ops.multiplex(rs.ops.tee_map(
                rx.pipe(rs.ops.map(lambda i: i), wrap()),
                rx.pipe(rs.ops.map(lambda i: i * 10), wrap()),
                join=join,
            )),
        ).subscribe(
            on_next=lambda i: None,
            on_error=lambda e: got.append(type(e).__name__),
            on_completed=lambda: got.append('completed'),
        )
        if hot:
            source.on_next(1)
            source.on_next(2)
            source.on_error(ValueError('boom'))
        print('%s source, join=%s' % ('hot' if hot else 'cold', join))
        print('  input   : 1, 2, on_error(ValueError); every branch ends with catch(-> throw PipelineError)')
        print("  expected: ['PipelineError']")
        print('  got     :', got)
        if got != ['PipelineError']:
            failed = True
print('PROBLEM' if failed else 'ok')
sys.exit(1 if failed else 0)
