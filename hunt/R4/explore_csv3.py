import os, tempfile
from collections import namedtuple
import rx, rx.operators as ops
from rx.subject import Subject
import rxsci as rs
import rxsci.container.csv as csv
print("rxsci from", rs.__file__)
class F:
    opened = []
    def __init__(self, name, mode, encoding=None):
        self.writes=[]; self.closed=0; F.opened.append(self)
    def write(self, d): self.writes.append(d)
    def close(self): self.closed += 1
R1 = namedtuple('R1', ['a'])
# final flush error: idna label longer than 63 chars only known at the end
for hot in [False, True]:
    F.opened.clear(); ev=[]
    s = Subject() if hot else rx.from_([R1(i) for i in range(40)])
    try:
        s.pipe(csv.dump_to_file('f', encoding='idna', open_obj=F)).subscribe(on_next=ev.append, on_error=lambda e: ev.append('E:'+type(e).__name__), on_completed=lambda: ev.append('C'))
        if hot:
            for i in range(40): s.on_next(R1(i))
            s.on_completed()
    except Exception as e:
        ev.append('RAISED '+repr(e))
    print('idna final flush error hot=%s' % hot, ev, [(len(f.writes), f.closed) for f in F.opened])
# BOM-only file round trip
d = tempfile.mkdtemp()
for enc in ['utf-16', 'utf-8-sig', 'utf-32']:
    p = os.path.join(d, 'e.csv')
    rx.empty().pipe(csv.dump_to_file(p, encoding=enc)).subscribe()
    got = []
    csv.load_from_file(p, encoding=enc).subscribe(on_next=got.append, on_error=lambda e: got.append('E:'+repr(e)), on_completed=lambda: got.append('C'))
    print('empty', enc, open(p,'rb').read(), got)
    R = namedtuple('R', ['a','b'])
    rx.from_([R(1,'é'), R(2,'あ')]).pipe(csv.dump_to_file(p, encoding=enc)).subscribe()
    got = []
    csv.load_from_file(p, encoding=enc, parse_line=csv.create_line_parser(dtype=[('a', int), ('b', str)])).subscribe(on_next=got.append, on_error=lambda e: got.append('E:'+repr(e)), on_completed=lambda: got.append('C'))
    print('roundtrip', enc, got)
