"""C07 - time_split (include_closing_item=True, the default) eagerly opens a new
window right after a closing item.  If the next item of the key expires that
window by timeout, or if the key completes, that window is emitted EMPTY.
"""
import sys
import rx
import rxsci as rs


def run(source, **kw):
    windows = []
    rx.from_(source).pipe(
        rs.state.with_memory_store(
            rs.data.time_split(
                time_mapper=lambda i: i[0],
                closing_mapper=lambda i: i[1],
                pipeline=rs.data.to_list(),
                **kw
            ),
        ),
    ).subscribe(on_next=windows.append)
    return windows


bad = False

# case A: the closing item is the last item of the key
source = [(1, False), (2, True)]
got = run(source)
exp = [[(1, False), (2, True)]]
print("A) items (ts, closing):", source, " no timeouts, include_closing_item=True (default)")
print("   required windows:", exp)
print("   library produced:", got)
bad |= got != exp

# case B: the item that follows the closing item is beyond the inactive timeout
source = [(1, False), (2, True), (10, False), (11, False)]
got = run(source, inactive_timeout=3)
exp = [[(1, False), (2, True)], [(10, False), (11, False)]]
print("B) items (ts, closing):", source, " inactive_timeout=3")
print("   required windows:", exp)
print("   library produced:", got)
bad |= got != exp

# case C: same with the active timeout, visible through count(): a window of 0 items
counts = []
rx.from_(source).pipe(
    rs.state.with_memory_store(
        rs.data.time_split(
            time_mapper=lambda i: i[0], active_timeout=5,
            closing_mapper=lambda i: i[1],
            pipeline=rs.ops.count(reduce=True)),
    ),
).subscribe(on_next=counts.append)
print("C) same items, active_timeout=5, pipeline=count(reduce=True)")
print("   required counts : [2, 2]")
print("   library produced:", counts)
bad |= counts != [2, 2]

if bad:
    print("\nVIOLATION of C07: windows that received no item are emitted; the item at ts=10 "
          "must open exactly one new window, the closing item must only close its own.")
    sys.exit(1)
print("ok")
