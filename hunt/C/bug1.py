"""C07 - time_split emits a spurious EMPTY window in front of a key whose first
item is accepted by closing_mapper (include_closing_item=False).

The first item of a key opens the window (OnCreateMux).  The code then falls
through to the closing_mapper test, which closes the just-opened window before
the item is delivered, and opens a second one for it.
"""
import sys
import rx
import rxsci as rs

# (timestamp, is_closing)
source = [(1, True), (2, False), (3, True), (4, False)]

print("input items (timestamp, closing flag):", source)
print("time_split(time_mapper=ts, closing_mapper=flag, include_closing_item=False, no timeouts)")

windows = []
rx.from_(source).pipe(
    rs.state.with_memory_store(
        rs.data.time_split(
            time_mapper=lambda i: i[0],
            closing_mapper=lambda i: i[1],
            include_closing_item=False,
            pipeline=rs.data.to_list(),
        ),
    ),
).subscribe(on_next=windows.append)

expected = [[(1, True), (2, False)], [(3, True), (4, False)]]
print("required windows :", expected)
print("library produced :", windows)

# same thing under group_by with interleaved keys: every key gets a leading empty window
source2 = [('a', 1, True), ('b', 1, True), ('a', 2, False), ('b', 2, False)]
windows2 = []
rx.from_(source2).pipe(
    rs.state.with_memory_store(
        rs.ops.group_by(lambda i: i[0], rs.data.time_split(
            time_mapper=lambda i: i[1],
            closing_mapper=lambda i: i[2],
            include_closing_item=False,
            pipeline=rs.data.to_list(),
        )),
    ),
).subscribe(on_next=windows2.append)
expected2 = [[('a', 1, True), ('a', 2, False)], [('b', 1, True), ('b', 2, False)]]
print()
print("under group_by, input:", source2)
print("required windows :", expected2)
print("library produced :", windows2)

ok = windows == expected and windows2 == expected2
if not ok:
    print("\nVIOLATION of C07: a window containing no item was emitted "
          "(every item must belong to exactly one window and a window is only opened by an item).")
    sys.exit(1)
print("ok")
