"""C06 - split compares the predicate value of an item with the value of the FIRST
item of the current run, not with the value of the PREVIOUS item.  The two differ
as soon as == is not transitive on the predicate values (stdlib example:
OrderedDict == dict == OrderedDict with another order; unittest.mock.ANY).
"""
import sys
from collections import OrderedDict
from unittest import mock
import rx
import rxsci as rs


def run(source, predicate):
    segments = []
    rx.from_(source).pipe(
        rs.state.with_memory_store(
            rs.data.split(predicate, rs.data.to_list()),
        ),
    ).subscribe(on_next=segments.append)
    return segments


def reference(source, predicate):
    segs = []
    for n, i in enumerate(source):
        if n == 0 or predicate(i) != predicate(source[n - 1]):
            segs.append([])
        segs[-1].append(i)
    return segs


bad = False

a = OrderedDict([('x', 1), ('y', 2)])
b = {'x': 1, 'y': 2}
c = OrderedDict([('y', 2), ('x', 1)])
source = [('i0', a), ('i1', b), ('i2', c)]
print("items:", source)
print("predicate = lambda i: i[1];  a != b:", a != b, "  b != c:", b != c, "  (a != c:", a != c, ")")
exp = [[n for n, _ in s] for s in reference(source, lambda i: i[1])]
got = [[n for n, _ in s] for s in run(source, lambda i: i[1])]
print("required segments (new segment iff value != value of previous item):", exp)
print("library produced                                                  :", got)
bad |= exp != got

source = [1, mock.ANY, 2, 2]
exp = reference(source, lambda i: i)
got = run(source, lambda i: i)
print("\nitems:", source, " predicate = identity  (1 != ANY: False, ANY != 2: False)")
print("required segments:", exp)
print("library produced :", got)
bad |= exp != got

if bad:
    print("\nVIOLATION of C06: a segment was cut between two consecutive items whose predicate values are not != .")
    sys.exit(1)
print("ok")
