"""C07 - time_split ignores a closing_mapper whose result is true but is not the
`True` singleton (numpy.bool_, 1, ...): the test is `closing_mapper(item) is True`.
"""
import sys
import rx
import rxsci as rs

try:
    import numpy as np
    values = [np.float64(v) for v in (1.0, 2.0, 50.0, 3.0, 4.0)]
    kind = "numpy.float64 values, closing_mapper = lambda i: i[1] > 10  -> numpy.bool_"
except ImportError:
    np = None
    values = [1.0, 2.0, 50.0, 3.0, 4.0]
    kind = "closing_mapper = lambda i: int(i[1] > 10) -> 1 / 0"

source = list(zip(range(1, 6), values))
closing = (lambda i: i[1] > 10) if np is not None else (lambda i: int(i[1] > 10))


def run(closing_mapper):
    windows = []
    rx.from_(source).pipe(
        rs.state.with_memory_store(
            rs.data.time_split(
                time_mapper=lambda i: i[0],
                closing_mapper=closing_mapper,
                pipeline=rs.data.to_list(),
            ),
        ),
    ).subscribe(on_next=windows.append)
    return [[int(i[0]) for i in w] for w in windows]


print("items (ts, value):", [(t, float(v)) for t, v in source])
print(kind)
print("closing_mapper results:", [closing(i) for i in source], [type(closing(i)).__name__ for i in source][:1])

got = run(closing)
got_int = run(lambda i: 1 if i[1] > 10 else 0)
ref = run(lambda i: bool(i[1] > 10))     # same mapper forced to a python bool
expected = [[1, 2, 3], [4, 5]]
print("required windows (timestamps)          :", expected)
print("library, mapper wrapped in bool()      :", [w for w in ref if w])
print("library, mapper as written (numpy.bool_):", got)
print("library, mapper returning 1/0          :", got_int)

if got != expected or got_int != expected:
    print("\nVIOLATION of C07: the item accepted by closing_mapper (ts=3) did not close the window.")
    sys.exit(1)
print("ok")
