"""C04 (borderline) - group_by decides group membership with a dict lookup, i.e. by
`is` OR `==`, not by `==` alone.  Two inputs whose key values behave identically
under == are partitioned differently depending on object identity (NaN keys).
"""
import sys
import rx
import rxsci as rs


def run(source):
    groups = []
    rx.from_(source).pipe(
        rs.state.with_memory_store(
            rs.ops.group_by(lambda i: i[0], rs.data.to_list()),
        ),
    ).subscribe(on_next=groups.append)
    return [[i[1] for i in g] for g in groups]


nan = float('nan')
shared = [(nan, 'a'), (1.0, 'b'), (nan, 'c')]                       # same NaN object twice
fresh = [(float('nan'), 'a'), (1.0, 'b'), (float('nan'), 'c')]     # two NaN objects

print("key of 'a' == key of 'c' ?  shared:", shared[0][0] == shared[2][0], " fresh:", fresh[0][0] == fresh[2][0])
g1 = run(shared)
g2 = run(fresh)
expected = [['a'], ['b'], ['c']]   # 'a' and 'c' have keys that are not equal by ==
print("required groups (membership by ==)      :", expected)
print("library, keys are the same NaN object   :", g1)
print("library, keys are distinct NaN objects  :", g2)

if g1 != expected or g2 != expected or g1 != g2:
    print("\nVIOLATION of C04: items whose key values are NOT equal by == were put in the same group; "
          "the partition depends on object identity.")
    sys.exit(1)
print("ok")
