"""C10 / C01 - take(n) on a multiplexed source keeps its per-key countdown in a signed
64-bit array: an n that does not fit (n >= 2**63, e.g. 10**20 or float('inf') used
as "no limit") makes the key creation fail, while the plain operator emits the
whole sequence ("n larger than the sequence").

Only the public API is used.  Exits 1 when the property is violated.
"""
import sys
import rx
import rxsci as rs


def plain(items, op):
    out, err = [], []
    rx.from_(items).pipe(op).subscribe(on_next=out.append, on_error=err.append)
    return out, err


def keyed(items, op):
    out, err = [], []
    try:
        rx.from_(items).pipe(
            rs.state.with_memory_store(rx.pipe(
                rs.ops.group_by(lambda i: i % 2, rx.pipe(op)),
            )),
        ).subscribe(on_next=out.append, on_error=err.append)
    except Exception as e:  # raised synchronously out of subscribe
        err.append(e)
    return out, err


items = [1, 2, 3, 4, 5]
failed = False
for n in (3, 2 ** 63 - 1, 2 ** 63, 10 ** 20, float('inf')):
    expected = {0: [i for i in items if i % 2 == 0][:n if n != float('inf') else None],
                1: [i for i in items if i % 2 == 1][:n if n != float('inf') else None]}
    p = {k: plain([i for i in items if i % 2 == k], rs.ops.take(n)) for k in (0, 1)}
    k_out, k_err = keyed(items, rs.ops.take(n))
    got = {0: [i for i in k_out if i % 2 == 0], 1: [i for i in k_out if i % 2 == 1]}
    ok = (not k_err) and got == expected
    print("take({!r}) on {}".format(n, items))
    print("   required per key (first n items):", expected)
    print("   plain, per key                  :", {k: v[0] for k, v in p.items()}, [v[1] for v in p.values() if v[1]])
    print("   keyed (group_by)                :", got, k_err)
    print("   ok:", ok)
    if not ok:
        failed = True

if failed:
    print("\nC10 VIOLATED: take(n) with n larger than the sequence does not emit the sequence on a keyed source")
    sys.exit(1)
print("\nno violation")
