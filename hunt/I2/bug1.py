"""C09 - scan / sum on a multiplexed source: a float (or bool) seed selects a typed
array for the per-key state, so the fold is wrong / fails for accumulators whose
values are not exactly representable as a C double (or as a 0/1 byte).

Only the public API is used.  Exits 1 when the property is violated.
"""
import sys
import rx
import rxsci as rs


def plain(items, op):
    out, err = [], []
    rx.from_(items).pipe(op).subscribe(on_next=out.append, on_error=err.append)
    return out, err


def keyed(items, op):
    """same operator, per key, through group_by on a multiplexed observable"""
    out, err = [], []
    rx.from_(items).pipe(
        rs.state.with_memory_store(rx.pipe(
            rs.ops.group_by(lambda i: i[0], rx.pipe(
                rs.ops.map(lambda i: i[1]),
                op,
            )),
        )),
    ).subscribe(on_next=out.append, on_error=err.append)
    return out, err


failed = False


def case(title, values, mk_op, model):
    """values: the items of ONE key ('a'); a second key 'b' is interleaved."""
    global failed
    items = []
    for v in values:
        items.append(('a', v))
        items.append(('b', v))
    expected_one_key = model(values)
    p_out, p_err = plain(values, mk_op())
    k_out, k_err = keyed(items, mk_op())
    print("---", title)
    print("  input (per key)            :", values)
    print("  required by C09 (left fold):", expected_one_key)
    print("  plain observable           :", p_out, p_err)
    print("  keyed (group_by, 2 keys)   :", k_out, k_err)
    # both keys receive the same items: each expected item must appear twice
    expected_keyed = sorted(repr(x) for x in expected_one_key * 2)
    ok = (not k_err) and sorted(repr(x) for x in k_out) == expected_keyed
    ok_plain = (not p_err) and [repr(x) for x in p_out] == [repr(x) for x in expected_one_key]
    print("  plain ok:", ok_plain, "  keyed ok:", ok)
    if not ok:
        failed = True


def fold(acc, seed, reduce):
    def _m(values):
        a = seed
        out = []
        for v in values:
            a = acc(a, v)
            if not reduce:
                out.append(a)
        if reduce:
            out.append(a)
        return out
    return _m


# 1. rs.math.sum is defined through scan with the seed 0.0.  Summing complex
#    numbers works on a plain observable, fails per key (same for numpy vectors,
#    which is the usual "sum of feature vectors per group" use).
case("rs.math.sum(reduce=True) over complex items",
     [1 + 2j, 3 + 0j, 0.5j],
     lambda: rs.math.sum(reduce=True),
     fold(lambda a, i: a + i, 0.0, True))

case("rs.math.sum() running sum over complex items",
     [1 + 2j, 3 + 0j],
     lambda: rs.math.sum(),
     fold(lambda a, i: a + i, 0.0, False))

# 2. scan with a float seed and an accumulator that returns the (int) item:
#    the final fold is silently rounded to a double.
big = 2 ** 53 + 1
case("scan(keep greatest, seed=0.0, reduce=True) over big ints",
     [5, big],
     lambda: rs.ops.scan(lambda acc, i: i if i > acc else acc, seed=0.0, reduce=True),
     fold(lambda acc, i: i if i > acc else acc, 0.0, True))

# 3. scan with a bool seed: the state is an unsigned byte, read back as bool.
case("scan(acc or i, seed=False, reduce=True)",
     [0, 5, 0],
     lambda: rs.ops.scan(lambda acc, i: acc or i, seed=False, reduce=True),
     fold(lambda acc, i: acc or i, False, True))

case("scan(acc or i, seed=False) with an item > 255",
     [0, 300],
     lambda: rs.ops.scan(lambda acc, i: acc or i, seed=False),
     fold(lambda acc, i: acc or i, False, False))

if failed:
    print("\nC09 VIOLATED: the keyed fold differs from the left fold of the accumulator")
    sys.exit(1)
print("\nno violation")
sys.exit(0)
