"""C10 (low severity): start_with(padding) must prepend the stated padding to
every non-empty key.  The padding iterable is iterated again for each key, so
when it is a one-shot iterable (generator, iterator, map/zip object) only the
first key that receives an item is padded; the other keys get nothing."""
import sys
import rx
import rxsci as rs

items = [('a', 1), ('b', 2), ('a', 3), ('b', 4)]
padding = [('pad', 0), ('pad', 10)]
print("input (key, value):", items, " padding:", padding)

groups = {}
for i in items:
    groups.setdefault(i[0], []).append(i)
expected = {k: padding + g for k, g in groups.items()}
print("required per key:", expected)

actual, errors = {}, []
rx.from_(items).pipe(rs.state.with_memory_store(rx.pipe(
    rs.ops.group_by(lambda i: i[0], rx.pipe(
        rs.ops.start_with(p for p in padding),       # a generator
        rs.data.to_list(),
    )),
))).subscribe(on_next=lambda l: actual.__setitem__(l[-1][0], l), on_error=errors.append)
print("library per key: ", actual, errors)

if errors or actual != expected:
    print("VIOLATION: start_with pads only the first key when padding is a one-shot iterable")
    sys.exit(1)
print("ok")
