"""C09 (and C01): on a MuxObservable the result of the terminator is written
back into the typed per-key state array (typed after the SEED) before being
emitted.  A terminator that maps the final accumulator to another type - the
usual reason to have one - is either silently coerced (bool seed: 7 -> True)
or fails with TypeError (int seed -> float), while the plain scan emits the
terminator's result.  The accumulators below all return values of the seed's
type."""
import sys
import rx
import rxsci as rs


def run_plain(items, op):
    out, err = [], []
    rx.from_(items).pipe(op()).subscribe(on_next=out.append, on_error=err.append)
    return out, err


def run_mux(items, op):
    out, err = [], []
    rx.from_(items).pipe(rs.state.with_memory_store(rx.pipe(op()))).subscribe(
        on_next=out.append, on_error=err.append)
    return out, err


bad = False
items = [1, 2, 3, 4]
cases = [
    ("bool seed, terminator -> int",
     lambda: rs.ops.scan(lambda acc, i: acc or i > 2, False, reduce=True,
                         terminator=lambda acc: 7 if acc else 0)),
    ("int seed, terminator -> float (mean from a sum)",
     lambda: rs.ops.scan(lambda acc, i: acc + i, 0, reduce=True,
                         terminator=lambda acc: acc / 8)),
    ("float seed, terminator -> str",
     lambda: rs.ops.scan(lambda acc, i: acc + i, 0.0, reduce=True,
                         terminator=lambda acc: "total={}".format(acc))),
    ("int seed, reduce=False, terminator -> None marker",
     lambda: rs.ops.scan(lambda acc, i: acc + i, 0,
                         terminator=lambda acc: None)),
]
print("input:", items)
for name, op in cases:
    p = run_plain(items, op)
    m = run_mux(items, op)
    same = repr(p) == repr(m)
    print("{}\n   required (plain / left fold then terminator once): {}\n   library on MuxObservable:                         {}  {}".format(
        name, p, m, "" if same else "<-- differs"))
    bad = bad or not same

if bad:
    print("VIOLATION: terminator result is forced into the seed-typed state array")
    sys.exit(1)
print("ok")
