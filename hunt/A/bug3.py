"""C01: do_action is documented as dual mode ("on_completed: function to
execute on completion").  On a plain observable the callback is invoked with
no argument (RxPY do_action); on a MuxObservable it is invoked with one
argument (the key, then None).  No completion callback signature other than
a variadic one works in both modes, so the same pipeline yields the group's
items as a plain observable and an error when the group is multiplexed."""
import sys
import rx
import rxsci as rs

items = [('a', 1), ('b', 2), ('a', 3)]
print("input (key, value):", items)
log = []


def pipeline():
    return [
        rs.ops.map(lambda i: i[1]),
        rs.ops.do_action(on_completed=lambda: log.append('completed')),
        rs.data.to_list(),
    ]


groups = {}
for k, v in items:
    groups.setdefault(k, []).append((k, v))
expected = []
for k, g in groups.items():
    rx.from_(g).pipe(*pipeline()).subscribe(on_next=expected.append)
print("required (plain, per group):", expected)

actual, errors = [], []
rx.from_(items).pipe(
    rs.state.with_memory_store(rx.pipe(
        rs.ops.group_by(lambda i: i[0], rx.pipe(*pipeline())),
    )),
).subscribe(on_next=actual.append, on_error=errors.append)
print("library (keyed):            ", actual, "errors:", errors)

if errors or actual != expected:
    print("VIOLATION: do_action(on_completed=f) calls f() on Observables but f(key) on MuxObservables")
    sys.exit(1)
print("ok")
