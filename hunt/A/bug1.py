"""C01 / C09: scan on a MuxObservable stores an int-seeded accumulator in a
signed 64-bit array; a running fold whose value leaves [-2**63, 2**63) fails
with OverflowError although the accumulator returns values of the seed's type
(int).  The same pipeline on a plain observable works."""
import sys
import rx
import rxsci as rs

items = [('a', 2**62), ('b', 1), ('a', 2**62), ('b', 2), ('a', 2**62)]
print("input (key, value):", items)


def pipeline():
    return [
        rs.ops.map(lambda i: i[1]),
        rs.ops.scan(lambda acc, i: acc + i, 0),     # int seed, int results
    ]


# what the property requires: per group plain execution
groups = {}
for k, v in items:
    groups.setdefault(k, []).append((k, v))
expected = {}
for k, g in groups.items():
    out = []
    rx.from_(g).pipe(*pipeline()).subscribe(on_next=out.append)
    expected[k] = out
print("required (plain scan per group):", expected)

# keyed execution
actual = {}
errors = []
rx.from_(items).pipe(
    rs.state.with_memory_store(rx.pipe(
        rs.ops.group_by(lambda i: i[0], rx.pipe(
            rs.ops.tee_map(rs.ops.map(lambda i: i[0]), rx.pipe(*pipeline())),
        )),
    )),
).subscribe(
    on_next=lambda i: actual.setdefault(i[0], []).append(i[1]),
    on_error=errors.append,
)
print("library (keyed scan):           ", actual, "errors:", errors)

# same thing with reduce=True and a product (factorial of 21 > 2**63)
red_plain = []
rx.from_(range(1, 22)).pipe(rs.ops.scan(lambda a, i: a * i, 1, reduce=True)).subscribe(on_next=red_plain.append)
red_mux = []
red_err = []
rx.from_(range(1, 22)).pipe(rs.state.with_memory_store(rx.pipe(
    rs.ops.scan(lambda a, i: a * i, 1, reduce=True)))).subscribe(on_next=red_mux.append, on_error=red_err.append)
print("21! plain reduce:", red_plain, " mux reduce:", red_mux, red_err)

if errors or actual != expected or red_plain != red_mux:
    print("VIOLATION: keyed scan with an int seed differs from plain scan (OverflowError in the typed state array)")
    sys.exit(1)
print("ok")
