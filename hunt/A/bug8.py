"""C01 (no error involved): a plain take(n)/first() completes the sequence at
the cut, so a completion-triggered operator behind it (to_list, last, reduce)
fires right away and the upstream is disposed.  On a MuxObservable the key only
completes with its parent and the upstream scan keeps folding the items behind
the cut.  With an accumulator that mutates and returns its accumulator (list
append, distogram.update - explicitly in scope) the object that passed the cut
is still being mutated, so the item finally emitted for the group differs from
the plain execution.  (Not inside tee_map, so the stated precondition does not
exclude it.)"""
import sys
import rx
import rx.operators as ops
import rxsci as rs

items = [('a', 1), ('b', 10), ('a', 2), ('a', 3), ('b', 20)]
print("input (key, value):", items)


def append(acc, i):
    acc.append(i)
    return acc


pipelines = {
    "scan(list append), take(1), last()": lambda: [
        rs.ops.map(lambda i: i[1]),
        rs.ops.scan(append, seed=list),
        rs.ops.take(1),
        rs.ops.last(),
        rs.ops.map(lambda acc: list(acc)),
    ],
    "dist.update(), first(), last(), dist.mean()": lambda: [
        rs.ops.map(lambda i: i[1]),
        rs.math.dist.update(),
        rs.ops.first(),
        rs.ops.last(),
        rs.math.dist.mean(),
    ],
}

bad = False
for name, pipeline in pipelines.items():
    groups = {}
    for i in items:
        groups.setdefault(i[0], []).append(i)
    expected = {}
    for k, g in groups.items():
        rx.from_(g).pipe(*pipeline()).subscribe(on_next=lambda i, k=k: expected.setdefault(k, []).append(i))

    actual, errors, group_of = {}, [], {}

    def tag_in(e):       # raw mux events: remember which group a mux key belongs to
        if type(e) is rs.OnNextMux:
            group_of[e.key] = e.item[0]

    def tag_out(e):
        if type(e) is rs.OnNextMux:
            actual.setdefault(group_of[e.key], []).append(e.item)

    rx.from_(items).pipe(
        rs.state.with_memory_store(rx.pipe(
            rs.ops.group_by(lambda i: i[0], rx.pipe(
                ops.do_action(tag_in), rs.cast_as_mux_observable(),
                *pipeline(),
                ops.do_action(tag_out), rs.cast_as_mux_observable(),
            )),
        )),
    ).subscribe(on_next=lambda i: None, on_error=errors.append)
    ok = actual == expected and not errors
    print(name)
    print("   required (plain, per group):", expected)
    print("   library (keyed):            ", actual, errors, "" if ok else "<-- differs")
    bad = bad or not ok

if bad:
    print("VIOLATION: items behind a take/first cut still mutate the accumulator that already passed the cut")
    sys.exit(1)
print("ok")
