"""C09 / C01: the per-key state of a keyed pipeline lives in the StoreManager
that with_memory_store()/with_store() creates ONCE when the operator is built,
not per subscription.  Two subscriptions to the same pipeline observable that
are alive at the same time (hot source) therefore fold into the SAME
accumulator: every subscriber sees items counted/summed twice, and a
list-appending accumulator of one subscription is mutated by the other.  The
plain scan keeps its state per subscription."""
import sys
import rx
from rx.subject import Subject
import rxsci as rs

items = [('a', 1), ('b', 10), ('a', 2), ('b', 20)]
print("input (key, value), delivered once to two simultaneous subscribers:", items)


def fold():
    return rx.pipe(
        rs.ops.scan(lambda acc, i: (acc.append(i), acc)[1], seed=list),  # mutate & return
        rs.ops.map(lambda acc: (acc[0][0], [v for _, v in acc])),         # (key, snapshot of values)
    )


# plain reference: two subscribers on one hot source, per group
expected = {}
for k in ('a', 'b'):
    s = Subject()
    obs = s.pipe(fold())
    o1, o2 = [], []
    obs.subscribe(lambda i: o1.append(i[1]))
    obs.subscribe(lambda i: o2.append(i[1]))
    for i in items:
        if i[0] == k:
            s.on_next(i)
    s.on_completed()
    expected[k] = (o1, o2)
print("required, subscriber1/subscriber2 per group (plain scan):")
for k, v in expected.items():
    print("   ", k, v)

s = Subject()
obs = s.pipe(rs.state.with_memory_store(rx.pipe(
    rs.ops.group_by(lambda i: i[0], fold()),
)))
a1, a2, errors = {}, {}, []
obs.subscribe(on_next=lambda i: a1.setdefault(i[0], []).append(i[1]), on_error=errors.append)
obs.subscribe(on_next=lambda i: a2.setdefault(i[0], []).append(i[1]), on_error=errors.append)
for i in items:
    s.on_next(i)
s.on_completed()
actual = {k: (a1.get(k, []), a2.get(k, [])) for k in ('a', 'b')}
print("library, subscriber1/subscriber2 per group (keyed scan):")
for k, v in actual.items():
    print("   ", k, v)
print("errors:", errors)

if errors or actual != expected:
    print("VIOLATION: the fold of a key is not the left fold over that key's items: "
          "state (seed/accumulator) is shared between subscriptions")
    sys.exit(1)
print("ok")
