"""C10 (low severity): distinct must emit "the first occurrence of each value".
NaN is not equal to itself, so by the list definition (x is emitted unless an
== earlier item exists) every NaN is a new value - and that is what distinct
does when the NaNs are different objects.  When the very same NaN object is
repeated (e.g. a constant, numpy.nan, math.nan) the set lookup short-cuts on
identity and the later occurrences are dropped.  The output therefore depends
on object identity rather than on the item values; distinct_until_changed on
the same input keeps them all."""
import sys
import math
import rx
import rxsci as rs


def spec_distinct(xs):
    seen, out = [], []
    for x in xs:
        if not any(x == s for s in seen):
            seen.append(x)
            out.append(x)
    return out


def run(items, op):
    out, err = [], []
    rx.from_(items).pipe(rs.state.with_memory_store(rx.pipe(op))).subscribe(
        on_next=out.append, on_error=err.append)
    return out, err


bad = False
for name, items in [
    ("same NaN object (math.nan) ", [math.nan, 1.0, math.nan, 1.0, math.nan]),
    ("distinct NaN objects       ", [float('nan'), 1.0, float('nan'), 1.0, float('nan')]),
]:
    expected = spec_distinct(items)
    actual, err = run(items, rs.ops.distinct())
    duc, _ = run(items, rs.ops.distinct_until_changed())
    ok = repr(actual) == repr(expected) and not err
    print(name, "input", items)
    print("    required (first occurrence of each ==-value):", expected)
    print("    library distinct():                          ", actual, err, "" if ok else "<-- differs")
    print("    (distinct_until_changed on the same input:   ", duc, ")")
    bad = bad or not ok

if bad:
    print("VIOLATION: distinct drops repeated occurrences of one NaN object but keeps equal-valued NaN objects")
    sys.exit(1)
print("ok")
