"""C01: first()/take(n) on a plain observable complete and dispose the
upstream, so upstream operators never see the items behind the cut.  On a
MuxObservable first_mux/take_mux only stop forwarding OnNextMux: upstream
operators keep evaluating every later item of the key, and when a mapper /
predicate / accumulator raises on such an item the resulting OnErrorMux is
forwarded by take_mux/first_mux and terminates the WHOLE multiplexed stream.
The group itself yields an error the plain pipeline never produces, and the
other groups lose the items they had not emitted yet."""
import sys
import rx
import rxsci as rs

items = [('a', '1'), ('a', 'n/a'), ('b', '5'), ('b', '6'), ('b', '7')]
print("input (key, text):", items)


def pipeline():
    return [
        rs.ops.map(lambda i: (i[0], int(i[1]))),   # 'n/a' is not parseable, but it is behind the cut
        rs.ops.take(1),                            # same with rs.ops.first()
        rs.ops.map(lambda i: i),
    ]


groups = {}
for i in items:
    groups.setdefault(i[0], []).append(i)
expected, perr = {}, []
for k, g in groups.items():
    rx.from_(g).pipe(*pipeline()).subscribe(
        on_next=lambda i: expected.setdefault(i[0], []).append(i[1]), on_error=perr.append)
print("required (plain, per group):", expected, "errors:", perr)

actual, errors = {}, []
rx.from_(items).pipe(
    rs.state.with_memory_store(rx.pipe(
        rs.ops.group_by(lambda i: i[0], rx.pipe(*pipeline())),
    )),
).subscribe(on_next=lambda i: actual.setdefault(i[0], []).append(i[1]), on_error=errors.append)
print("library (keyed):            ", actual, "errors:", errors)

if errors or actual != expected:
    print("VIOLATION: an item behind a take/first cut still reaches the upstream operators of a "
          "multiplexed key; its error kills the stream (group 'b' yields nothing)")
    sys.exit(1)
print("ok")
