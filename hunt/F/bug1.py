"""C18: csv.dump_to_file(encoding=E) / csv.load_from_file(encoding=E) do not round-trip
when E is an encoding that writes a byte-order mark (utf-16, utf-32, utf-8-sig).

dump_to_file encodes every line on its own (`i.encode(encoding)`), so a BOM is written
at the start of EVERY line, not only at the start of the file.  load_from_file decodes the
file as one stream: only the first BOM is consumed, the others come back as U+FEFF glued
to the first field of every data row.
"""
import os
import sys
import tempfile
import typing

import rx
import rxsci.container.csv as csv


class Row(typing.NamedTuple):
    a: int
    b: str
    c: float
    d: bool


rows = [Row(1, 'x', 1.5, True), Row(-2, 'y,"z', -0.25, False), Row(3, '', 0.0, True)]
failed = False

for first_col, dtype, data in [
    ('int', Row, rows),
    ('str', [('b', str), ('a', int)], None),
]:
    for encoding in ['utf-16', 'utf-8-sig', 'utf-32']:
        if data is None:
            Item = typing.NamedTuple('Item', dtype)
            src = [Item('x', 1), Item('y,"z', -2), Item('', 3)]
        else:
            src = data
        with tempfile.TemporaryDirectory() as d:
            fn = os.path.join(d, 'f.csv')
            errors = []
            rx.from_(src).pipe(
                csv.dump_to_file(fn, encoding=encoding),
            ).subscribe(on_error=errors.append)
            out = []
            csv.load_from_file(
                fn, csv.create_line_parser(dtype=dtype), encoding=encoding,
            ).subscribe(on_next=out.append, on_error=errors.append)

        ok = not errors and [tuple(o) for o in out] == [tuple(r) for r in src]
        print("encoding=%r first column %s" % (encoding, first_col))
        print("  input   :", [tuple(r) for r in src])
        print("  required: the same rows, equal field by field")
        print("  produced:", [tuple(o) for o in out], "errors:", errors)
        print("  ->", "OK" if ok else "VIOLATION")
        failed = failed or not ok

sys.exit(1 if failed else 0)
