"""C18: a string field containing a carriage return ('\\r', which is not the newline
character '\\n') does not survive csv.dump_to_file / csv.load_from_file.

The in-memory path csv.dump | line.unframe | csv.load returns the string byte for byte,
but load_from_file opens the file in text mode with universal newlines, so every '\\r'
inside a quoted field is turned into '\\n' and line.unframe then cuts the row in two.
"""
import os
import sys
import tempfile
import typing

import rx
import rxsci.container.csv as csv
import rxsci.framing.line as line


class Row(typing.NamedTuple):
    a: int
    b: str
    c: float


rows = [Row(1, 'x\ry', 1.5), Row(2, 'tail\r', -2.0)]
parser = csv.create_line_parser(dtype=Row)

mem = []
rx.from_(rows).pipe(csv.dump(), line.unframe(), csv.load(parser)).subscribe(on_next=mem.append)
print("in-memory dump|unframe|load :", mem, "(equal: %s)" % (mem == rows))

failed = False
for encoding in [None, 'utf-8']:
    with tempfile.TemporaryDirectory() as d:
        fn = os.path.join(d, 'f.csv')
        errors = []
        rx.from_(rows).pipe(csv.dump_to_file(fn, encoding=encoding)).subscribe(on_error=errors.append)
        with open(fn, 'rb') as f:
            raw = f.read()
        out = []
        csv.load_from_file(fn, parser, encoding=encoding).subscribe(on_next=out.append, on_error=errors.append)
    ok = not errors and out == rows
    print("encoding=%r" % (encoding,))
    print("  input        :", rows)
    print("  bytes on disk:", raw)
    print("  required     : the same rows, strings byte for byte")
    print("  produced     :", out, "errors:", errors)
    print("  ->", "OK" if ok else "VIOLATION")
    failed = failed or not ok

sys.exit(1 if failed else 0)
