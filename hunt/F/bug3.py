"""C18: csv.dump(newline='\\r\\n') (documented option, CRLF line ends) followed by the
library's own line.unframe and csv.load silently corrupts the last column of every row.

line.unframe cuts at '\\n' only, so every row reaches the csv parser with a trailing '\\r'.
The parser never removes it: a bool column whose value is True comes back False
('True\\r' != 'True'), a str column comes back with its quotes, escapes and the '\\r'
('"a\\\\"b"\\r' instead of 'a"b').  No error is raised.
"""
import sys
import typing

import rx
import rxsci.container.csv as csv
import rxsci.framing.line as line


class R1(typing.NamedTuple):
    a: int
    b: bool


class R2(typing.NamedTuple):
    a: int
    s: str


failed = False
for dtype, rows in [
    (R1, [R1(1, True), R1(2, False), R1(3, True)]),
    (R2, [R2(1, 'a"b'), R2(2, ''), R2(3, ' x, ')]),
]:
    out = []
    errors = []
    rx.from_(rows).pipe(
        csv.dump(newline='\r\n'),
        line.unframe(),
        csv.load(csv.create_line_parser(dtype=dtype)),
    ).subscribe(on_next=out.append, on_error=errors.append)
    ok = not errors and out == rows
    print("input   :", rows)
    print("required: the same rows")
    print("produced:", out, "errors:", errors)
    print("->", "OK" if ok else "VIOLATION")
    failed = failed or not ok

sys.exit(1 if failed else 0)
