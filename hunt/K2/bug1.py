"""C18: csv round trip through dump_to_file / load_from_file fails as soon as the row type
(typing.NamedTuple class, or schema_name given with a list dtype) carries the name of a
module-level name of rxsci/container/csv.py ('line', 'file', 'load', 'dump', ...).

create_schema_factory() does `globals()[Item.__name__] = Item`, which overwrites the module
global of the same name. With a row type called `line`, the global `line` (the imported
rxsci.framing.line module) is replaced by the namedtuple class after the first parsed file,
and every later csv.load_from_file() call of the process raises AttributeError.
"""
import os
import sys
import tempfile

import rx
import rxsci.container.csv as csv

DTYPE = [('name', str), ('value', int), ('ratio', float), ('ok', bool)]
SCHEMA_NAME = 'line'   # a natural name for the type of a csv line


def roundtrip(rows, path):
    out, err = [], []
    rx.from_(rows).pipe(csv.dump_to_file(path)).subscribe(on_error=err.append)
    try:
        csv.load_from_file(
            path, csv.create_line_parser(DTYPE, schema_name=SCHEMA_NAME),
        ).subscribe(on_next=out.append, on_error=err.append)
    except Exception as e:
        err.append(e)
    return out, err


def main():
    from collections import namedtuple
    Row = namedtuple(SCHEMA_NAME, [n for n, _ in DTYPE])
    rows = [Row('a,b', -1, 0.5, True), Row('"q"', 2, -1e-07, False)]
    print("input rows:", [tuple(r) for r in rows])
    print("dtype:", DTYPE, "schema_name:", SCHEMA_NAME)
    print("property C18 requires: every dump_to_file/load_from_file round trip returns the rows equal")
    failed = False
    with tempfile.TemporaryDirectory() as d:
        path = os.path.join(d, 'a.csv')
        for k in (1, 2):
            out, err = roundtrip(rows, path)
            ok = not err and [tuple(r) for r in out] == [tuple(r) for r in rows]
            print("round trip #%d: out=%r err=%r -> %s" % (k, [tuple(r) for r in out], err, 'OK' if ok else 'VIOLATION'))
            failed = failed or not ok
    print("rxsci.container.csv.line is now:", csv.line)
    if failed:
        print("C18 violated: the same rows/schema/separator do not round-trip the second time")
        sys.exit(1)
    print("no violation")


if __name__ == '__main__':
    main()
