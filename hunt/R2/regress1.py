"""tee_map (f2a44b9): the branch cells of a key are reset only when the key ends with
OnCompletedMux.  A key lifetime that ends with OnErrorMux (roll / split / time_split / group_by
close their windows, segments and groups that way when their parent key receives a mux error)
leaves the cells untouched, so the next lifetime served by the same key slot still sees values
produced during the previous one -- the very leak the commit set out to remove (C02 / C08).

Uses only the public API.  Exits 1 when the leak is observed.
"""
import sys
import rx
import rxsci as rs


def check(i):
    if i == 'x':
        raise ValueError('bad item')
    return i


def keyed(items, branches, join):
    out, err = [], []
    rx.from_(items).pipe(
        rs.state.with_memory_store(rx.pipe(
            rs.ops.map(check),                      # raises on 'x' -> one mux error for the key
            rs.data.roll(2, 2, rx.pipe(
                rs.ops.tee_map(*branches(), join=join),
                rs.error.ignore(),                  # the error is handled: the stream goes on
            )),
            rs.error.ignore(),
        )),
    ).subscribe(on_next=out.append, on_error=lambda e: err.append(repr(e)))
    return out, err


def plain(items, branches, join):
    out = []
    rx.from_(items).pipe(rs.ops.tee_map(*branches(), join=join)).subscribe(on_next=out.append)
    return out


failed = False
items = [1, 'x', 3, 4, 5]
print("input:", items, " pipeline: map(check), roll(2, 2, [tee_map(A, B, join=J), error.ignore()]), error.ignore()")
print("roll closes the open window [1] with the mux error raised on 'x'; the following windows")
print("are [3, 4] and [5] and reuse the same key slot.\n")

cases = [
    ('combine_latest', 'A=filter(<2), B=map(*10)',
     lambda: (rs.ops.filter(lambda i: i < 2), rs.ops.map(lambda i: i * 10))),
    ('zip', 'A=filter(>=2), B=map(*10)',
     lambda: (rs.ops.filter(lambda i: i >= 2), rs.ops.map(lambda i: i * 10))),
]
for join, desc, branches in cases:
    got, err = keyed(items, branches, join)
    # what each window yields when the same tee_map runs on its items alone
    expected = plain([1], branches, join) + plain([3, 4], branches, join) + plain([5], branches, join)
    # the other reading (the failed item is simply absent: windows [1, 3] and [4, 5])
    expected_absent = plain([1, 3], branches, join) + plain([4, 5], branches, join)
    print("join=%s, %s" % (join, desc))
    print("  expected (windows [1] [3,4] [5])     :", expected)
    print("  or, if 'x' were absent ([1,3] [4,5]) :", expected_absent)
    print("  actual                               :", got, err)
    if got != expected and got != expected_absent:
        print("  -> values of the window closed by the error leak into the next window")
        failed = True
    print()

sys.exit(1 if failed else 0)
