"""C13 - the dead-letter observable does not complete when the stream ends with
the on_error of an unhandled mux error raised downstream of the router.

Property C13: "... the error router delivers the exceptions in order to the
dead-letter observable, which completes with the stream; an unhandled mux error
surfaces as on_error where the stream is demultiplexed."

Here the first map is followed by the router (its errors are routed), the second
map has no handler (its error surfaces as on_error at the demultiplexer, as
required).  The stream is then terminated, but the dead-letter observable is
left open for ever.  (When the same stream error comes from upstream of the
router, the router does complete the dead-letter observable.)

Only the public API is used.
"""
import sys
import rx
import rxsci as rs

SOURCE = [1, 0, 2, 5, 3, 0, 4]


def run(second_mapper):
    errors, route_errors = rs.error.create_error_router()
    dead_letters, dead_letter_completed = [], []
    out, out_error, out_completed = [], [], []
    errors.subscribe(
        on_next=dead_letters.append,
        on_completed=lambda: dead_letter_completed.append(True),
    )
    rx.from_(SOURCE).pipe(
        rs.ops.multiplex(rx.pipe(
            rs.ops.map(lambda i: 10 // i),      # fails on 0 -> routed
            route_errors(),
            rs.ops.map(second_mapper),           # no handler
        )),
    ).subscribe(
        on_next=out.append,
        on_error=out_error.append,
        on_completed=lambda: out_completed.append(True),
    )
    return dict(out=out, out_error=out_error, stream_completed=bool(out_completed),
                dead_letters=dead_letters, dead_letter_completed=bool(dead_letter_completed))


print("source items :", SOURCE)
print("pipeline     : map(10 // i), route_errors(), map(1 // (i - 2))   [second map unhandled]")
print("required     : dead letters [ZeroDivisionError] (item 0), then the stream ends with")
print("               on_error(ZeroDivisionError) on item 5 (10 // 5 == 2) and the dead-letter")
print("               observable completes with the stream")

ref = run(lambda i: i)
print("reference (second map never fails):", ref)
assert ref['stream_completed'] and ref['dead_letter_completed']

r = run(lambda i: 1 // (i - 2))
print("library                           :", r)

stream_terminated = len(r['out_error']) == 1
if stream_terminated and not r['dead_letter_completed']:
    print("C13 violated: the stream terminated (on_error=%r) but the dead-letter observable "
          "never completed" % (r['out_error'][0],))
    sys.exit(1)
print("no violation")
