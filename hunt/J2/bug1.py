"""C13 - the dead-letter observable of the error router never completes when the
router sits in a tee_map branch other than the first one.

Property C13: "... the error router delivers the exceptions in order to the
dead-letter observable, which completes with the stream".

Only the public API is used.
"""
import sys
import rx
import rxsci as rs

SOURCE = [1, 0, 2, 0, 4]


def run(router_branch):
    errors, route_errors = rs.error.create_error_router()
    dead_letters, dead_letter_completed = [], []
    out, out_error, out_completed = [], [], []

    plain = rx.pipe(rs.ops.map(lambda i: i))
    routed = rx.pipe(rs.ops.map(lambda i: 10 // i), route_errors())
    branches = [plain, plain]
    branches[router_branch] = routed

    errors.subscribe(
        on_next=dead_letters.append,
        on_completed=lambda: dead_letter_completed.append(True),
    )
    rx.from_(SOURCE).pipe(
        rs.state.with_memory_store(rx.pipe(
            rs.ops.tee_map(*branches, join='merge'),
        )),
    ).subscribe(
        on_next=out.append,
        on_error=out_error.append,
        on_completed=lambda: out_completed.append(True),
    )
    return dict(out=out, out_error=out_error, stream_completed=bool(out_completed),
                dead_letters=dead_letters, dead_letter_completed=bool(dead_letter_completed))


print("source items            :", SOURCE)
print("pipeline                : tee_map(map(i), [map(10 // i), route_errors()], join='merge')")
print("required (C13)          : 2 ZeroDivisionError dead letters, then the dead-letter")
print("                          observable completes when the stream completes,")
print("                          wherever the router is placed")
violated = False
for branch in (0, 1):
    r = run(branch)
    print("router in branch %d      :" % branch, r)
    ok = (r['stream_completed'] and len(r['dead_letters']) == 2
          and r['dead_letter_completed'])
    if not ok:
        violated = True
        print("  -> VIOLATION: the stream completed=%s but the dead-letter observable completed=%s"
              % (r['stream_completed'], r['dead_letter_completed']))

if violated:
    print("C13 violated: dead-letter observable does not complete with the stream")
    sys.exit(1)
print("no violation")
