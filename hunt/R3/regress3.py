"""csv.dump_to_file(encoding=...) never writes the final chunk nor closes the
file when the downstream completes as soon as the source has completed.

Cause: rx.concat reacts to the completion of the encoded lines by *scheduling*
the subscription to the final-flush observable. The source's own action is
still running on the trampoline, so the flush and the close of the file are
queued; the other tee_map branch then emits, ops.first() completes and disposes
the tee, and the queued action finds itself disposed. The subscriber is told
"completed" while the file is still open and (being buffered) empty on disk.
Before the commit the flush and the close were done synchronously in
on_completed, before the next branch ran.

Regression of eaa560a (worked with eaa560a~1 and with the original code).
"""
import os
import sys
import tempfile
from collections import namedtuple

import rx
import rx.operators as ops
import rxsci as rs
import rxsci.container.csv as csv

Row = namedtuple('Row', ['a', 'b'])
failed = False
for encoding, expected in [
    ('utf-8', b'a,b\n1,"\xc3\xa9"\n'),
    ('utf-7', b'a,b\n1,"+AOk"\n'),
]:
    closed = []
    path = os.path.join(tempfile.mkdtemp(), 'out.csv')

    def open_obj(name, mode, encoding=None):
        f = open(name, mode)
        close = f.close
        class F:
            def write(self, data): return f.write(data)
            def close(self):
                closed.append(True)
                close()
        return F()

    events = []
    rx.from_([Row(1, 'é')]).pipe(
        rs.ops.tee_map(
            csv.dump_to_file(path, encoding=encoding, open_obj=open_obj),
            ops.count(),
            join='merge',
        ),
        ops.first(),
    ).subscribe(
        on_next=events.append,
        on_error=lambda e: events.append(('error', repr(e))),
        on_completed=lambda: events.append('completed'),
    )
    with open(path, 'rb') as f:
        got = f.read()
    print("input   : rx.from_([Row(1,'é')]).pipe(tee_map(csv.dump_to_file(path, encoding=%r),"
          " ops.count(), join='merge'), ops.first())" % encoding)
    print("events  :", events)
    print("expected: file closed, content", expected)
    print("got     : file closed: %s, content %r" % (bool(closed), got))
    if not closed or got != expected:
        failed = True

if failed:
    print("PROBLEM: the file was not closed / the final chunk was not written when the subscriber was completed")
    sys.exit(1)
print("ok")
