"""Remaining gap of 13beab6: the defect it describes (the error forwarded by the
first branch disposes the other branches before they have seen the source
error) is still there on the plain (non multiplexed) path of tee_map, which
shares the same structure. The two paths now behave differently.

Not a regression: the plain path behaved this way before the commit.
"""
import sys

import rx
import rx.operators as ops
import rxsci as rs

source = rx.concat(rx.from_([1, 2]), rx.throw(ValueError('source failed')))


def run(mux):
    seen = []
    events = []
    if mux:
        def tap(src):
            def on_subscribe(observer, scheduler):
                def on_error(e):
                    seen.append(repr(e))
                    observer.on_error(e)
                return src.subscribe(
                    on_next=observer.on_next, on_error=on_error,
                    on_completed=observer.on_completed, scheduler=scheduler)
            return rs.MuxObservable(on_subscribe)
        pipeline = rs.ops.multiplex(rx.pipe(
            rs.ops.tee_map(rs.ops.map(lambda i: i), tap)))
    else:
        pipeline = rs.ops.tee_map(
            ops.map(lambda i: i),
            ops.do_action(on_error=lambda e: seen.append(repr(e))))
    source.pipe(pipeline).subscribe(
        on_next=events.append,
        on_error=lambda e: events.append(('error', repr(e))),
    )
    return events, seen


mux_events, mux_seen = run(True)
plain_events, plain_seen = run(False)
print("input   : [1, 2, error].pipe(tee_map(map(identity), <branch recording the stream error it receives>))")
print("expected: the second branch sees the source error on both paths: [\"ValueError('source failed')\"]")
print("got     : mux path  : second branch saw %r, events %r" % (mux_seen, mux_events))
print("got     : plain path: second branch saw %r, events %r" % (plain_seen, plain_events))
if plain_seen != ["ValueError('source failed')"] or mux_seen != plain_seen:
    print("PROBLEM: on the plain path the later branch is still cut off from the source error")
    sys.exit(1)
print("ok")
