"""tee_map on a multiplexed source: after a source error the tee never
terminates when one branch handles the error without terminating (catch / error
recovery inside a branch). Downstream is left hanging with neither on_error nor
on_completed, although the source is dead.

Cause: 13beab6 forwards the source error only when *every* branch has
terminated (is_done), not when every branch has *seen* it. Before the commit the
error of any other branch terminated the tee at once.

Regression of 13beab6 (the error was forwarded with 13beab6~1).
"""
import sys

import rx
from rx.subject import Subject
import rxsci as rs


def recover(source):
    # a branch that handles the stream error itself (logs it, say) and stays open
    def on_subscribe(observer, scheduler):
        return source.subscribe(
            on_next=observer.on_next,
            on_error=lambda e: None,
            on_completed=observer.on_completed,
            scheduler=scheduler,
        )
    return rs.MuxObservable(on_subscribe)


subject = Subject()
events = []
subject.pipe(
    rs.ops.multiplex(rx.pipe(
        rs.ops.tee_map(
            recover,
            rs.ops.map(lambda i: -i),
        ),
    )),
).subscribe(
    on_next=events.append,
    on_error=lambda e: events.append(('error', repr(e))),
    on_completed=lambda: events.append('completed'),
)
subject.on_next(1)
subject.on_next(2)
subject.on_error(ValueError('source failed'))

expected = [(1, -1), (2, -2), ('error', "ValueError('source failed')")]
print("input   : Subject.pipe(multiplex(tee_map(<branch swallowing on_error>, map(-i)))); 1, 2, on_error(ValueError)")
print("expected:", expected)
print("got     :", events)
if events != expected:
    print("PROBLEM: the source error is never forwarded: the subscriber hangs")
    sys.exit(1)
print("ok")
