"""csv.dump_to_file(encoding=...) subscribed with a scheduler that does not run
inline misses the items a hot source (Subject) emits before the scheduler runs.

Cause: same as regress1 (rx.concat schedules the subscription to the source on
the scheduler that the commit now forwards). Before the commit the source was
subscribed synchronously inside subscribe().

Regression of eaa560a (worked with eaa560a~1 and with the original code).
"""
import io
import sys
from collections import namedtuple

from rx.subject import Subject
from rx.scheduler import HistoricalScheduler
import rxsci.container.csv as csv

Row = namedtuple('Row', ['a', 'b'])

buf = io.BytesIO()
subject = Subject()
scheduler = HistoricalScheduler()   # runs scheduled work only when advanced
events = []
subject.pipe(
    csv.dump_to_file(buf, encoding='utf-8'),
).subscribe(
    on_error=lambda e: events.append(('error', repr(e))),
    on_completed=lambda: events.append('completed'),
    scheduler=scheduler,
)
subject.on_next(Row(1, 'x'))        # emitted after subscribe() returned
scheduler.advance_by(1)
subject.on_next(Row(2, 'y'))
subject.on_completed()
scheduler.advance_by(1)

expected = b'a,b\n1,"x"\n2,"y"\n'
got = buf.getvalue()
print("input   : Subject.pipe(csv.dump_to_file(buf, encoding='utf-8')).subscribe(scheduler=HistoricalScheduler());"
      " on_next(Row(1,'x')); advance; on_next(Row(2,'y')); on_completed(); advance")
print("events  :", events)
print("expected:", expected)
print("got     :", got)
if got != expected:
    print("PROBLEM: the row emitted right after subscribe() was lost")
    sys.exit(1)
print("ok")
