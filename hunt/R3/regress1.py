"""csv.dump_to_file(encoding=...) loses the rows of a source that emits while
the outermost subscribe() is still running (hot / synchronous source).

Cause: _encode_stream wraps the source in rx.concat, which does not subscribe to
the source at once but schedules the subscription on the scheduler
(CurrentThreadScheduler trampoline by default). Inside a running subscribe()
chain the trampoline is busy, so the subscription to the source happens after
tee_map has connected the shared source: every row is missed, the file is empty
and the pipeline still reports success.

Regression of eaa560a (worked with eaa560a~1 and with the original code).
"""
import io
import sys
from collections import namedtuple

import rx
import rx.operators as ops
import rxsci as rs
import rxsci.container.csv as csv

Row = namedtuple('Row', ['a', 'b'])
rows = [Row(1, 'x'), Row(2, 'y')]


def sync_rows(observer, scheduler):
    # a source that emits during subscription, as rx.create sources usually do
    for r in rows:
        observer.on_next(r)
    observer.on_completed()


buf = io.BytesIO()
events = []
rx.create(sync_rows).pipe(
    rs.ops.tee_map(
        csv.dump_to_file(buf, encoding='utf-8'),
        ops.count(),
        join='merge',
    ),
).subscribe(
    on_next=events.append,
    on_error=lambda e: events.append(('error', repr(e))),
    on_completed=lambda: events.append('completed'),
)

expected = b'a,b\n1,"x"\n2,"y"\n'
got = buf.getvalue()
print("input   : rx.create(<emits Row(1,'x'), Row(2,'y'), completes synchronously>)"
      ".pipe(tee_map(csv.dump_to_file(buf, encoding='utf-8'), ops.count(), join='merge'))")
print("events  :", events)
print("expected:", expected)
print("got     :", got)
if got != expected:
    print("PROBLEM: rows were not written")
    sys.exit(1)
print("ok")
