"""Remaining gap of eaa560a: the defect was worked around in csv.py instead of
being fixed where it lives. The public operator rs.data.encode (the one
dump_to_file used until this commit) still lets an encoding exception escape
into the producer instead of signalling on_error, and still drops the scheduler
of the subscription. rs.data.decode has the same two defects.

Not a regression: same behaviour before the commit.
"""
import sys

import rx
from rx.subject import Subject
from rx.scheduler import ImmediateScheduler
import rxsci as rs

failed = False

# 1. the exception escapes into the producer
subject = Subject()
events = []
subject.pipe(rs.data.encode('ascii')).subscribe(
    on_next=events.append,
    on_error=lambda e: events.append(('error', type(e).__name__)),
)
escaped = None
try:
    subject.on_next('é')
except Exception as e:
    escaped = type(e).__name__
print("input   : Subject.pipe(rs.data.encode('ascii')); on_next('é')")
print("expected: events [('error', 'UnicodeEncodeError')], nothing raised in the producer")
print("got     : events %r, raised in the producer: %r" % (events, escaped))
if escaped is not None or events != [('error', 'UnicodeEncodeError')]:
    failed = True

# 2. the scheduler is dropped
seen = []
def source(observer, scheduler):
    seen.append(scheduler)
    observer.on_completed()
scheduler = ImmediateScheduler()
rx.create(source).pipe(rs.data.encode('utf-8')).subscribe(scheduler=scheduler)
print("input   : rx.create(src).pipe(rs.data.encode('utf-8')).subscribe(scheduler=s)")
print("expected: src subscribed with scheduler s")
print("got     : src subscribed with scheduler", seen[0])
if seen[0] is not scheduler:
    failed = True

if failed:
    print("PROBLEM: rs.data.encode still has the defects that the commit removed from csv.dump_to_file only")
    sys.exit(1)
print("ok")
