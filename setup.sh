#!/bin/bash
# builds /verif/.venv: python 3.12 (the repo's interpreter) + z3/cvc5/hypothesis from the offline wheelhouse,
# with the repo's own site-packages visible through a .pth (rx, pyarrow, zstandard ...).  Idempotent, locked.
set -eu
HERE="$(cd "$(dirname "${BASH_SOURCE[0]}")" && pwd)"
exec 9>"$HERE/.setup.lock"
flock 9
if [ -x "$HERE/.venv/bin/python" ] && "$HERE/.venv/bin/python" -c "import z3, rx, jsonschema" 2>/dev/null; then exit 0; fi
rm -rf "$HERE/.venv"
/venv/bin/python -m venv "$HERE/.venv"
PIP_NO_INDEX=1 "$HERE/.venv/bin/pip" install -q --no-index --find-links /opt/veriftools/wheels z3-solver cvc5 hypothesis jsonschema
echo "import site; site.addsitedir('/venv/lib/python3.12/site-packages')" > "$HERE/.venv/lib/python3.12/site-packages/_repo.pth"
"$HERE/.venv/bin/python" -c "import z3, rx, rxsci, jsonschema; print('ok')"
