/-! L3b (nesting): locality composes.  A *keyed machine* handles one event of key k from the state slot of k alone and tags every
output with a key that projects (π) onto k: this is the shape of every per-handler contract rxv discharges -- a plain keyed
transducer KT(M) (π = id), a key-spawning operator (inner keys (index, k), π = parent key) and the demultiplexer (π = id on the
parent).  `run_local`: the output restricted to any set P of (projected) keys is a function of the input restricted to P and of the
slots in P.  `comp_local`: the composition of local stream functions is local, so spawner ; inner pipeline ; demux -- nested to any
depth -- confines each outer key (C02 for nested operators, the per-key half of C01).  Lean 4 core only. -/
namespace KM

inductive Ev (K X : Type) where
  | create : K → Ev K X
  | next   : K → X → Ev K X
  | done   : K → Ev K X

def Ev.key {K X : Type} : Ev K X → K
  | .create k => k | .next k _ => k | .done k => k

/-- event without its key -/
inductive Ek (X : Type) where
  | create | next (x : X) | done

def Ev.kind {K X : Type} : Ev K X → Ek X
  | .create _ => .create | .next _ x => .next x | .done _ => .done

structure Machine (K X K' Y S : Type) where
  step : K → Option S → Ek X → Option S × List (Ev K' Y)
  π : K' → K
  out_key : ∀ k s e o, o ∈ (step k s e).2 → π o.key = k

variable {K X K' Y S : Type} [DecidableEq K]

def handle (m : Machine K X K' Y S) (σ : K → Option S) (e : Ev K X) : (K → Option S) × List (Ev K' Y) :=
  let r := m.step e.key (σ e.key) e.kind
  (fun j => if j = e.key then r.1 else σ j, r.2)

def run (m : Machine K X K' Y S) : (K → Option S) → List (Ev K X) → List (Ev K' Y)
  | _, [] => []
  | σ, e :: es => (handle m σ e).2 ++ run m (handle m σ e).1 es

/-- confinement for a set of keys: outputs whose projected key is in P depend only on the inputs with key in P and on the slots in P -/
theorem run_local (m : Machine K X K' Y S) (P : K → Bool) :
    ∀ (t : List (Ev K X)) (σ τ : K → Option S), (∀ k, P k = true → σ k = τ k) →
      (run m σ t).filter (fun o => P (m.π o.key)) = (run m τ (t.filter (fun e => P e.key))).filter (fun o => P (m.π o.key)) := by
  intro t
  induction t with
  | nil => intro σ τ _; simp [run]
  | cons e es ih =>
    intro σ τ h
    by_cases hk : P e.key = true
    · have hs : σ e.key = τ e.key := h _ hk
      have hout : (handle m σ e).2 = (handle m τ e).2 := by simp [handle, hs]
      have hslot : ∀ k, P k = true → (handle m σ e).1 k = (handle m τ e).1 k := by
        intro k hPk
        by_cases hj : k = e.key
        · simp [handle, hj, hs]
        · simp [handle, hj, h k hPk]
      simp only [run, List.filter_cons, hk, if_true, List.filter_append]
      rw [hout, ih _ _ hslot]
    · have hnone : (handle m σ e).2.filter (fun o => P (m.π o.key)) = [] := by
        apply List.filter_eq_nil_iff.mpr
        intro o ho
        have : m.π o.key = e.key := m.out_key _ _ _ o (by simpa [handle] using ho)
        simp [this, hk]
      have hslot : ∀ k, P k = true → (handle m σ e).1 k = τ k := by
        intro k hPk
        have hj : k ≠ e.key := fun hj => hk (hj ▸ hPk)
        simp [handle, hj, h k hPk]
      simp only [run, List.filter_cons, hk, List.filter_append, hnone, List.nil_append]
      simpa using ih _ _ hslot

/-- a stream function is local w.r.t. key projections if restricting the input to a key set P restricts the output accordingly -/
def Local {A B : Type} (keyA : A → K) (keyB : B → K) (F : List A → List B) : Prop :=
  ∀ (P : K → Bool) (t : List A), (F t).filter (fun o => P (keyB o)) = (F (t.filter (fun e => P (keyA e)))).filter (fun o => P (keyB o))

omit [DecidableEq K] in
/-- locality composes: (G ∘ F) confines every key set that F and G confine -/
theorem comp_local {A B C : Type} (keyA : A → K) (keyB : B → K) (keyC : C → K) (F : List A → List B) (G : List B → List C)
    (hF : Local keyA keyB F) (hG : Local keyB keyC G) : Local keyA keyC (fun t => G (F t)) := by
  intro P t
  show (G (F t)).filter _ = (G (F (t.filter _))).filter _
  rw [hG P (F t), hF P t, ← hG P (F (t.filter fun e => P (keyA e)))]

/-- a keyed machine started from a fixed store is a local stream function (keys of the output read through π) -/
theorem machine_local (m : Machine K X K' Y S) (σ : K → Option S) :
    Local (fun e : Ev K X => e.key) (fun o : Ev K' Y => m.π o.key) (run m σ) :=
  fun P t => run_local m P t σ σ (fun _ _ => rfl)

/-- per-key form (P = {k}): what C02 states -/
theorem run_key (m : Machine K X K' Y S) (σ : K → Option S) (k : K) (t : List (Ev K X)) :
    (run m σ t).filter (fun o => m.π o.key = k) = (run m σ (t.filter (fun e => e.key = k))).filter (fun o => m.π o.key = k) := by
  have := machine_local m σ (fun j => decide (j = k)) t
  simpa using this

end KM
