/-! Calibration: keyed-transducer projection lemma, Lean core only. -/
namespace KT

structure Machine (X Y S : Type) where
  init : S
  step : S → X → S × List Y
  fin  : S → List Y

inductive Ev (K X : Type) where
  | create : K → Ev K X
  | next   : K → X → Ev K X
  | done   : K → Ev K X
deriving Repr

variable {K X Y S : Type} [DecidableEq K]

def Ev.key : Ev K X → K
  | .create k => k | .next k _ => k | .done k => k

/-- the contract-level semantics of a handler satisfying KT(M): one event, one store update, emitted events -/
def handle (m : Machine X Y S) (σ : K → Option S) : Ev K X → (K → Option S) × List (Ev K Y)
  | .create k => (fun j => if j = k then some m.init else σ j, [.create k])
  | .next k x =>
      match σ k with
      | some s => let r := m.step s x
                  (fun j => if j = k then some r.1 else σ j, r.2.map (.next k))
      | none   => (σ, [])
  | .done k =>
      match σ k with
      | some s => (fun j => if j = k then none else σ j, (m.fin s).map (.next k) ++ [.done k])
      | none   => (σ, [])

def run (m : Machine X Y S) : (K → Option S) → List (Ev K X) → List (Ev K Y)
  | _, [] => []
  | σ, e :: es => let r := handle m σ e; r.2 ++ run m r.1 es

/-- outputs of one event all carry that event's key -/
theorem handle_key (m : Machine X Y S) (σ : K → Option S) (e : Ev K X) :
    ∀ o ∈ (handle m σ e).2, o.key = e.key := by
  intro o ho
  cases e with
  | create k => simp [handle] at ho; subst ho; rfl
  | next k x =>
    simp only [handle] at ho
    split at ho
    · simp at ho; obtain ⟨y, _, rfl⟩ := ho; rfl
    · simp at ho
  | done k =>
    simp only [handle] at ho
    split at ho
    · simp at ho
      rcases ho with ⟨y, _, rfl⟩ | rfl <;> rfl
    · simp at ho

/-- an event of another key does not change slot k -/
theorem handle_frame (m : Machine X Y S) (σ : K → Option S) (e : Ev K X) (k : K) (h : e.key ≠ k) :
    (handle m σ e).1 k = σ k := by
  cases e with
  | create j => simp [handle, Ev.key] at *; intro hk; exact absurd hk.symm h
  | next j x =>
    simp only [handle]; split
    · simp [Ev.key] at *; intro hk; exact absurd hk.symm h
    · rfl
  | done j =>
    simp only [handle]; split
    · simp [Ev.key] at *; intro hk; exact absurd hk.symm h
    · rfl

/-- L1 (state-confinement form): the output projected on key k depends only on slot k and on the
    input projected on key k — other keys, however interleaved, are irrelevant. -/
theorem proj_local (m : Machine X Y S) (k : K) :
    ∀ (t : List (Ev K X)) (σ τ : K → Option S), σ k = τ k →
      (run m σ t).filter (fun o => o.key = k) = (run m τ (t.filter (fun e => e.key = k))).filter (fun o => o.key = k) := by
  intro t
  induction t with
  | nil => intro σ τ _; simp [run]
  | cons e es ih =>
    intro σ τ hστ
    by_cases hk : e.key = k
    · -- event of key k: both sides process it from equal slots
      simp only [run, List.filter_cons, hk, decide_true, if_true, List.filter_append]
      have hout : (handle m σ e).2 = (handle m τ e).2 := by
        cases e with
        | create j => simp [handle]
        | next j x => simp [Ev.key] at hk; subst hk; simp only [handle, hστ]; cases τ j <;> simp
        | done j => simp [Ev.key] at hk; subst hk; simp only [handle, hστ]; cases τ j <;> simp
      have hslot : (handle m σ e).1 k = (handle m τ e).1 k := by
        cases e with
        | create j => simp [handle, hστ]
        | next j x => simp [Ev.key] at hk; subst hk; simp only [handle, hστ]; cases τ j <;> simp [hστ]
        | done j => simp [Ev.key] at hk; subst hk; simp only [handle, hστ]; cases τ j <;> simp [hστ]
      rw [hout, ih _ _ hslot]
    · simp only [run, List.filter_cons, hk, decide_false, List.filter_append]
      have hnone : (handle m σ e).2.filter (fun o => o.key = k) = [] := by
        apply List.filter_eq_nil_iff.mpr
        intro o ho; simp; rw [handle_key m σ e o ho]; exact hk
      rw [hnone, List.nil_append]
      have : (handle m σ e).1 k = τ k := by rw [handle_frame m σ e k hk]; exact hστ
      simpa using ih _ _ this

end KT
