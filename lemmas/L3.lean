/-! L3 (well-formedness): a handler satisfying the keyed-transducer contract KT(M) maps a well-formed mux trace (create before use,
no event on a dead key, no double create) to a well-formed mux trace with the same live keys at every point -- so a key is completed
downstream exactly when it is completed upstream.  Same contract-level semantics `handle`/`run` as KT.lean (L1).  Lean 4 core only. -/
namespace KT3

structure Machine (X Y S : Type) where
  init : S
  step : S → X → S × List Y
  fin  : S → List Y

inductive Ev (K X : Type) where
  | create : K → Ev K X
  | next   : K → X → Ev K X
  | done   : K → Ev K X

variable {K X Y S : Type} [DecidableEq K]

def handle (m : Machine X Y S) (σ : K → Option S) : Ev K X → (K → Option S) × List (Ev K Y)
  | .create k => (fun j => if j = k then some m.init else σ j, [.create k])
  | .next k x =>
      match σ k with
      | some s => let r := m.step s x
                  (fun j => if j = k then some r.1 else σ j, r.2.map (.next k))
      | none   => (σ, [])
  | .done k =>
      match σ k with
      | some s => (fun j => if j = k then none else σ j, (m.fin s).map (.next k) ++ [.done k])
      | none   => (σ, [])

def run (m : Machine X Y S) : (K → Option S) → List (Ev K X) → List (Ev K Y)
  | _, [] => []
  | σ, e :: es => let r := handle m σ e; r.2 ++ run m r.1 es

/-- live keys after an event -/
def upd (live : K → Bool) : Ev K X → (K → Bool)
  | .create k => fun j => if j = k then true else live j
  | .next _ _ => live
  | .done k => fun j => if j = k then false else live j

def after (live : K → Bool) : List (Ev K X) → (K → Bool)
  | [] => live
  | e :: t => after (upd live e) t

/-- the mux event protocol (C03) as a predicate on traces -/
def ok (live : K → Bool) : Ev K X → Prop
  | .create k => live k = false
  | .next k _ => live k = true
  | .done k => live k = true

def wf (live : K → Bool) : List (Ev K X) → Prop
  | [] => True
  | e :: t => ok live e ∧ wf (upd live e) t

theorem wf_append (live : K → Bool) (a b : List (Ev K X)) : wf live (a ++ b) ↔ wf live a ∧ wf (after live a) b := by
  induction a generalizing live with
  | nil => simp [wf, after]
  | cons e a ih => simp [wf, after, ih, and_assoc]

theorem after_append (live : K → Bool) (a b : List (Ev K X)) : after live (a ++ b) = after (after live a) b := by
  induction a generalizing live with
  | nil => simp [after]
  | cons e a ih => simp [after, ih]

theorem wf_nexts (live : K → Bool) (k : K) (ys : List Y) (h : live k = true) :
    wf live (ys.map (Ev.next (K := K) k)) ∧ after live (ys.map (Ev.next (K := K) k)) = live := by
  induction ys with
  | nil => simp [wf, after]
  | cons y ys ih => simp [wf, after, ok, upd, h, ih]

/-- one event: if the store has a state exactly for the live keys, the emitted events are well formed from the same live set and
leave the same live set as the input event does; and the store again has a state exactly for the live keys -/
theorem handle_wf (m : Machine X Y S) (σ : K → Option S) (live : K → Bool) (e : Ev K X)
    (hσ : ∀ j, live j = (σ j).isSome) (he : ok live e) :
    wf live (handle m σ e).2 ∧ after live (handle m σ e).2 = upd live e ∧ (∀ j, upd live e j = ((handle m σ e).1 j).isSome) := by
  cases e with
  | create k =>
    refine ⟨by simpa [handle, wf, ok] using he, by simp [handle, after, upd], ?_⟩
    intro j; by_cases hj : j = k <;> simp [handle, upd, hj, hσ]
  | next k x =>
    have hk : live k = true := he
    cases hs : σ k with
    | none => rw [hσ k, hs] at hk; simp at hk
    | some s =>
      have := wf_nexts live k (m.step s x).2 hk
      refine ⟨by simpa [handle, hs] using this.1, by simpa [handle, hs, upd] using this.2, ?_⟩
      intro j; by_cases hj : j = k
      · subst hj; simp [handle, hs, upd, hk]
      · simp [handle, hs, upd, hj, hσ]
  | done k =>
    have hk : live k = true := he
    cases hs : σ k with
    | none => rw [hσ k, hs] at hk; simp at hk
    | some s =>
      have := wf_nexts live k (m.fin s) hk
      refine ⟨?_, ?_, ?_⟩
      · simp only [handle, hs]
        rw [wf_append]; refine ⟨this.1, ?_⟩
        rw [this.2]; simp [wf, ok, hk]
      · simp only [handle, hs]
        rw [after_append, this.2]; simp [after, upd]
      · intro j; by_cases hj : j = k
        · subst hj; simp [handle, hs, upd]
        · simp [handle, hs, upd, hj, hσ]

/-- L3: well-formed in, well-formed out, same live keys afterwards (so: every key created downstream is completed downstream
exactly when the input completes it) -/
theorem run_wf (m : Machine X Y S) : ∀ (t : List (Ev K X)) (σ : K → Option S) (live : K → Bool),
    (∀ j, live j = (σ j).isSome) → wf live t → wf live (run m σ t) ∧ after live (run m σ t) = after live t := by
  intro t
  induction t with
  | nil => intro σ live _ _; simp [run, wf, after]
  | cons e es ih =>
    intro σ live hσ hwf
    have h1 := handle_wf m σ live e hσ hwf.1
    have h2 := ih (handle m σ e).1 (upd live e) h1.2.2 hwf.2
    simp only [run]
    rw [wf_append, after_append, h1.2.1]
    exact ⟨⟨h1.1, h2.1⟩, by simpa [after] using h2.2⟩

end KT3
