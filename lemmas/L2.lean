/-! L2 (composition) and L5 (folds): glue lemmas over the per-operator contracts, Lean 4 core only.

A handler that satisfies KT(M) behaves, per key, like the list transducer `runL M`.  L2: piping an operator satisfying KT(M1) into one
satisfying KT(M2) behaves like the machine `comp M1 M2`, and on plain lists `runL (comp M1 M2) = runL M2 ∘ runL M1` -- which is what
"the multiplexed pipeline yields, per group, what the plain pipeline yields on that group's items" needs for pipelines of any depth
(induction on the pipeline).  L5: the per-step contract of scan is the left fold. -/
namespace KT2

structure Machine (X Y S : Type) where
  init : S
  step : S → X → S × List Y
  fin  : S → List Y

variable {X Y Z S T : Type}

/-- all outputs of a machine started in state `s` on the items `xs`, completion included -/
def runL (m : Machine X Y S) : S → List X → List Y
  | s, [] => m.fin s
  | s, x :: xs => (m.step s x).2 ++ runL m (m.step s x).1 xs

/-- feeding items without completing: final state and outputs -/
def feed (m : Machine X Y S) : S → List X → S × List Y
  | s, [] => (s, [])
  | s, x :: xs => ((feed m (m.step s x).1 xs).1, (m.step s x).2 ++ (feed m (m.step s x).1 xs).2)

theorem runL_append (m : Machine X Y S) (s : S) (xs ys : List X) :
    runL m s (xs ++ ys) = (feed m s xs).2 ++ runL m (feed m s xs).1 ys := by
  induction xs generalizing s with
  | nil => simp [feed]
  | cons x xs ih => simp [runL, feed, ih, List.append_assoc]

theorem feed_append (m : Machine X Y S) (s : S) (xs ys : List X) :
    feed m s (xs ++ ys) = ((feed m (feed m s xs).1 ys).1, (feed m s xs).2 ++ (feed m (feed m s xs).1 ys).2) := by
  induction xs generalizing s with
  | nil => simp [feed]
  | cons x xs ih => simp [feed, ih, List.append_assoc]

/-- sequential composition of two keyed transducers (what `rx.pipe(op1, op2)` does per key) -/
def comp (m1 : Machine X Y S) (m2 : Machine Y Z T) : Machine X Z (S × T) where
  init := (m1.init, m2.init)
  step := fun st x => (((m1.step st.1 x).1, (feed m2 st.2 (m1.step st.1 x).2).1), (feed m2 st.2 (m1.step st.1 x).2).2)
  fin := fun st => (feed m2 st.2 (m1.fin st.1)).2 ++ m2.fin (feed m2 st.2 (m1.fin st.1)).1

/-- L2: the composed machine computes the composition of the list functions -/
theorem runL_comp (m1 : Machine X Y S) (m2 : Machine Y Z T) (s : S) (t : T) (xs : List X) :
    runL (comp m1 m2) (s, t) xs = runL m2 t (runL m1 s xs) := by
  induction xs generalizing s t with
  | nil =>
    simp only [runL, comp]
    have := runL_append m2 t (m1.fin s) []
    simp [runL] at this
    exact this.symm
  | cons x xs ih =>
    simp only [runL]
    rw [runL_append m2 t (m1.step s x).2 (runL m1 (m1.step s x).1 xs)]
    simp only [comp] at *
    rw [← ih]

/-- L5: scan's per-step contract (state' = f state x, emit state') is the running left fold -/
def scanM (f : S → X → S) (seed : S) : Machine X S S where
  init := seed
  step := fun s x => (f s x, [f s x])
  fin := fun _ => []

theorem scan_is_running_fold (f : S → X → S) (i0 s : S) (xs : List X) :
    runL (scanM f i0) s xs = (List.range xs.length).map (fun i => (xs.take (i + 1)).foldl f s) := by
  induction xs generalizing s with
  | nil => simp [runL, scanM]
  | cons x xs ih =>
    simp only [runL, scanM, List.length_cons, List.singleton_append]
    rw [List.range_succ_eq_map]
    simp only [List.map_cons, List.map_map]
    congr 1
    have := ih (f s x)
    simp only [scanM] at this
    rw [this]
    apply List.map_congr_left
    intro i _
    simp [List.take, List.foldl]

/-- reduce: the state after all items is the left fold of the items -/
theorem feed_state_is_fold (f : S → X → S) (i0 s : S) (xs : List X) :
    (feed (scanM f i0) s xs).1 = xs.foldl f s := by
  induction xs generalizing s with
  | nil => simp [feed]
  | cons x xs ih =>
    simp only [feed, scanM, List.foldl]
    have := ih (f s x)
    simp only [scanM] at this
    exact this

end KT2
