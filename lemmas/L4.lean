namespace L4
variable {α : Type}

/-- frames at the front of `b` and the incomplete tail; `P` header length, `size` decodes a header -/
def frames (P : Nat) (size : List α → Nat) (b : List α) : List (List α) × List α :=
  if _h : 0 < P ∧ P + size (b.take P) ≤ b.length then
    ((b.drop P).take (size (b.take P)) :: (frames P size (b.drop (P + size (b.take P)))).1,
     (frames P size (b.drop (P + size (b.take P)))).2)
  else ([], b)
termination_by b.length
decreasing_by all_goals (simp [List.length_drop]; omega)

theorem frames_chunk (P : Nat) (size : List α → Nat) (c : List α) :
    ∀ (n : Nat) (b : List α), b.length = n →
      frames P size (b ++ c) =
        ((frames P size b).1 ++ (frames P size ((frames P size b).2 ++ c)).1, (frames P size ((frames P size b).2 ++ c)).2) := by
  intro n
  induction n using Nat.strongRecOn with
  | _ n ih =>
    intro b hb
    by_cases h : 0 < P ∧ P + size (b.take P) ≤ b.length
    · have hP : P ≤ b.length := by omega
      have htake : (b ++ c).take P = b.take P := by
        rw [List.take_append_of_le_length hP]
      have h' : 0 < P ∧ P + size ((b ++ c).take P) ≤ (b ++ c).length := by
        rw [htake, List.length_append]; omega
      rw [frames.eq_1 P size (b ++ c), dif_pos h', frames.eq_1 P size b, dif_pos h]
      simp only [htake]
      have hdrop : (b ++ c).drop (P + size (b.take P)) = b.drop (P + size (b.take P)) ++ c := by
        rw [List.drop_append_of_le_length h.2]
      have hfr : ((b ++ c).drop P).take (size (b.take P)) = (b.drop P).take (size (b.take P)) := by
        rw [List.drop_append_of_le_length hP, List.take_append_of_le_length]
        simp [List.length_drop]; omega
      rw [hdrop, hfr]
      have hlen : (b.drop (P + size (b.take P))).length < n := by
        simp [List.length_drop]; omega
      have := ih _ hlen (b.drop (P + size (b.take P))) rfl
      rw [this]
      simp
    · rw [frames.eq_1 P size b, dif_neg h]
      simp

theorem frames_append (P : Nat) (size : List α → Nat) (b c : List α) :
    frames P size (b ++ c) =
      ((frames P size b).1 ++ (frames P size ((frames P size b).2 ++ c)).1, (frames P size ((frames P size b).2 ++ c)).2) :=
  frames_chunk P size c b.length b rfl

/-- the remainder holds no complete frame -/
theorem rest_incomplete (P : Nat) (size : List α → Nat) (b : List α) :
    frames P size (frames P size b).2 = ([], (frames P size b).2) := by
  have h := frames_append P size b []
  simp only [List.append_nil] at h
  have h1 : (frames P size b).1 = (frames P size b).1 ++ (frames P size (frames P size b).2).1 := by
    have := congrArg Prod.fst h; simpa using this
  have h2 : (frames P size b).2 = (frames P size (frames P size b).2).2 := by
    have := congrArg Prod.snd h; simpa using this
  have h3 : (frames P size (frames P size b).2).1 = [] := by
    have := List.append_cancel_left (as := (frames P size b).1) (bs := []) (cs := (frames P size (frames P size b).2).1) (by simpa using h1)
    exact this.symm
  exact Prod.ext h3 h2.symm

/-- what the operator does over a whole subscription: per chunk, emit the frames of `acc ++ chunk`, keep the rest (the per-call
contract of `length_prefix.unframe.on_next`, discharged on the real code by rxv) -/
def run (P : Nat) (size : List α → Nat) : List α → List (List α) → List (List α) × List α
  | acc, [] => ([], acc)
  | acc, c :: cs => ((frames P size (acc ++ c)).1 ++ (run P size (frames P size (acc ++ c)).2 cs).1, (run P size (frames P size (acc ++ c)).2 cs).2)

/-- chunking independence: whatever the chunking, the operator emits the frames of the concatenated input -/
theorem run_eq_frames (P : Nat) (size : List α → Nat) (cs : List (List α)) :
    ∀ acc : List α, frames P size acc = ([], acc) → run P size acc cs = frames P size (acc ++ cs.flatten) := by
  induction cs with
  | nil => intro acc h; simp [run, h]
  | cons c cs ih =>
    intro acc _
    have hrest := rest_incomplete P size (acc ++ c)
    have := ih (frames P size (acc ++ c)).2 hrest
    simp only [run, List.flatten_cons, this]
    rw [← List.append_assoc, frames_append P size (acc ++ c) cs.flatten]

/-- encoder: header then payload, per item (the per-call contract of `length_prefix.frame.on_next`) -/
def enc (hdr : Nat → List α) : List (List α) → List α
  | [] => []
  | i :: is => hdr i.length ++ i ++ enc hdr is

/-- round trip: the frames of an encoded stream are the items, nothing remains -/
theorem frames_enc (P : Nat) (size : List α → Nat) (hdr : Nat → List α) (hP : 0 < P)
    (items : List (List α))
    (hlen : ∀ i ∈ items, (hdr i.length).length = P)
    (hsize : ∀ i ∈ items, size (hdr i.length) = i.length) :
    frames P size (enc hdr items) = (items, []) := by
  induction items with
  | nil =>
    rw [frames.eq_1]; simp [enc]; omega
  | cons i is ih =>
    have hl := hlen i (by simp)
    have hs := hsize i (by simp)
    have ih' := ih (fun j hj => hlen j (by simp [hj])) (fun j hj => hsize j (by simp [hj]))
    have htake : (enc hdr (i :: is)).take P = hdr i.length := by
      simp only [enc, List.append_assoc]
      rw [List.take_append_of_le_length (by omega)]
      rw [← hl]; exact List.take_length
    have hcond : 0 < P ∧ P + size ((enc hdr (i :: is)).take P) ≤ (enc hdr (i :: is)).length := by
      rw [htake, hs]; simp [enc, List.length_append, hl]; omega
    rw [frames.eq_1, dif_pos hcond, htake, hs]
    have hdropP : (enc hdr (i :: is)).drop P = i ++ enc hdr is := by
      simp only [enc, List.append_assoc]
      rw [← hl]; exact List.drop_left
    have hfr : ((enc hdr (i :: is)).drop P).take i.length = i := by
      rw [hdropP]; exact List.take_left
    have hdrop : (enc hdr (i :: is)).drop (P + i.length) = enc hdr is := by
      rw [← List.drop_drop, hdropP]; exact List.drop_left
    rw [hfr, hdrop, ih']

/-- C15 for length-prefix framing: encode the items, cut the byte stream anywhere, unframe: the items come back, no remainder -/
theorem roundtrip (P : Nat) (size : List α → Nat) (hdr : Nat → List α) (hP : 0 < P)
    (items : List (List α)) (chunks : List (List α))
    (hlen : ∀ i ∈ items, (hdr i.length).length = P)
    (hsize : ∀ i ∈ items, size (hdr i.length) = i.length)
    (hcut : chunks.flatten = enc hdr items) :
    run P size [] chunks = (items, []) := by
  have h0 : frames P size ([] : List α) = ([], []) := by
    rw [frames.eq_1]; simp; omega
  rw [run_eq_frames P size chunks [] h0, List.nil_append, hcut]
  exact frames_enc P size hdr hP items hlen hsize

/-! line framing -/

def joinnl (nl : α) : List (List α) → List α
  | [] => []
  | x :: xs => x ++ nl :: joinnl nl xs

theorem joinnl_append (nl : α) (xs ys : List (List α)) : joinnl nl (xs ++ ys) = joinnl nl xs ++ joinnl nl ys := by
  induction xs with
  | nil => simp [joinnl]
  | cons x xs ih => simp [joinnl, ih]

theorem split_unique (nl : α) : ∀ (x y r r' : List α), nl ∉ x → nl ∉ y → x ++ nl :: r = y ++ nl :: r' → x = y ∧ r = r' := by
  intro x
  induction x with
  | nil =>
    intro y r r' _ hy h
    cases y with
    | nil => simp at h; exact ⟨rfl, h⟩
    | cons b y' =>
      simp at h
      exact absurd (by simp [h.1]) hy
  | cons a x' ih =>
    intro y r r' hx hy h
    cases y with
    | nil =>
      simp at h
      exact absurd (by simp [h.1]) hx
    | cons b y' =>
      simp at h
      have hx' : nl ∉ x' := fun hm => hx (by simp [hm])
      have hy' : nl ∉ y' := fun hm => hy (by simp [hm])
      have := ih y' r r' hx' hy' h.2
      exact ⟨by rw [h.1, this.1], this.2⟩

/-- L4 (lines): a stream has one decomposition into newline-terminated newline-free lines plus a newline-free tail -/
theorem joinnl_unique (nl : α) : ∀ (xs ys : List (List α)) (a b : List α),
    (∀ x ∈ xs, nl ∉ x) → (∀ y ∈ ys, nl ∉ y) → nl ∉ a → nl ∉ b →
    joinnl nl xs ++ a = joinnl nl ys ++ b → xs = ys ∧ a = b := by
  intro xs
  induction xs with
  | nil =>
    intro ys a b _ _ ha _ h
    cases ys with
    | nil => simpa [joinnl] using h
    | cons y ys' =>
      simp [joinnl] at h
      exact absurd (by rw [h]; simp) ha
  | cons x xs' ih =>
    intro ys a b hxs hys ha hb h
    cases ys with
    | nil =>
      simp [joinnl] at h
      exact absurd (by rw [← h]; simp) hb
    | cons y ys' =>
      simp only [joinnl, List.append_assoc, List.cons_append] at h
      have hx : nl ∉ x := hxs x (by simp)
      have hy : nl ∉ y := hys y (by simp)
      have h1 := split_unique nl x y _ _ hx hy h
      have h2 := ih ys' a b (fun z hz => hxs z (by simp [hz])) (fun z hz => hys z (by simp [hz])) ha hb h1.2
      exact ⟨by rw [h1.1, h2.1], h2.2⟩

/-- the per-call contract of `line.unframe.on_next` (discharged on the real code): from remainder `acc` and chunk `c` the handler
emits lines `E` and keeps `acc'` with  acc ++ c = joinnl E ++ acc',  all of them newline-free -/
structure LineStep (nl : α) (acc c : List α) (E : List (List α)) (acc' : List α) : Prop where
  eqn : acc ++ c = joinnl nl E ++ acc'
  lines_free : ∀ x ∈ E, nl ∉ x
  rest_free : nl ∉ acc'

/-- a whole subscription: any sequence of calls each satisfying the per-call contract -/
inductive LineRun (nl : α) : List α → List (List α) → List (List α) → List α → Prop
  | nil (acc) : LineRun nl acc [] [] acc
  | cons {acc c E acc' cs O accF} : LineStep nl acc c E acc' → LineRun nl acc' cs O accF → LineRun nl acc (c :: cs) (E ++ O) accF

theorem lineRun_inv (nl : α) {acc cs O accF} (h : LineRun nl acc cs O accF) (hacc : nl ∉ acc) :
    acc ++ cs.flatten = joinnl nl O ++ accF ∧ (∀ x ∈ O, nl ∉ x) ∧ nl ∉ accF := by
  induction h with
  | nil acc => simp [joinnl, hacc]
  | cons hs _ ih =>
    have := ih hs.rest_free
    refine ⟨?_, ?_, this.2.2⟩
    · rw [List.flatten_cons, ← List.append_assoc, hs.eqn, List.append_assoc, this.1, joinnl_append, List.append_assoc]
    · intro x hx
      rcases List.mem_append.mp hx with h | h
      · exact hs.lines_free x h
      · exact this.2.1 x h

/-- C15 for line framing: frame the lines (each followed by a newline), cut the stream anywhere, unframe: exactly the lines come back
and the kept remainder is the unterminated tail (emitted on completion iff non-empty, by the on_completed contract) -/
theorem line_roundtrip (nl : α) (lines : List (List α)) (tail : List α) (chunks : List (List α)) (O : List (List α)) (accF : List α)
    (hl : ∀ x ∈ lines, nl ∉ x) (ht : nl ∉ tail)
    (hcut : chunks.flatten = joinnl nl lines ++ tail)
    (hrun : LineRun nl [] chunks O accF) : O = lines ∧ accF = tail := by
  have h := lineRun_inv nl hrun (by simp)
  simp only [List.nil_append] at h
  exact joinnl_unique nl O lines accF tail h.2.1 hl h.2.2 ht (by rw [← h.1, hcut])

end L4
