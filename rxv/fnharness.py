"""Verification of plain functions / methods / closures against contracts (DESIGN 3.3, non-handler part).

A FnCase prepares a symbolic pre-state, names the real function (located in the AST), and gives requires / ensures.
"""
import time
import traceback
import z3
from z3 import And, Or, Not, BoolVal, Const, simplify, is_true
from .sorts import *
from .values import *
from .engine import Engine, Path, Unsupported, Obligation
from .world import World, TRUSTED_USED
from .harness import fn_info, has_quantifier, discharge_all, Report
from . import solve


class FnCase:
    name = 'case'
    loop_contracts = None
    arith_hook = None
    callee_contracts = None

    def setup(self, eng, p):
        """-> (function SV, args, kws); may stash symbols on self"""
        raise NotImplementedError

    def requires(self):
        return []

    def ensures(self, q, ret):
        """-> [(name, z3 Bool)] for a path that returned normally"""
        return []

    def on_exception(self, q):
        """goal that makes an escaping exception acceptable on path q (default: never)"""
        return BoolVal(False)

    def replay(self, model):
        return None


def run_cases(unit_name, cases, opts, world=None):
    w = world or World()
    pid = opts.get('pid', 'C??')
    rep = Report(unit_name)
    t0 = time.time()
    replays = {}
    for case in cases:
        where = f'{pid}/{unit_name}/{case.name}'
        eng = Engine(w)
        eng.where = where
        eng.loop_contracts = dict(case.loop_contracts or {})
        eng.arith_hook = case.arith_hook
        eng.callee_contracts = dict(case.callee_contracts or {})
        try:
            p = Path(); p.trace = Const('trace0', Trace)
            f, args, kws = case.setup(eng, p)
            if getattr(case, 'path', None) is not None:
                p = case.path
            if isinstance(f, Partial) and isinstance(f.fn, Closure):
                rep.functions.append(fn_info(w, f.fn))
            if isinstance(f, Closure):
                rep.functions.append(fn_info(w, f))
            req = list(case.requires())
            eng.base_hyps = req
            eng.prune_hyps = [r for r in req if not has_quantifier(r)]
            s = z3.Solver(); s.set('timeout', 5000); s.add(*eng.prune_hyps)
            r = s.check()
            rep.covers.append((f'{where}/requires.satisfiable', str(r)))
            if r == z3.unsat:
                rep.undecided.append((where, 'requires is unsatisfiable (vacuous contract)')); continue
            res = eng.call(p, f, list(args), dict(kws))
            rep.paths += len(res)
            nlive = 0
            for pi, (q, ret) in enumerate(res):
                pw = f'{where}/path{pi}'
                if q.exc is not None:
                    g = case.on_exception(q)
                    ob = Obligation(f'{pw}/no_unexpected_exception', req + q.pc, g, 'safety', where, path=q)
                    ob.extra['case'] = case
                    rep.obligations.append(ob); continue
                nlive += 1
                for ent in case.ensures(q, ret):
                    name, goal = ent[0], ent[1]
                    eopts = ent[2] if len(ent) > 2 else {}
                    hy = req + q.pc + list(eopts.get('defs', []))
                    for hi, hnt in enumerate(eopts.get('hints', [])):
                        ob = Obligation(f'{pw}/ensures.{name}.hint{hi}', hy, hnt, 'ensures', where, path=q); ob.extra['case'] = case
                        rep.obligations.append(ob)
                    hy = hy + list(eopts.get('hints', []))
                    if z3.is_expr(goal) and is_true(simplify(goal)):
                        ob = Obligation(f'{pw}/ensures.{name}', [], BoolVal(True), 'ensures', where, path=q)
                        ob.result = 'proved'; ob.backend = 'simplify'
                    else:
                        ob = Obligation(f'{pw}/ensures.{name}', hy, goal, 'ensures', where, path=q)
                    ob.extra['case'] = case
                    rep.obligations.append(ob)
            for ob in eng.obligations:
                ob.hyps = req + ob.hyps
                ob.extra['case'] = case
            rep.obligations.extend(eng.obligations)
            if nlive == 0 and not any(o.kind == 'safety' for o in rep.obligations if o.where == where):
                rep.undecided.append((where, 'no path returned (vacuous)'))
        except Unsupported as u:
            rep.undecided.append((where, f'outside the verified subset: {u}'))
        except Exception as ex:
            rep.undecided.append((where, f'checker error: {type(ex).__name__}: {ex}\n{traceback.format_exc(limit=8)}'))
    rep.symexec_s = time.time() - t0
    discharge_all(rep, timeout_ms=opts.get('timeout_ms', 10000), recheck=(opts.get('tier') == 'thorough'))
    from .units import ob_dict, model_text
    violations = []
    # An obligation the solvers leave open (satisfiable string / sequence queries with spec folds rarely get a model) is still only
    # `undecided` -- unless the contract can search the real function natively for an input on which it disagrees with the contract's
    # own clauses (case.search_on_unknown): then the open obligation is reported as refuted, with that input.  On code that satisfies the
    # contract the search finds nothing and the obligation stays undecided, so this can never turn a harmless change into an alarm.
    searched = {}
    for o in rep.obligations:
        case = o.extra.get('case')
        if o.result == 'unknown' and case is not None and getattr(case, 'search_on_unknown', False):
            if id(case) not in searched:
                try: searched[id(case)] = case.replay(None)
                except Exception as ex: searched[id(case)] = {'status': 'replay-error', 'error': f'{type(ex).__name__}: {ex}'}
            rp = searched[id(case)]
            if rp and rp.get('status') == 'reproduced':
                o.result = 'refuted'; o.backend = (o.backend or '') + ' unknown; failing input found by native search of the contract'
                violations.append({'obligation': o.name, 'replay': dict(rp, found_by='native search after the solvers returned unknown'), 'model': None})
    for o in rep.obligations:
        if o.result == 'refuted' and o.model is None and any(v['obligation'] == o.name for v in violations):
            continue
        if o.result == 'refuted':
            case = o.extra.get('case')
            rp = None
            try:
                rp = case.replay(o.model) if (case is not None and o.model is not None) else None
            except Exception as ex:
                rp = {'status': 'replay-error', 'error': f'{type(ex).__name__}: {ex}', 'trace': traceback.format_exc(limit=6)}
            if rp is None:
                rp = {'status': 'no-replay', 'reason': 'no function-level replay defined for this contract'}
            if (o.extra.get('needs_validation') or (getattr(case, 'validate_refutations', False) and '/ensures.' in o.name)) and rp.get('status') != 'reproduced':
                o.result = 'unknown'; o.backend = (o.backend or '') + ' candidate model not reproduced'
                continue
            if rp.get('status') != 'reproduced' and getattr(case, 'e2e', None) is not None:
                # no function-level reproduction: look for a failing real input with a small end-to-end run of the operator (this only
                # ever ADDS an input to a refutation, or -- for contracts on internal representations, below -- is required for it to count)
                try:
                    found = case.e2e()
                except Exception as ex:
                    found = None; rp['e2e_error'] = f'{type(ex).__name__}: {ex}'
                if found:
                    rp = dict(rp, status='reproduced', end_to_end=found)
            if getattr(case, 'internal_representation', False) and rp.get('status') != 'reproduced':
                # the contract pins an internal representation (accumulator layout, pipeline shape of an rx.pipe-defined operator): a
                # refactoring can change it without changing any output.  Such a refutation is reported as a violation only together
                # with a failing real input (the bounded tier of the same check); alone it is an undecided obligation.
                o.result = 'unknown'; o.backend = (o.backend or '') + ' refuted, but the clause is about an internal representation: needs a failing input'
                continue
            violations.append({'obligation': o.name, 'replay': rp, 'model': model_text(o.model) if o.model is not None else None})
    return {
        'unit': unit_name, 'kind': 'deductive', 'functions': rep.functions,
        'obligations': [ob_dict(o) for o in rep.obligations],
        'undecided': [{'where': a, 'reason': b} for a, b in rep.undecided] +
                     [{'where': o.name, 'reason': 'solver returned unknown (z3 and cvc5)'} for o in rep.obligations if o.result == 'unknown'],
        'covers': rep.covers, 'violations': violations, 'trusted': sorted(TRUSTED_USED),
        'stats': {'paths': rep.paths, 'symexec_s': round(rep.symexec_s, 3), 'solve_s': round(rep.solve_s, 3)},
    }
