"""Handler-level contract of the group-index maps of the store (mapper states; proved on MemoryStore in C14):

  per mapper state and slot index j:  dom[j] : Val -> Bool   idx[j] : Val -> Int  (keyed by canon(key), i.e. modulo ==)
                                       order[j] : Seq(Val)  the key objects in insertion order
  allocator ghost: in_use : Int -> Bool  (indices handed out and not released)

  get_map(s, k, g)   returns STATE_NOTSET if canon(g) not in dom[k0] else idx[k0][canon g]
  add_map(s, k, g)   returns an index i with  i >= 0 and not in_use[i];  dom/idx/order[k0] updated, in_use[i] := true
  del_map(s, k, g)   no effect on the map (as implemented and proved in C14)
  iterate_map(s, k)  yields order[k0]
"""
import z3
from z3 import (And, Or, Not, Implies, If, IntVal, BoolVal, Store, Select, K, Const, IntSort, BoolSort, ArraySort, Concat, Unit,
                Length, Empty)
from .sorts import *
from .values import *
from .engine import Unsupported, fresh


def map_arrays(p, st):
    ex = p.store.extra
    key = ('map', st.ord)
    if key not in ex:
        raise Unsupported('mapper state without pre-state')
    return ex[key]


def init_map_prestate(p, st, tag=''):
    dom = Const(f'dom{st.ord}{tag}', ArraySort(IntSort(), ArraySort(Val, BoolSort())))
    idx = Const(f'idx{st.ord}{tag}', ArraySort(IntSort(), ArraySort(Val, IntSort())))
    order = Const(f'order{st.ord}{tag}', ArraySort(IntSort(), ValSeq))
    in_use = Const(f'in_use{st.ord}{tag}', ArraySort(IntSort(), BoolSort()))
    p.store.extra[('map', st.ord)] = (dom, idx, order, in_use)
    return dom, idx, order, in_use


def fresh_map(eng, p, st, j):
    dom, idx, order, in_use = map_arrays(p, st)
    p.store.extra[('map', st.ord)] = (Store(dom, j, K(Val, BoolVal(False))), idx, Store(order, j, Empty(ValSeq)), in_use)


def map_call(eng, p, o, name, args, kws):
    from .storemodel import state_of
    st = state_of(eng, p, args[0])
    if st.dtype != 'mapper':
        eng.oblige(p, 'store.map_on_mapper_state', BoolVal(False), 'type')
        raise Unsupported('map operation on a non-mapper state')
    k = eng.to_key(p, args[1]); j = Key.h(k)
    m = p.store.marker[st.ord]
    eng.oblige(p, f'store.{name}.slot_present', Select(m, j) == M_SET, 'pre')
    dom, idx, order, in_use = map_arrays(p, st)
    eng.need_canon = True
    if name == 'iterate_map':
        return [(p, Host('seqiter', seq=Select(order, j), ek='val'))]
    g0 = eng.to_val(p, args[2])
    g = canon(g0)
    has = Select(Select(dom, j), g)
    if name in ('get_map', 'del_map'):
        q = p.fork()
        q.pc.append(Not(has)); p.pc.append(has)
        out = []
        if eng.feasible(q.pc): out.append((q, Sentinel(SENT_NOTSET)))
        if eng.feasible(p.pc): out.append((p, SInt(Select(Select(idx, j), g))))
        return out
    if name == 'add_map':
        i = fresh('newindex', IntSort())
        p.pc.append(And(i >= 0, Not(Select(in_use, i))))
        p.store.extra[('map', st.ord)] = (Store(dom, j, Store(Select(dom, j), g, BoolVal(True))),
                                          Store(idx, j, Store(Select(idx, j), g, i)),
                                          Store(order, j, If(has, Select(order, j), Concat(Select(order, j), Unit(g0)))),
                                          Store(in_use, i, BoolVal(True)))
        p.ghost.setdefault('new_indices', []).append(i)
        return [(p, SInt(i))]
    raise Unsupported(name)
