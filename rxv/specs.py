"""Executable specifications, transcribed from the property statements (DESIGN 4.2).  They are the oracles of the bounded
tier and of the end-to-end confirmation of counter-models; they never count as proof."""
import itertools


def run_mux(items, *ops_):
    """items through with_memory_store(pipeline) on the real code -> list of emitted items"""
    import rx
    import rxsci as rs
    out = []
    err = []
    try:
        rx.from_(list(items)).pipe(rs.state.with_memory_store(rx.pipe(*ops_))).subscribe(on_next=out.append, on_error=err.append)
    except Exception as ex:          # an exception escaping the pipeline is an error outcome, not a crash of the check
        return ('ERROR', f'raised {type(ex).__name__}: {ex}')
    if err:
        return ('ERROR', repr(err[0]))
    return out


def run_plain(items, *ops_):
    import rx
    out = []
    err = []
    try:
        rx.from_(list(items)).pipe(*ops_).subscribe(on_next=out.append, on_error=err.append)
    except Exception as ex:
        return ('ERROR', f'raised {type(ex).__name__}: {ex}')
    if err:
        return ('ERROR', repr(err[0]))
    return out


def roll_spec(items, w, s):
    """C05: a window opens at items 0, s, 2s, ...; each receives the next w consecutive items; windows close in opening order"""
    items = list(items)
    return [items[a:a + w] for a in range(0, len(items), s)]


def split_spec(items, pred):
    out = []
    for x in items:
        if out and pred(out[-1][-1]) == pred(x):
            out[-1].append(x)
        else:
            out.append([x])
    return out


def group_by_spec(items, key):
    groups = {}
    for x in items:
        groups.setdefault(key(x), []).append(x)
    return list(groups.values())


def time_split_spec(items, tm, active, inactive, closing, include):
    wins = []
    start = last = None
    cur = None
    for x in items:
        t = tm(x)
        first = cur is None
        if first:
            cur = []; wins.append(cur); start = last = t
        expired = (active is not None and t >= start + active) or (inactive is not None and t >= last + inactive)
        if expired:
            cur = [x]; wins.append(cur); start = last = t
        elif closing is not None and closing(x):          # "accepts": any truthy result
            if include:
                # the window that follows a closing item opens at once, with the closing item's timestamp as its reference (the property's
                # "reference timestamp ... of the closing item that preceded it"): it may stay empty
                cur.append(x); cur = []; wins.append(cur)
            elif first:
                cur.append(x)                             # no window is closed before the first item of a key
            else:
                cur = [x]; wins.append(cur)
            start = last = t
        else:
            cur.append(x); last = t
    return wins


def batch_spec(items, n):
    items = list(items)
    return [items[i:i + n] for i in range(0, len(items), n)]


def lag_spec(items, n):
    items = list(items)
    return [(items[max(0, i - n)], x) for i, x in enumerate(items)]


def distinct_until_changed_spec(items, key=lambda i: i):
    out = []
    prev = object()
    first = True
    for x in items:
        k = key(x)
        if first or k != prev:
            out.append(x)
        prev = k; first = False
    return out


def distinct_spec(items, key=lambda i: i):
    seen = []
    out = []
    for x in items:
        k = key(x)
        if k not in seen:
            seen.append(k); out.append(x)
    return out
