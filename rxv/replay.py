"""Function-level replay of a refuted obligation on the real code (DESIGN 3.6).

The solver model is turned into concrete python values (parameters, user callbacks as lookup tables, event, pre-state
of the store); the *real* operator is built from /repo, its real handler is captured through a fake source, a real
StoreManager(MemoryStore) is driven into the pre-state through the store API, the event is delivered, and the very same
`ensures` clauses are evaluated on what the real code emitted and left in the store."""
import fractions
import importlib
import itertools
import traceback
import z3
from z3 import (And, Or, Not, IntVal, BoolVal, RealVal, StringVal, Const, Concat, Unit, Empty, Store, K, Select, Array,
                IntSort, simplify, is_true, is_false, Solver, sat, unsat)
from .sorts import *
from .values import *
from .engine import Path, Unsupported
from .harness import Ctx


class Opaque:
    """python stand-in for an opaque object of the model; == follows the model's equivalence classes"""
    def __init__(self, term, cls, selfne=False, truthy=True):
        self.term = term; self.cls = cls; self.selfne = selfne       # selfne: the model says this object is != to itself (like NaN)
        self.truthy = truthy                                         # the model's obj_truthy: an opaque object may be falsy (an empty dict ...)
    def __bool__(self): return self.truthy
    def __eq__(self, o): return isinstance(o, Opaque) and o.cls == self.cls and not self.selfne and not o.selfne
    def __ne__(self, o): return not self.__eq__(o)
    def __hash__(self): return hash(('opaque', self.cls))
    def __repr__(self): return f'<obj {self.term} ~{self.cls}>'
    def __deepcopy__(self, memo): return self          # as a value, a deep copy of an opaque object is that object
    def __copy__(self): return self


class UserError(Exception):
    def __init__(self, term, origin=None): super().__init__(str(term)); self.term = term; self.origin = origin


class Concretizer:
    def __init__(self, model):
        self.m = model
        self.fresh_objs = itertools.count()
        self.py_terms = {}        # id(python object) -> (object, term)
        self.by_term = {}         # str(term) -> python object: one object per opaque / NaN model value, so `is` follows the model

    def ev(self, t):
        return self.m.eval(t, model_completion=True)

    def key(self, t):
        t = self.ev(t)
        out = []
        while t.decl().eq(Key.KK):
            out.append(self.ev(t.arg(0)).as_long()); t = self.ev(t.arg(1))
        def nest(xs):
            return (xs[0],) if len(xs) == 1 else (xs[0], nest(xs[1:]))
        return nest(out) if out else (0,)

    def val(self, t):
        t = self.ev(t)
        d = t.decl()
        if d.name() == 'VNone': return None
        if d.eq(V.VBool): return is_true(t.arg(0))
        if d.eq(V.VInt):
            v = t.arg(0).as_long()
            return int(str(v))         # a new int object (identity differs from other equal big ints)
        if d.eq(V.VReal):
            a = t.arg(0)
            if z3.is_algebraic_value(a): a = a.approx(20)
            if is_true(self.ev(nan_r(t.arg(0)))):
                # the model marks this float as not equal to itself: a NaN (one object per model value)
                if str(t) not in self.by_term:
                    o = float('nan'); self.by_term[str(t)] = o; self.py_terms[id(o)] = (o, t)
                return self.by_term[str(t)]
            return float(fractions.Fraction(a.numerator_as_long(), a.denominator_as_long()))
        if d.eq(V.VStr): return t.arg(0).as_string()
        if d.eq(V.VBytes): return self.bytes_(t.arg(0))
        if d.name() == 'VNil': return ()
        if d.eq(V.VCons):
            items = []
            while t.decl().eq(V.VCons):
                items.append(self.val(t.arg(0))); t = self.ev(t.arg(1))
            return tuple(items)
        if d.eq(V.VKey): return self.key(t.arg(0))
        if d.eq(V.VSent):
            import rxsci as rs
            return [rs.state.markers.STATE_NOTSET, rs.state.markers.STATE_SET, rs.state.markers.STATE_CLEARED][t.arg(0).as_long() % 3]
        if d.eq(V.VObj):
            cls = str(self.ev(ocanon(t.arg(0))))
            if str(t) not in self.by_term:
                o = Opaque(t, cls, selfne=is_true(self.ev(selfne_o(t.arg(0)))), truthy=is_true(self.ev(obj_truthy(t.arg(0))))); self.by_term[str(t)] = o; self.py_terms[id(o)] = (o, t)
            return self.by_term[str(t)]
        if d.eq(V.VRef):
            o = Opaque(t, 'ref' + str(t.arg(0))); self.py_terms[id(o)] = (o, t); return o
        raise Unsupported(f'cannot concretize {t}')

    def bytes_(self, t):
        t = self.ev(t)
        out = bytearray()
        def walk(x):
            if z3.is_app(x) and x.decl().kind() == z3.Z3_OP_SEQ_UNIT:
                out.append(self.ev(x.arg(0)).as_long())
            elif z3.is_app(x) and x.decl().kind() == z3.Z3_OP_SEQ_CONCAT:
                for c in x.children(): walk(c)
            elif z3.is_app(x) and x.decl().kind() == z3.Z3_OP_SEQ_EMPTY:
                pass
            else:
                raise Unsupported(f'bytes model {x}')
        walk(t); return bytes(out)

    # python -> term
    def term(self, x):
        if id(x) in self.py_terms and self.py_terms[id(x)][0] is x: return self.py_terms[id(x)][1]
        if x is None: return V.VNone
        if isinstance(x, bool): return V.VBool(BoolVal(x))
        if isinstance(x, int): return V.VInt(IntVal(x))
        if isinstance(x, float):
            return V.VReal(RealVal(str(fractions.Fraction(x))))
        if isinstance(x, str): return V.VStr(StringVal(x))
        if isinstance(x, bytes): return V.VBytes(bytes_term(x))
        if isinstance(x, tuple) and not hasattr(x, '_fields'): return tup(*[self.term(e) for e in x])
        if isinstance(x, UserError): return x.term
        import rxsci as rs
        mk = rs.state.markers
        for k, s in enumerate((mk.STATE_NOTSET, mk.STATE_SET, mk.STATE_CLEARED)):
            if x is s: return V.VSent(IntVal(k))
        # any other object produced by the real code: a fresh opaque value
        o = V.VObj(Const(f'realobj!{next(self.fresh_objs)}', U))
        self.py_terms[id(x)] = (x, o)
        return o

    def key_term(self, k):
        if len(k) == 1: return Key.KK(IntVal(k[0]), Key.KNil)
        return Key.KK(IntVal(k[0]), self.key_term(k[1]))

    def user_fn(self, name, log, ret=None):
        conc = self
        def f(*args):
            targs = [conc.term(a) for a in args]
            log.append((name, tuple(targs)))
            from z3 import Function, BoolSort
            rz = Function(f'raises_{name}', *([Val] * len(targs)), BoolSort())
            if is_true(conc.ev(rz(*targs))):
                log[-1] = (name, tuple(targs), 'raised')
                raise UserError(conc.ev(Function(f'exc_{name}', *([Val] * len(targs)), Val)(*targs)), origin=name)
            fn = Function(f'u_{name}', *([Val] * len(targs)), Val)
            return conc.val(fn(*targs))
        f.__name__ = name
        return f

    def fresh_fn(self, name, log):
        conc = self
        counter = itertools.count()
        def f():
            from z3 import Function
            log.append((name, ()))
            return conc.val(Function(f'fresh_{name}', IntSort(), Val)(IntVal(next(counter))))
        return f


def bytes_term(b):
    if not b: return Empty(Bytes)
    if len(b) == 1: return Unit(z3.BitVecVal(b[0], 8))
    return Concat(*[Unit(z3.BitVecVal(c, 8)) for c in b])


def real_event_term(conc, e, plain=False):
    import rxsci as rs
    if plain:
        return Ev.Item(conc.term(e))
    if type(e) is rs.OnCreateMux: return Ev.Create(conc.key_term(e.key))
    if type(e) is rs.OnNextMux: return Ev.Next(conc.key_term(e.key), conc.term(e.item))
    if type(e) is rs.OnCompletedMux: return Ev.Completed(conc.key_term(e.key))
    if type(e) is rs.OnErrorMux: return Ev.Error(conc.key_term(e.key), conc.term(e.error))
    if type(e) is rs.state.ProbeStateTopology: return Ev.Probe
    return Ev.Other(conc.term(e))


def concrete_arg(conc, a, log):
    if isinstance(a, UserFn):
        return conc.fresh_fn(a.name, log) if a.ret == 'fresh' else conc.user_fn(a.name, log)
    if isinstance(a, SInt): return conc.ev(a.t).as_long()
    if isinstance(a, SBool): return is_true(conc.ev(a.t))
    if isinstance(a, SReal):
        v = conc.ev(a.t); return float(fractions.Fraction(v.numerator_as_long(), v.denominator_as_long()))
    if isinstance(a, SVal): return conc.val(a.t)
    if isinstance(a, tuple): return tuple(concrete_arg(conc, x, log) for x in a)
    if a is None or isinstance(a, (bool, int, float, str, bytes)): return a
    raise Unsupported(f'cannot concretize parameter {a!r}')


def replay_operator(world, run, ob, opts):
    """-> dict describing the native replay; status in {'reproduced','not-reproduced','replay-error'}"""
    import rx
    import rxsci as rs
    from rx.subject import Subject
    c = run.contract
    ctx = None
    for key, cx in getattr(run, 'ctxs', {}).items():
        if ob.name.startswith(key + '/'):
            ctx = cx
    if ctx is None or ob.model is None:
        return {'status': 'no-replay', 'reason': 'obligation is not a handler case obligation or has no model'}
    conc = Concretizer(ob.model)
    cfg = ctx.cfg
    log = []
    args = [concrete_arg(conc, a, log) for a in cfg.get('args', [])]
    kws = {k: concrete_arg(conc, a, log) for k, a in cfg.get('kws', {}).items()}
    mod = importlib.import_module(c.module)
    op = getattr(mod, c.factory)(*args, **kws)
    outer = None
    if isinstance(op, tuple):
        op, outer = op
    captured = {}

    def subscribe(observer, scheduler=None):
        captured['observer'] = observer
        return rx.disposable.Disposable()
    src = rs.MuxObservable(subscribe)
    emitted = []
    out_obs = op(src)
    out_obs.subscribe(on_next=lambda e: emitted.append((OUT, e)), on_error=lambda e: emitted.append((OUT, ('ERR', e))),
                      on_completed=lambda: emitted.append((OUT, ('DONE',))))
    if outer is not None:
        outer.subscribe(on_next=lambda e: emitted.append((OUTER, e)))
    handler = captured['observer']
    topo = rs.state.StoreManager(store_factory=rs.state.MemoryStore)
    topology = rs.state.state_topology.StateTopology()
    handler.on_next(rs.state.ProbeStateTopology(topology))
    topo.set_topology(topology)
    store = topo
    key = conc.key(ctx.k)
    k0 = key[0]
    # pre-state of the slots the contract talks about
    idxs_by_state = {st.ord: [k0] for st in ctx.states}
    if hasattr(c, 'replay_indices'):
        ri = c.replay_indices(ctx, conc)
        idxs_by_state = ri if isinstance(ri, dict) else {st.ord: list(ri) for st in ctx.states}
    pre = {}
    for st in ctx.states:
        for idx in idxs_by_state[st.ord]:
            m = conc.ev(Select(ctx.m0[st.ord], IntVal(idx))).as_long()
            if m in (M_NOTSET, M_SET):
                kk = (idx, key) if idx != k0 else key
                store.add_key(st.ord, kk)
                if m == M_SET:
                    sel = Select(ctx.v0[st.ord], IntVal(idx))
                    if st.dtype in ('int', 'uint'): v = conc.ev(V.i(sel)).as_long()
                    elif st.dtype == 'bool': v = is_true(conc.ev(V.b(sel)))
                    elif st.dtype == 'float': v = conc.val(V.VReal(V.r(sel)))
                    else: v = conc.val(sel)
                    pre[(st.ord, idx)] = ('SET', repr(v))
                    store.set_state(st.ord, kk, v)
                else:
                    if store.get_state(st.ord, kk) is not rs.state.markers.STATE_NOTSET:
                        # a default value makes NOTSET unreachable: the model's pre-state is not realisable
                        pre[(st.ord, idx)] = ('NOTSET-unrealisable',)
                    else:
                        pre[(st.ord, idx)] = ('NOTSET',)
            else:
                pre[(st.ord, idx)] = ('ABSENT',)
    emitted.clear(); log.clear()
    case = ctx.case
    item = conc.val(ctx.x) if case == 'Next' else None
    if case == 'Create': ev = rs.OnCreateMux(key, store)
    elif case == 'Next': ev = rs.OnNextMux(key, item, store)
    elif case == 'Completed': ev = rs.OnCompletedMux(key, store)
    elif case == 'Error':
        ev = rs.OnErrorMux(key, conc.val(ctx.err), store)
    else:
        ev = object()
        conc.py_terms[id(ev)] = (ev, ctx.eng.to_val(Path(), ctx.foreign))
    exc = None
    try:
        handler.on_next(ev)
    except Exception as ex:   # noqa
        exc = ex
    # ---- evaluate the ensures clauses on the real post-state
    q = Path()
    parts = []
    for ch, e in emitted:
        if isinstance(e, tuple) and e and e[0] == 'ERR': t = Ev.Err(conc.term(e[1]))
        elif isinstance(e, tuple) and e and e[0] == 'DONE': t = Ev.Done
        else: t = real_event_term(conc, e, plain=(ch == OUT and not isinstance(out_obs, rs.MuxObservable)))
        parts.append(Unit(Em.Em(IntVal(ch), t)))
    q.trace = Concat(ctx.trace0, *parts) if parts else ctx.trace0
    if len(parts) == 1:
        q.trace = Concat(ctx.trace0, parts[0])
    post = {}
    for st in ctx.states:
        m1, v1 = ctx.m0[st.ord], ctx.v0[st.ord]
        inner = store.get_store().states[st.ord]
        for idx in idxs_by_state[st.ord]:
            if idx < len(inner.state):
                mk = inner.state[idx]
                m1 = Store(m1, IntVal(idx), IntVal(mk))
                if mk == M_SET:
                    val = inner.values[idx]
                    if st.dtype == 'bool': val = bool(val)
                    v1 = Store(v1, IntVal(idx), conc.term(val))
                    post[(st.ord, idx)] = ('SET', repr(val))
                else:
                    post[(st.ord, idx)] = ('NOTSET',) if mk == M_NOTSET else ('ABSENT',)
            else:
                m1 = Store(m1, IntVal(idx), IntVal(M_ABSENT)); post[(st.ord, idx)] = ('ABSENT',)
        q.store.marker[st.ord] = m1; q.store.value[st.ord] = v1
    q.calls = list(log)
    q.ghost['stores_emitted'] = []
    failed = []
    if isinstance(exc, UserError):
        q.exc = ExcV('UserError', (), origin=exc.origin, term=exc.term)      # the callback's own exception escaped the handler
    if exc is not None and not isinstance(exc, UserError):
        failed.append(('no_exception_escapes', f'{type(exc).__name__}: {exc}'))
    try:
        clauses = c.ensures(ctx, q) if exc is None or isinstance(exc, UserError) else []
    except Exception as ex:
        clauses = []
        failed.append(('clause-evaluation', f'{type(ex).__name__}: {ex}'))
    from .pymodels import copy_of as _copy_of
    from z3 import Var as _Var
    for ent in clauses:
        name, goal = ent[0], ent[1]
        if name.startswith('calls') or name.startswith('store_forwarded'):
            continue            # library-internal calls (deepcopy) are not observable from outside: not evaluated natively
        goal = z3.substitute_funs(goal, (_copy_of, _Var(0, Val)))       # on values, a deep copy is the value itself
        val = conc.m.eval(goal, model_completion=True)
        val = simplify(val)
        if is_false(val):
            failed.append((name, 'false on the real post-state'))
        elif not is_true(val):
            s = Solver(); s.set('timeout', 5000)
            for d in conc.m.decls():
                pass
            s.add(Not(goal))
            # pin every pre-state symbol to its model value
            for d in conc.m.decls():
                if d.arity() == 0:
                    try: s.add(d() == conc.m[d])
                    except Exception: pass
            if s.check() == sat:
                failed.append((name, 'false on the real post-state (solver-evaluated)'))
    rp = {
        'status': 'reproduced' if failed else 'not-reproduced',
        'case': case, 'config': cfg['name'],
        'parameters': [repr(a) for a in args],
        'event': repr(ev) if case != 'Other' else 'foreign object',
        'pre_state': {f'state{o}[{i}]': v for (o, i), v in pre.items()},
        'emitted': [(ch, repr(e)) for ch, e in emitted],
        'post_state': {f'state{o}[{i}]': v for (o, i), v in post.items()},
        'user_calls': [(c_[0], [str(t) for t in c_[1]]) + (('raised',) if len(c_) > 2 else ()) for c_ in log],
        'failed_clauses': failed,
    }
    if any('unrealisable' in v[0] for v in pre.values()):
        rp['status'] = 'not-reproduced'; rp['note'] = 'model pre-state not reachable through the store API'
    return rp
