"""Bounded stand-ins / end-to-end confirmations for the multiplexing properties C01-C14 (DESIGN 4.6).
Real pipelines from /repo are run on small, explicitly enumerated scopes and compared with the executable specs of rxv/specs.py.
Everything here is labelled `bounded` in the evidence and is never counted as proved."""
import itertools
import math
import random
import time
from fractions import Fraction

from ..specs import *


def first_new_failure(r):
    """first failure of a bounded result that is not a named known case (those carry a case_id and confirm nothing new)"""
    return next((f for f in (r.get('failures') or []) if not (isinstance(f, dict) and f.get('case_id'))), None)


def result(unit, scope, evals, distinct, failures, exhaustive, t0):
    return {'unit': unit, 'kind': 'bounded', 'scope': scope, 'evaluations': evals, 'distinct_nontrivial': distinct,
            # failures that carry a case id (candidates for known_findings.json) never crowd out the others
            'failures': [f for f in failures if not (isinstance(f, dict) and f.get('case_id'))][:5] + [f for f in failures if isinstance(f, dict) and f.get('case_id')][:16],
            'exhaustive': exhaustive, 'obligations': [], 'undecided': [], 'functions': [], 'violations': [],
            'trusted': [], 'wall_s': round(time.time() - t0, 2)}


def _imports():
    import rx
    import rx.operators as ops
    import rxsci as rs
    return rx, ops, rs


# ---------------------------------------------------------------------------------------------- pipelines for C01 / C02 / C11
def dual_ops(rs, rx):
    """(name, factory) of dual-mode operators with deterministic small parameters; factories build a fresh operator each time"""
    return [
        ('map(+1)', lambda: rs.ops.map(lambda i: i + 1)),
        ('map(*2)', lambda: rs.ops.map(lambda i: i * 2)),
        ('filter(odd)', lambda: rs.ops.filter(lambda i: i % 2 == 1)),
        ('filter(truthy int)', lambda: rs.ops.filter(lambda i: i % 3)),
        ('scan(sum)', lambda: rs.ops.scan(lambda a, i: a + i, 0.0)),     # float seed: results keep the seed's type (C01 precondition)
        ('count()', lambda: rs.ops.count()),
        ('count(reduce)', lambda: rs.ops.count(reduce=True)),
        ('sum()', lambda: rs.math.sum()),
        ('sum(reduce)', lambda: rs.math.sum(reduce=True)),
        ('max()', lambda: rs.math.max()),
        ('min(reduce)', lambda: rs.math.min(reduce=True)),
        ('mean()', lambda: rs.math.mean()),
        ('take(2)', lambda: rs.ops.take(2)),
        ('take(0)', lambda: rs.ops.take(0)),
        ('distinct_until_changed', lambda: rs.ops.distinct_until_changed()),
        ('batch(2)', lambda: rs.data.batch(2)),
        ('batch(1)', lambda: rs.data.batch(1)),
        ('identity', lambda: rs.ops.identity()),
        ('clip(1,5)', lambda: rs.data.clip(1, 5)),
        ('fill_none(0)', lambda: rs.data.fill_none(0)),
        ('to_list', lambda: rs.data.to_list()),
        ('variance', lambda: rs.math.variance()),
        ('formal.variance', lambda: rs.math.formal.variance()),
        ('assert_(>=0)', lambda: rs.ops.assert_(lambda i: i >= 0)),
        ('assert_1(<=)', lambda: rs.ops.assert_1(lambda a, b: True)),
        ('do_action', lambda: rs.ops.do_action(on_next=lambda i: None)),
        ('tee_map(count,max;zip)', lambda: rs.ops.tee_map(rs.ops.count(), rs.math.max(), join='zip')),
        ('tee_map(filter,map;combine_latest)', lambda: rs.ops.tee_map(rx.pipe(rs.ops.filter(lambda i: i % 2 == 0)), rx.pipe(rs.ops.map(lambda i: i * 10)), join='combine_latest')),
        ('tee_map(map,map;merge)', lambda: rs.ops.tee_map(rx.pipe(rs.ops.map(lambda i: i + 100)), rx.pipe(rs.ops.map(lambda i: i - 100)), join='merge')),
        # None is an item like any other (a branch that maps some items to None): zip pairs it, combine_latest keeps it
        ('tee_map(map->None for odd,filter>1;zip)', lambda: rs.ops.tee_map(rx.pipe(rs.ops.map(lambda i: None if i % 2 else i)), rx.pipe(rs.ops.filter(lambda i: i > 1)), join='zip')),
        ('tee_map(map->None for even,map;combine_latest)', lambda: rs.ops.tee_map(rx.pipe(rs.ops.map(lambda i: i if i % 2 else None)), rx.pipe(rs.ops.map(lambda i: i * 10)), join='combine_latest')),
        # the rest of the operators named by C01 (groups are never empty here, so first / last are inside the property)
        ('starmap(+)', lambda: rx.pipe(rs.ops.map(lambda i: (i, 1)), rs.ops.starmap(lambda a, b: a + b))),
        ('flat_map', lambda: rx.pipe(rs.ops.map(lambda i: [i, i + 1]), rs.ops.flat_map())),
        ('first', lambda: rs.ops.first()), ('last', lambda: rs.ops.last()),
        ('stddev', lambda: rs.math.stddev()), ('formal.stddev(reduce)', lambda: rs.math.formal.stddev(reduce=True)),
        ('to_array(d)', lambda: rx.pipe(rs.data.to_array('d'), rs.ops.map(list))),
        ('progress', lambda: rs.ops.progress('c01', 1000, measure_throughput=False)),
    ]


NUMERIC_ONLY = {'starmap(+)', 'flat_map', 'stddev', 'formal.stddev(reduce)', 'to_array(d)', 'clip(1,5)', 'variance', 'formal.variance', 'mean()', 'max()', 'min(reduce)', 'sum()', 'sum(reduce)', 'map(+1)', 'map(*2)',
                'filter(odd)', 'filter(truthy int)', 'scan(sum)', 'assert_(>=0)',
                # their branch lambdas compute on numbers: fed with tuples / lists they raise, and behind a cut (take(0), first) only the multiplexed
                # mode still evaluates them (that is known finding KF5, not a new failure)
                'tee_map(count,max;zip)', 'tee_map(filter,map;combine_latest)', 'tee_map(map,map;merge)', 'tee_map(map->None for odd,filter>1;zip)', 'tee_map(map->None for even,map;combine_latest)'}


def compatible(names):
    """numeric operators need numeric input: after batch / to_list / tee_map(zip,...) items are lists or tuples"""
    numeric = True
    for n in names:
        if n in NUMERIC_ONLY and not numeric:
            return False
        if n.startswith('batch') or n == 'to_list' or n.startswith('to_array') or n.startswith('tee_map(count') or n.startswith('tee_map(filter') or n.startswith('tee_map(map->None'):
            numeric = False
        if n == 'mean()':
            pass
    return True


def check_c01(opts):
    """mux (per group under group_by) == plain (per group alone), pipelines of depth 1..3"""
    rx, ops, rs = _imports()
    t0 = time.time()
    seed = opts.get('seed', 0); tier = opts.get('tier', 'quick')
    rnd = random.Random(seed)
    OPS = dual_ops(rs, rx)
    inputs = [[], [3], [1, 2, 3, 4, 5], [2, 2, 1, 1, 3, 3, 3, 0], [5, 4, 4, 1, 0, 2, 2, 6, 1]]
    pipes = [[o] for o in OPS]
    pairs = [[a, b] for a in OPS for b in OPS if compatible([a[0], b[0]])]
    triples = [[a, b, c] for a in OPS for b in OPS for c in OPS if compatible([a[0], b[0], c[0]])]
    rnd.shuffle(pairs); rnd.shuffle(triples)
    pipes += pairs[:120 if tier == 'quick' else 600] + triples[:80 if tier == 'quick' else 1500]
    fails = []; evals = 0; distinct = set()
    for pipe in pipes:
        names = [n for n, _ in pipe]
        for items in inputs:
            groups = group_by_spec(items, lambda i: i % 3)
            try:
                # first/last/mean(reduce) on empty groups are excluded by the property; groups here are never empty
                plain = [run_plain(g, *[f() for _, f in pipe], ops.to_list()) for g in groups]
                mux = run_mux(items, rs.ops.group_by(lambda i: i % 3, rx.pipe(*[f() for _, f in pipe], rs.data.to_list())))
            except Exception as ex:
                plain, mux = 'exception', f'{type(ex).__name__}: {ex}'
            evals += 1
            if len(items) > 1: distinct.add((tuple(names), tuple(items)))
            exp = [p[0] if isinstance(p, list) and p else p for p in plain]
            if any(isinstance(p, tuple) and p and p[0] == 'ERROR' for p in plain):
                if len(pipe) == 1:
                    # a single dual-mode operator on a non-empty group of small ints has nothing to raise about: both modes being broken in
                    # the same way is not "transparent multiplexing" (this is how rs.ops.progress went unnoticed)
                    fails.append({'pipeline': names, 'input': items, 'problem': 'the operator raises on a plain non-empty group', 'plain': str(plain)[:200]})
                continue        # the plain pipeline itself raises on this input (e.g. first after a filter that keeps nothing): outside the property
            if mux != exp:
                cut = next((k for k, n_ in enumerate(names) if n_.startswith('take(') or n_ == 'first'), None)
                if cut is not None and cut > 0 and isinstance(mux, tuple) and mux and mux[0] == 'ERROR':
                    # the pipeline cuts a group short and the multiplexed run ends with an exception: when the stages BEFORE the cut raise on a
                    # plain group that is read to its end, the exception comes from behind the cut -- take / first do not end a multiplexed key
                    # (known finding KF5, listed with its own two cases below); it is not a new failure of this pipeline
                    pre = [run_plain(g, *[f() for _, f in pipe[:cut]], ops.to_list()) for g in groups]
                    if any(isinstance(p_, tuple) and p_ and p_[0] == 'ERROR' for p_ in pre):
                        continue
                fails.append({'pipeline': names, 'input': items, 'key': 'i % 3', 'expected_per_group(plain)': exp, 'got(mux)': mux})
    # take / first on a multiplexed key do not end the key: what lies behind the cut is still evaluated upstream
    def to_int(s):
        return int(s)
    src = [('a', '1'), ('b', '5'), ('a', 'n/a'), ('b', '6')]
    got = run_mux(src, rs.ops.group_by(lambda i: i[0], rx.pipe(rs.ops.map(lambda i: to_int(i[1])), rs.ops.take(1), rs.data.to_list())))
    exp = [run_plain([x for x in src if x[0] == k], rs.ops.map(lambda i: to_int(i[1])), rs.ops.take(1), ops.to_list())[0] for k in ('a', 'b')]
    evals += 1
    if got != exp:
        fails.append({'case_id': 'behind-the-cut:map(int),take(1)', 'pipeline': ['map(int)', 'take(1)', 'to_list'], 'input': src, 'key': 'item[0]', 'expected_per_group(plain)': exp, 'got(mux)': got})
    src = [1, 2, 3]
    app = lambda: rs.ops.scan(lambda a, i: (a.append(i), a)[1], list)
    got = run_mux(src, app(), rs.ops.take(1), rs.ops.last(), rs.ops.map(list))
    exp = run_plain(src, app(), rs.ops.take(1), rs.ops.last(), rs.ops.map(list))
    evals += 1
    if got != exp:
        fails.append({'case_id': 'behind-the-cut:scan(append),take(1),last', 'pipeline': ['scan(list append, mutating)', 'take(1)', 'last'], 'input': src, 'expected(plain)': exp, 'got(mux)': got})
    # two levels of keys: group_by(i % 2) > group_by(i % 3): consecutive items with the same inner key under different outer keys, and vice versa
    nested_inputs = [[0, 3, 6, 1, 4, 2], [1, 4, 7, 2, 5, 8, 3], [6, 3, 0, 9, 2, 5, 4, 1], [3, 0, 1, 4, 9, 6]]
    for pipe in [[o] for o in OPS]:
        names = [n for n, _ in pipe]
        for items in nested_inputs:
            leaves = [leaf for g in group_by_spec(items, lambda i: i % 2) for leaf in group_by_spec(g, lambda i: i % 3)]
            try:
                plain = [run_plain(g, *[f() for _, f in pipe], ops.to_list()) for g in leaves]
                mux = run_mux(items, rs.ops.group_by(lambda i: i % 2, rx.pipe(rs.ops.group_by(lambda i: i % 3, rx.pipe(*[f() for _, f in pipe], rs.data.to_list())))))
            except Exception as ex:
                plain, mux = 'exception', f'{type(ex).__name__}: {ex}'
            evals += 1; distinct.add((tuple(names), 'nested', tuple(items)))
            if any(isinstance(p_, tuple) and p_ and p_[0] == 'ERROR' for p_ in plain):
                continue
            exp = [p_[0] if isinstance(p_, list) and p_ else p_ for p_ in plain]
            # groups complete in order of first appearance within each outer group, outer groups in order of first appearance
            if not isinstance(mux, list) or sorted(map(repr, mux)) != sorted(map(repr, exp)):
                fails.append({'pipeline': names, 'input': items, 'key': 'group_by(i % 2) > group_by(i % 3)', 'expected_per_leaf_group(plain)': exp, 'got(mux)': mux})
    return result('e2e.C01.mux_vs_plain', f'{len(pipes)} pipelines (all singles, sampled pairs/triples of {len(OPS)} operators) x {len(inputs)} inputs, key = i % 3; '
                  f'every single operator under group_by(i % 2) > group_by(i % 3) x {len(nested_inputs)} inputs', evals, len(distinct), fails, False, t0)


def check_c02(opts):
    """a lifetime's output is a function of its own items: interleavings of keys and reuse of key slots by successive windows"""
    rx, ops, rs = _imports()
    t0 = time.time()
    stateful = [
        ('scan(sum)', lambda: rs.ops.scan(lambda a, i: a + i, 0)), ('first', lambda: rs.ops.first()), ('last', lambda: rs.ops.last()),
        ('take(2)', lambda: rs.ops.take(2)), ('distinct', lambda: rs.ops.distinct()), ('distinct_until_changed', lambda: rs.ops.distinct_until_changed()),
        ('lag(1)', lambda: rs.data.lag(1)), ('lag(2)', lambda: rs.data.lag(2)), ('pad_start(2)', lambda: rs.data.pad_start(2)),
        ('pad_end(1,9)', lambda: rs.data.pad_end(1, 9)), ('start_with', lambda: rs.ops.start_with((7, 8))), ('batch(2)', lambda: rs.data.batch(2)),
        ('assert_1', lambda: rs.ops.assert_1(lambda a, b: True)),
        ('tee_map zip', lambda: rs.ops.tee_map(rx.pipe(rs.ops.filter(lambda i: i % 2 == 0)), rx.pipe(rs.ops.map(lambda i: i * 10)), join='zip')),
        ('tee_map combine_latest', lambda: rs.ops.tee_map(rx.pipe(rs.ops.filter(lambda i: i < 2)), rx.pipe(rs.ops.map(lambda i: i * 10)), join='combine_latest')),
        ('to_list', lambda: rs.data.to_list()), ('variance', lambda: rs.math.variance()), ('formal.variance', lambda: rs.math.formal.variance()),
    ]
    fails = []; evals = 0; distinct = set()
    seqs = [[1, 2, 3, 4], [1, 1, 2, 3, 3, 0], [4, 3, 2, 1, 0, 5, 6], [0, 2, 4, 1, 3, 5, 7, 9]]
    for name, f in stateful:
        alone = lambda xs: run_mux(xs, f(), rs.data.to_list())
        for items in seqs:
            # (a) successive windows / segments reuse the same key slot
            for wname, wrap, parts in (
                ('roll(2,2)', lambda p: rs.data.roll(2, 2, p), [items[i:i + 2] for i in range(0, len(items), 2)]),
                ('roll(3,1)', lambda p: rs.data.roll(3, 1, p), roll_spec(items, 3, 1)),
                ('split(parity)', lambda p: rs.data.split(lambda i: i % 2, p), split_spec(items, lambda i: i % 2)),
                ('group_by(i%3)', lambda p: rs.ops.group_by(lambda i: i % 3, p), group_by_spec(items, lambda i: i % 3)),
                # a group_by whose parent key slot is re-created by successive windows: the same group on both sides of a window boundary
                ('roll(2,2)>group_by(i%2)', lambda p: rs.data.roll(2, 2, rs.ops.group_by(lambda i: i % 2, p)),
                 [g for w in [items[i:i + 2] for i in range(0, len(items), 2)] for g in group_by_spec(w, lambda i: i % 2)]),
                ('split(i<3)>group_by(const)', lambda p: rs.data.split(lambda i: i < 3, rs.ops.group_by(lambda i: 0, p)),
                 [g for w in split_spec(items, lambda i: i < 3) for g in group_by_spec(w, lambda i: 0)]),
                # two levels of keys: consecutive items with the same inner key under different outer keys
                ('group_by(i%2)>group_by(i//2%2)', lambda p: rs.ops.group_by(lambda i: i % 2, rs.ops.group_by(lambda i: i // 2 % 2, p)),
                 [g for w in group_by_spec(items, lambda i: i % 2) for g in group_by_spec(w, lambda i: i // 2 % 2)]),
            ):
                got = run_mux(items, wrap(rx.pipe(f(), rs.data.to_list())))
                exp = [alone(p)[0] if alone(p) else None for p in parts]
                exp = [e for e in exp]
                evals += 1; distinct.add((name, wname, tuple(items)))
                if got != exp:
                    fails.append({'operator': name, 'inside': wname, 'input': items, 'expected(each lifetime alone)': exp, 'got': got})
    return result('e2e.C02.confinement', f'{len(stateful)} stateful operators inside roll(2,2) / roll(3,1) / split / group_by / roll>group_by / split>group_by on {len(seqs)} inputs',
                  evals, len(distinct), fails, False, t0)


# ---------------------------------------------------------------------------------------------- C03 protocol monitor
def tap(log, name):
    """a pass-through mux operator recording every event it sees (used only by this bounded check)"""
    import rxsci as rs
    def _tap(source):
        def on_subscribe(observer, scheduler):
            def on_next(i):
                log.append((name, i)); observer.on_next(i)
            def on_completed():
                log.append((name, 'DONE')); observer.on_completed()
            return source.subscribe(on_next=on_next, on_completed=on_completed, on_error=observer.on_error, scheduler=scheduler)
        return rs.MuxObservable(on_subscribe)
    return _tap


def wf_violations(log):
    import rxsci as rs
    by = {}
    for name, e in log:
        by.setdefault(name, []).append(e)
    bad = []
    for name, evs in by.items():
        live = {}
        for e in evs:
            if e == 'DONE':
                if live:
                    bad.append((name, f'stream completed with live keys {sorted(live)}'))
                continue
            t = type(e)
            if t is rs.OnCreateMux:
                if e.key in live: bad.append((name, f'second creation of live key {e.key}'))
                if any(k[0] == e.key[0] for k in live): bad.append((name, f'two live keys share slot index {e.key[0]}: {e.key} and {[k for k in live if k[0] == e.key[0]]}'))
                live[e.key] = True
            elif t in (rs.OnNextMux, rs.OnErrorMux):
                if e.key not in live: bad.append((name, f'{t.__name__} for key {e.key} that is not live'))
            elif t is rs.OnCompletedMux:
                if e.key not in live: bad.append((name, f'completion of key {e.key} that is not live'))
                live.pop(e.key, None)
    return bad


def check_c03(opts):
    rx, ops, rs = _imports()
    t0 = time.time()
    def nests(log):
        T = lambda n: tap(log, n)
        inner = lambda: [T('in0'), rs.ops.filter(lambda i: i % 2 == 0), T('in1'), rs.ops.count(reduce=True), T('in2')]
        return [
            ('group_by', lambda: [T('a'), rs.ops.group_by(lambda i: i % 3, rx.pipe(*inner())), T('z')]),
            ('roll(3,2)', lambda: [T('a'), rs.data.roll(3, 2, rx.pipe(*inner())), T('z')]),
            ('roll(2,5)', lambda: [T('a'), rs.data.roll(2, 5, rx.pipe(*inner())), T('z')]),
            ('roll(5,2)', lambda: [T('a'), rs.data.roll(5, 2, rx.pipe(*inner())), T('z')]),
            ('roll(2,2)', lambda: [T('a'), rs.data.roll(2, 2, rx.pipe(*inner())), T('z')]),
            ('split', lambda: [T('a'), rs.data.split(lambda i: i // 3, rx.pipe(*inner())), T('z')]),
            ('time_split', lambda: [T('a'), rs.data.time_split(lambda i: i, 4, 2, pipeline=rx.pipe(*inner())), T('z')]),
            ('group_by>roll', lambda: [T('a'), rs.ops.group_by(lambda i: i % 2, rx.pipe(T('b'), rs.data.roll(3, 1, rx.pipe(*inner())), T('c'))), T('z')]),
            ('roll>group_by', lambda: [T('a'), rs.data.roll(4, 2, rx.pipe(T('b'), rs.ops.group_by(lambda i: i % 2, rx.pipe(*inner())), T('c'))), T('z')]),
            ('split>group_by', lambda: [T('a'), rs.data.split(lambda i: i // 4, rx.pipe(T('b'), rs.ops.group_by(lambda i: i % 2, rx.pipe(*inner())), T('c'))), T('z')]),
            ('roll(2,2)>group_by', lambda: [T('a'), rs.data.roll(2, 2, rx.pipe(T('b'), rs.ops.group_by(lambda i: i % 2, rx.pipe(*inner())), T('c'))), T('z')]),
            ('roll(3,3)>group_by(const)', lambda: [T('a'), rs.data.roll(3, 3, rx.pipe(T('b'), rs.ops.group_by(lambda i: 0, rx.pipe(*inner())), T('c'))), T('z')]),
            ('split>roll', lambda: [T('a'), rs.data.split(lambda i: i // 5, rx.pipe(T('b'), rs.data.roll(3, 2, rx.pipe(*inner())), T('c'))), T('z')]),
            ('split>split', lambda: [T('a'), rs.data.split(lambda i: i // 4, rx.pipe(T('b'), rs.data.split(lambda i: i % 2, rx.pipe(*inner())), T('c'))), T('z')]),
            ('group_by>tee_map', lambda: [T('a'), rs.ops.group_by(lambda i: i % 2, rx.pipe(T('b'), rs.ops.tee_map(rx.pipe(T('t0'), rs.ops.count(), T('t1')), rx.pipe(rs.math.max(), T('t2'))), T('c'))), T('z')]),
            ('roll>tee_map zip', lambda: [T('a'), rs.data.roll(3, 3, rx.pipe(T('b'), rs.ops.tee_map(rx.pipe(rs.ops.filter(lambda i: i % 2 == 0), T('t1')), rx.pipe(rs.ops.map(lambda i: i), T('t2')), join='zip'), T('c'))), T('z')]),
        ]
    fails = []; evals = 0; distinct = set()
    inputs = [[], [1], [0, 1, 2, 3, 4, 5, 6, 7, 8, 9, 10], [1, 3, 5, 7], [0, 0, 0, 1, 1, 5, 9, 9, 12, 13, 20]]
    for idx in range(len(nests([]))):
        for items in inputs:
            log = []
            name, mk = nests(log)[idx]
            out = run_mux(items, *mk())
            evals += 1; distinct.add((name, tuple(items)))
            bad = wf_violations(log)
            if isinstance(out, tuple) and out and out[0] == 'ERROR':
                bad.append(('pipeline', out[1]))
            if bad:
                fails.append({'pipeline': name, 'input': items, 'violations': [f'{n}: {m}' for n, m in bad[:4]]})
    # mux errors crossing a key-spawning operator before they are handled (a raising map in front of roll / split / group_by / time_split,
    # error.ignore behind it): the protocol must hold at the inner boundaries too
    def boom(i):
        if i == 'bad': raise ValueError(i)
        return i
    spawners = [('roll(3,1)', lambda inner: rs.data.roll(3, 1, inner)), ('roll(2,2)', lambda inner: rs.data.roll(2, 2, inner)),
                ('split(i>3)', lambda inner: rs.data.split(lambda i: i > 3, inner)), ('time_split(10,5)', lambda inner: rs.data.time_split(lambda i: i, 10, 5, pipeline=inner)),
                ('group_by(i%2)', lambda inner: rs.ops.group_by(lambda i: i % 2, inner))]
    for sname, mk in spawners:
        for items in ([1, 2, 'bad', 4, 5, 6], ['bad', 1, 2, 3], [1, 2, 3, 'bad']):
            log = []
            T = lambda n: tap(log, n)
            out = run_mux(items, T('a'), rs.ops.map(boom), T('b'), mk(rx.pipe(T('in0'), rs.data.to_list(), T('in1'), rs.error.ignore())), T('c'), rs.error.ignore(), T('z'))
            evals += 1; distinct.add((sname, 'error', tuple(items)))
            bad = wf_violations(log)
            if isinstance(out, tuple) and out and out[0] == 'ERROR':
                bad.append(('pipeline', f'the stream ends with {out[1]}'))
            if bad:
                fails.append({'case_id': f'mux-error-crossing:{sname}:{items}', 'pipeline': f'map(raises on "bad") > {sname}[to_list, error.ignore] > error.ignore', 'input': items,
                              'violations': [f'{n}: {m}' for n, m in bad[:4]], 'output': str(out)[:120]})
    return result('e2e.C03.protocol_monitor', '16 nestings of group_by / roll / split / time_split / tee_map, taps at every boundary, 5 inputs (incl. empty); a mux error crossing roll / split / time_split / group_by before it is handled, 3 inputs',
                  evals, len(distinct), fails, False, t0)


# ---------------------------------------------------------------------------------------------- C04 - C08 spawners
class Big:
    """equal-but-not-identical keys"""
    def __init__(self, v): self.v = v
    def __eq__(self, o): return isinstance(o, Big) and o.v == self.v
    def __hash__(self): return hash(self.v)
    def __repr__(self): return f'Big({self.v})'


def check_c04(opts):
    rx, ops, rs = _imports()
    t0 = time.time()
    fails = []; evals = 0; distinct = set()
    keyfns = [('i%3', lambda i: i % 3), ('tuple', lambda i: (i % 2, 'k')), ('bigint', lambda i: 10 ** 20 + i % 2), ('str', lambda i: 'k' + str(i % 3)),
              ('float', lambda i: float(i % 2)), ('obj', lambda i: Big(i % 3)), ('const', lambda i: 0), ('id', lambda i: i),
              # keys that are == across types: 1 == 1.0 == True, 0 == 0.0 == False == -0.0 (one group per == class)
              ('mixed_types', lambda i: [1, 1.0, True, 0][i % 4] if i % 2 else [0, False, -0.0, 0.0][i % 4]), ('int_or_float', lambda i: (i % 2) if i < 2 else float(i % 2))]
    for n in range(0, 9):
        for items in {tuple(p) for p in itertools.product(range(4), repeat=min(n, 4))} if n <= 4 else [tuple(range(n)), tuple([3, 1, 2] * (n // 3))]:
            items = list(items)
            for kn, kf in keyfns:
                got = run_mux(items, rs.ops.group_by(kf, rx.pipe(rs.data.to_list())))
                exp = group_by_spec(items, kf)
                evals += 1; distinct.add((kn, tuple(items)))
                if got != exp:
                    fails.append({'key_mapper': kn, 'input': items, 'expected': exp, 'got': got})
    # group_by nested in windows: every window has its own groups, completed in order of first appearance (slot / index reuse across windows)
    seqs = [[(d, c) for d, c in zip(ds, cs)] for ds in ([0, 0, 0, 1, 1, 1, 2, 2, 2], [0, 0, 1, 1, 1, 1, 1, 2, 2]) for cs in ('abcabccba', 'aabbcabca', 'abcbcacab', 'cbacbaabc')]
    for items in seqs:
        for wn, wrap, parts in (('split(day)', lambda p: rs.data.split(lambda i: i[0], p), split_spec(items, lambda i: i[0])),
                                ('roll(3,3)', lambda p: rs.data.roll(3, 3, p), [items[i:i + 3] for i in range(0, len(items), 3)]),
                                ('group_by(day)', lambda p: rs.ops.group_by(lambda i: i[0], p), group_by_spec(items, lambda i: i[0]))):
            got = run_mux(items, wrap(rx.pipe(rs.ops.group_by(lambda i: i[1], rx.pipe(rs.data.to_list())), rs.data.to_list())))
            exp = [group_by_spec(p, lambda i: i[1]) for p in parts]
            evals += 1; distinct.add((wn, tuple(items)))
            if got != exp:
                fails.append({'pipeline': f'{wn} > group_by(category) > to_list', 'input': items, 'expected (per window, groups in order of first appearance)': exp, 'got': got})
    return result('e2e.C04.group_by', 'all sequences over {0..3} of length <= 4 plus longer ones, 10 key mappers incl. equal-not-identical keys and keys equal across types (1 / 1.0 / True); group_by nested in split / roll / group_by over 3 windows',
                  evals, len(distinct), fails, False, t0)


def check_c05(opts):
    rx, ops, rs = _imports()
    t0 = time.time()
    tier = opts.get('tier', 'quick')
    W = 6 if tier == 'quick' else 9
    fails = []; evals = 0
    for w in range(1, W + 1):
        for s in range(1, W + 1):
            for n in range(0, 3 * w + 2 * s + 2):
                items = list(range(n))
                got = run_mux(items, rs.data.roll(w, s, [rs.data.to_list()]))
                evals += 1
                if got != roll_spec(items, w, s):
                    fails.append({'window': w, 'stride': s, 'input': items, 'expected': roll_spec(items, w, s), 'got': got})
    # under group_by with interleaved keys, and roll in roll
    for (w, s) in ((3, 2), (2, 3), (4, 1)):
        items = list(range(14))
        got = run_mux(items, rs.ops.group_by(lambda i: i % 2, rx.pipe(rs.data.roll(w, s, [rs.data.to_list()]), rs.data.to_list())))
        exp = [roll_spec(g, w, s) for g in group_by_spec(items, lambda i: i % 2)]
        evals += 1
        if got != exp:
            fails.append({'pipeline': f'group_by(i%2, roll({w},{s}))', 'input': items, 'expected': exp, 'got': got})
    return result('e2e.C05.roll', f'all (window, stride) <= {W} x all lengths <= 3w+2s+1 (exhaustive), plus roll under group_by', evals, evals, fails, True, t0)


def check_c06(opts):
    rx, ops, rs = _imports()
    t0 = time.time()
    fails = []; evals = 0
    preds = [('parity', lambda i: i % 2), ('big', lambda i: 10 ** 20 + i // 2), ('tuple', lambda i: (i // 2,)), ('obj', lambda i: Big(i // 2)), ('const', lambda i: 1)]
    for n in range(0, 6):
        for items in itertools.product(range(4), repeat=n):
            items = list(items)
            for pn, pf in preds:
                got = run_mux(items, rs.data.split(pf, [rs.data.to_list()]))
                evals += 1
                if got != split_spec(items, pf):
                    fails.append({'predicate': pn, 'input': items, 'expected': split_spec(items, pf), 'got': got})
    # predicate values that are not equal to themselves (the shared math.nan object, distinct NaN objects): "differs by !="
    import math
    for n in range(0, 5):
        for ks in itertools.product((0, 1, 2), repeat=n):
            vals = {0: 0.5, 1: math.nan, 2: float('nan')}
            items = [(j, vals[k]) for j, k in enumerate(ks)]
            got = run_mux(items, rs.data.split(lambda i: i[1], [rs.ops.map(lambda i: i[0]), rs.data.to_list()]))
            exp = [[i[0] for i in seg] for seg in split_spec(items, lambda i: i[1])]
            evals += 1
            if got != exp:
                fails.append({'predicate': 'item[1] with 0.5 / the shared math.nan object / a fresh nan', 'input': repr(items), 'expected': exp, 'got': got})
    # predicate values whose == is not transitive (OrderedDict == dict == OrderedDict in another order, but the two OrderedDicts differ):
    # each item is compared with the PREVIOUS item's value, not with the first of the segment
    from collections import OrderedDict as _OD
    pv = {0: _OD([('x', 1), ('y', 2)]), 1: {'x': 1, 'y': 2}, 2: _OD([('y', 2), ('x', 1)]), 3: {'x': 9}}
    for n in range(0, 6):
        for ks in itertools.product((0, 1, 2, 3), repeat=n):
            items = [(j, pv[k]) for j, k in enumerate(ks)]
            got = run_mux(items, rs.data.split(lambda i: i[1], [rs.ops.map(lambda i: i[0]), rs.data.to_list()]))
            exp = [[i[0] for i in seg] for seg in split_spec(items, lambda i: i[1])]
            evals += 1
            if got != exp:
                fails.append({'predicate': 'item[1] over {OrderedDict(x,y), dict(x,y), OrderedDict(y,x), dict(x=9)} (== not transitive)', 'input (index into that set)': list(ks), 'expected': exp, 'got': got})
                break
    # split nested in split / roll / group_by: a re-created key starts a fresh segment whatever the previous window ended with
    for n in range(0, 7):
        for bits in itertools.product((0, 1), repeat=n):
            items = [(i // 3, b) for i, b in enumerate(bits)]
            for wn, wrap, parts in (('split(i//3)', lambda p: rs.data.split(lambda i: i[0], p), split_spec(items, lambda i: i[0])),
                                    ('roll(3,3)', lambda p: rs.data.roll(3, 3, p), [items[i:i + 3] for i in range(0, len(items), 3)]),
                                    ('group_by(parity of position)', lambda p: rs.ops.group_by(lambda i: i[0] % 2, p), group_by_spec(items, lambda i: i[0] % 2))):
                got = run_mux(items, wrap(rx.pipe(rs.data.split(lambda i: i[1], rx.pipe(rs.data.to_list())), rs.data.to_list())))
                exp = [split_spec(p, lambda i: i[1]) for p in parts]
                evals += 1
                if got != exp:
                    fails.append({'pipeline': f'{wn} > split(bit) > to_list', 'input': items, 'expected': exp, 'got': got})
    return result('e2e.C06.split', 'all sequences over {0..3} of length <= 5 x 5 predicates (exhaustive); all sequences of length <= 4 over {0.5, math.nan, a fresh nan} as predicate values; all sequences of length <= 5 over 4 values with a non-transitive ==; all bit sequences of length <= 6 with split nested in split / roll(3,3) / group_by',
                  evals, evals, fails, True, t0)


def check_c07(opts):
    rx, ops, rs = _imports()
    import datetime as dt
    t0 = time.time()
    fails = []; evals = 0
    closings = [None, lambda i: i[1], lambda i: 1 if i[1] else 0]      # a closing_mapper may answer with any truthy / falsy value
    base = dt.datetime(2024, 2, 28, 23, 59, 58)
    # time_mapper returns datetime objects and timeouts are timedeltas (the documented API); three time units so that neither
    # sub-second parts nor whole days may be dropped from a duration
    units = [('1 s', dt.timedelta(seconds=1)), ('0.4 s', dt.timedelta(milliseconds=400)), ('1 day', dt.timedelta(days=1))]
    for uname, unit in units:
        for n in range(0, 5):
            for gaps in itertools.product(range(0, 4), repeat=n):
                ts = [base + k * unit for k in itertools.accumulate(gaps)]
                flag_sets = [tuple([False] * n)] + ([tuple(f) for f in itertools.product([False, True], repeat=n)] if n <= 3 else [])
                if uname != '1 s':
                    flag_sets = flag_sets[:1] + flag_sets[-1:]
                for flags in flag_sets:
                    items = list(zip(ts, flags))
                    for a in (None, 3, 5):
                        for ia in (None, 2):
                            for cm in closings:
                                for inc in (True, False):
                                    if cm is None and not inc: continue
                                    if cm is None and any(flags): continue
                                    A = None if a is None else a * unit; IA = None if ia is None else ia * unit
                                    try:
                                        got = run_mux(items, rs.data.time_split(lambda i: i[0], A, IA, cm, inc, [rs.data.to_list()]))
                                    except Exception as ex:
                                        got = ('ERROR', f'{type(ex).__name__}: {ex}')
                                    exp = [w for w in time_split_spec(items, lambda i: i[0], A, IA, cm, inc)]
                                    evals += 1
                                    # exact comparison, empty windows included (the window after an included closing item opens eagerly, per the property's
                                    # reference-timestamp rule, and is modelled by the spec)
                                    if got != exp:
                                        show = lambda ws: [[(round((x[0] - base) / unit, 3), x[1]) for x in w] for w in ws] if isinstance(ws, list) else ws
                                        fails.append({'time unit': uname, 'active': a, 'inactive': ia, 'closing': cm is not None, 'include': inc,
                                                      'input (offsets in units, closing flag)': show([items])[0], 'expected': show(exp), 'got': show(got)})
    # interleaved keys (group_by > time_split) and re-created keys (split > time_split): each key / segment is windowed on its own
    unit = dt.timedelta(seconds=1)
    for n in range(1, 6):
        for gaps in itertools.product((0, 1, 3), repeat=n):
            ts = [base + k * unit for k in itertools.accumulate(gaps)]
            for keys in (tuple(j % 2 for j in range(n)), tuple((j // 2) % 2 for j in range(n))):
                items = [(t, False, k) for t, k in zip(ts, keys)]
                for wn, wrap, parts in (('group_by(key)', lambda p_: rs.ops.group_by(lambda i: i[2], p_), group_by_spec(items, lambda i: i[2])),
                                        ('split(key)', lambda p_: rs.data.split(lambda i: i[2], p_), split_spec(items, lambda i: i[2]))):
                    try:
                        got = run_mux(items, wrap(rx.pipe(rs.data.time_split(lambda i: i[0], 4 * unit, 2 * unit, pipeline=[rs.data.to_list()]), rs.data.to_list())))
                    except Exception as ex:
                        got = ('ERROR', f'{type(ex).__name__}: {ex}')
                    exp = [[w for w in time_split_spec(part, lambda i: i[0], 4 * unit, 2 * unit, None, True)] for part in parts]
                    evals += 1
                    if got != exp:
                        show = lambda x: str(x).replace('datetime.datetime', 'dt')[:300]
                        fails.append({'pipeline': f'{wn} > time_split(active 4 s, inactive 2 s) > to_list', 'input': show(items), 'expected (each key / segment alone)': show(exp), 'got': show(got)})
    return result('e2e.C07.time_split', 'interleaved keys under group_by and re-created keys under split (gaps {0,1,3} s, length <= 5); datetime timestamps, timedelta timeouts, time units {1 s, 0.4 s, 1 day}: all gap sequences over {0..3} units of length <= 4 x closing flags x '
                  'timeouts {None,3,5}x{None,2} units', evals, evals, fails, True, t0)


def check_c08(opts):
    rx, ops, rs = _imports()
    t0 = time.time()
    fails = []; evals = 0
    branches = [('id', lambda: rx.pipe(rs.ops.map(lambda i: i))), ('even', lambda: rx.pipe(rs.ops.filter(lambda i: i % 2 == 0))),
                ('count', lambda: rx.pipe(rs.ops.count())), ('sum_reduce', lambda: rx.pipe(rs.math.sum(reduce=True))), ('x10', lambda: rx.pipe(rs.ops.map(lambda i: i * 10))),
                ('gt2', lambda: rx.pipe(rs.ops.filter(lambda i: i > 2))), ('none_if_odd', lambda: rx.pipe(rs.ops.map(lambda i: None if i % 2 else i)))]
    def branch_outputs(items, mk):
        """per source event, what the branch emits (plain semantics, item by item, plus at completion)"""
        import rx
        outs = []; cur = []
        subj = rx.subject.Subject()
        subj.pipe(mk()).subscribe(on_next=lambda v: cur.append(v))
        for x in items:
            cur = []; subj.on_next(x); outs.append(list(cur))
        cur = []; subj.on_completed(); outs.append(list(cur))
        return outs
    for items in ([], [1], [1, 2, 3, 4], [2, 4, 1, 3, 6, 5]):
        for bs in itertools.chain(itertools.combinations(branches, 2), [(branches[0], branches[1], branches[4]), (branches[1], branches[5], branches[2], branches[0]), (branches[6], branches[2], branches[0])]):
            per = [branch_outputs(items, mk) for _, mk in bs]
            for join in ('merge', 'zip', 'combine_latest'):
                n = len(bs)
                exp = []
                q = [None] * n; has = [False] * n
                for step in range(len(items) + 1):
                    for b in range(n):
                        for v in per[b][step]:
                            if join == 'merge': exp.append(v)
                            else:
                                q[b] = v; has[b] = True
                                if join == 'zip':
                                    if all(has): exp.append(tuple(q)); has = [False] * n; q = [None] * n
                                else: exp.append(tuple(q))
                for mode in ('mux', 'plain'):
                    ops_ = rs.ops.tee_map(*[mk() for _, mk in bs], join=join)
                    got = run_mux(items, ops_) if mode == 'mux' else run_plain(items, ops_)
                    evals += 1
                    if got != exp:
                        fails.append({'branches': [b for b, _ in bs], 'join': join, 'mode': mode, 'input': items, 'expected': exp, 'got': got})
    # nested tee_map, also as the first operator of a non-last branch, on a state store (probe / create events are emitted synchronously at connect time)
    inner = lambda: rs.ops.tee_map(rx.pipe(rs.ops.count()), rx.pipe(rs.math.max()), join='zip')
    for items in ([3, 1, 4], [2, 7, 1, 8]):
        for name, mk, exp in (
            ('tee_map(tee_map(count,max), sum)', lambda: rs.ops.tee_map(rx.pipe(inner()), rx.pipe(rs.math.sum())), None),
            ('tee_map(sum, tee_map(count,max))', lambda: rs.ops.tee_map(rx.pipe(rs.math.sum()), rx.pipe(inner())), None),
            ('tee_map(count, tee_map(count,max), sum)', lambda: rs.ops.tee_map(rx.pipe(rs.ops.count()), rx.pipe(inner()), rx.pipe(rs.math.sum())), None)):
            cnt = list(range(1, len(items) + 1)); mx = [max(items[:i + 1]) for i in range(len(items))]; sm = [float(sum(items[:i + 1])) for i in range(len(items))]
            pair = list(zip(cnt, mx))
            want = {'tee_map(tee_map(count,max), sum)': list(zip(pair, sm)), 'tee_map(sum, tee_map(count,max))': list(zip(sm, pair)),
                    'tee_map(count, tee_map(count,max), sum)': list(zip(cnt, pair, sm))}[name]
            for mode in ('mux', 'plain'):
                got = run_mux(items, mk()) if mode == 'mux' else run_plain(items, mk())
                evals += 1
                if got != want:
                    fails.append({'pipeline': name, 'mode': mode, 'input': items, 'expected': want, 'got': got if isinstance(got, list) else str(got)[:200]})
    # plain observables: branches made of RxPY operators, including ones that subscribe to their source through the scheduler (start_with, concat)
    for items in ([1, 2, 3], [5]):
        for bname, mkb in (('ops.start_with(0)', lambda: rx.pipe(ops.start_with(0))), ('ops.map(+1)', lambda: rx.pipe(ops.map(lambda i: i + 1))), ('ops.scan(+)', lambda: rx.pipe(ops.scan(lambda a, i: a + i, 0)))):
            per = [branch_outputs(items, mkb), branch_outputs(items, branches[2][1])]
            # start_with emits its prefix at subscription time, before the first source event: model it as part of event 0
            exp = []; q = [None, None]; has = [False, False]
            for step in range(len(items) + 1):
                for bi in range(2):
                    for v in per[bi][step]:
                        q[bi] = v; has[bi] = True
                        if all(has): exp.append(tuple(q)); has = [False, False]; q = [None, None]
            if bname.startswith('ops.start_with'):
                pre = branch_outputs([], mkb)[0]      # what the branch emits by itself
                exp = None                            # expected: zip of [0, items...] with count 1..n (the branch run alone yields 0 first)
                alone = [0] + list(items); cnt = list(range(1, len(items) + 1))
                exp = list(zip(alone, cnt))
            got = run_plain(items, rs.ops.tee_map(mkb(), branches[2][1](), join='zip'))
            evals += 1
            if got != exp:
                fails.append({'case_id': f'plain-branch:{bname}:{items}', 'branches': [bname, 'count'], 'join': 'zip', 'mode': 'plain (cold synchronous source)', 'input': items, 'expected': exp, 'got': got})
    # a branch that completes before the others, in every position: the join goes on until ALL branches have completed (plain observables)
    for items in ([1, 2, 3, 4],):
        for pos in (0, 1, 2):
            mk3 = [lambda: rx.pipe(ops.map(lambda i: i * 2)), lambda: rx.pipe(ops.map(lambda i: i + 100))]
            mk3.insert(pos, lambda: rx.pipe(ops.take(1)))
            for join in ('merge', 'combine_latest'):
                per = [branch_outputs(items, mk) for mk in mk3]
                exp = []; q = [None] * 3
                for step in range(len(items) + 1):
                    for bi in range(3):
                        for v in per[bi][step]:
                            if join == 'merge': exp.append(v)
                            else:
                                q[bi] = v; exp.append(tuple(q))
                got = run_plain(items, rs.ops.tee_map(*[mk() for mk in mk3], join=join))
                evals += 1
                if got != exp:
                    fails.append({'branches': f'take(1) as branch {pos} of 3', 'join': join, 'mode': 'plain', 'input': items, 'expected': exp, 'got': got})
    # a hot multiplexed source (raw mux events on a Subject): a first subscriber that is disposed does not prevent a second one from getting the join
    # of what is emitted from then on (works today on plain and multiplexed sources alike; rxsci/mux/muxconnectable.py)
    from rx.subject import Subject as _Subject
    for join in ('zip', 'merge', 'combine_latest'):
        def scenario(reuse):
            subj = _Subject()
            tee = subj.pipe(rs.cast_as_mux_observable(), rs.ops.tee_map(rs.ops.map(lambda i: i * 2), rs.ops.filter(lambda i: i % 2 == 1), join=join))
            def life(vals):
                got = []
                d = tee.subscribe(on_next=lambda e: got.append(e.item) if type(e) is rs.OnNextMux else None, on_error=lambda e: got.append(repr(e)))
                subj.on_next(rs.OnCreateMux((0,)))
                for v in vals: subj.on_next(rs.OnNextMux((0,), v))
                subj.on_next(rs.OnCompletedMux((0,)))
                d.dispose()
                return got
            if reuse:
                life([1, 2])
            return life([3, 4])
        try:
            fresh, second = scenario(False), scenario(True)
        except Exception as ex:
            fresh, second = 'exception', repr(ex)[:200]
        evals += 1
        if second != fresh:
            fails.append({'scenario': f'raw mux Subject, tee_map(map(*2), filter(odd), join={join}): subscribe, dispose, subscribe again', 'expected for the second subscriber (as a fresh pipeline)': fresh, 'got': second})
    # a key lifetime that ends with a mux error (what roll / split / group_by send to their open windows when the parent key fails): the
    # next lifetime on the same key slot is joined from scratch
    for join, mkb in (('combine_latest', lambda: (rs.ops.filter(lambda i: i < 2), rs.ops.map(lambda i: i * 10))),
                      ('zip', lambda: (rs.ops.filter(lambda i: i >= 2), rs.ops.map(lambda i: i * 10)))):
        def lifetimes(first):
            subj = _Subject(); got = []
            subj.pipe(rs.cast_as_mux_observable(), rs.ops.tee_map(*mkb(), join=join)).subscribe(
                on_next=lambda e: got.append(e.item) if type(e) is rs.OnNextMux else None, on_error=lambda e: got.append(repr(e)))
            if first:
                subj.on_next(rs.OnCreateMux((0,)))
                subj.on_next(rs.OnNextMux((0,), 1))
                subj.on_next(rs.OnErrorMux((0,), ValueError('bad item')))
                del got[:]
            subj.on_next(rs.OnCreateMux((0,)))
            for v in (3, 4): subj.on_next(rs.OnNextMux((0,), v))
            subj.on_next(rs.OnCompletedMux((0,)))
            return got
        try:
            fresh, second = lifetimes(False), lifetimes(True)
        except Exception as ex:
            fresh, second = 'exception', repr(ex)[:200]
        evals += 1
        if second != fresh:
            fails.append({'scenario': f'raw mux events: create (0,), item 1, mux error on (0,); create (0,) again, items 3, 4 -- tee_map(2 branches, join={join})',
                          'expected for the second lifetime (as on a fresh pipeline)': fresh, 'got': second})
    # the join state of a key does not outlive the key: tee_map inside tumbling windows / segments == tee_map run on each window alone
    ub = [('even', branches[1][1]), ('gt2', branches[5][1]), ('pos_first', lambda: rx.pipe(rs.ops.filter(lambda i: i > 0), rs.ops.first())),
          ('count_reduce', lambda: rx.pipe(rs.ops.count(reduce=True))), ('id', branches[0][1])]
    for items in ([-1, -2, -3, 4, 5, 6, 7, 8, 9], [1, 3, 5, 2, 4, 7, 9, 11, 6], [2, 3, 4, 5, 6, 8, 7, 10, 12], [4, -1, -1, -1, -1, -1, 8, 1, 1]):
        wins = [items[i:i + 3] for i in range(0, len(items), 3)]
        for bs in itertools.chain(itertools.combinations(ub, 2), [(ub[0], ub[1], ub[4])]):
            for join in ('zip', 'combine_latest', 'merge'):
                tm = lambda: rs.ops.tee_map(*[mk() for _, mk in bs], join=join)
                got = run_mux(items, rs.data.roll(3, 3, rx.pipe(tm(), rs.data.to_list())))
                exp = [(run_mux(w, tm(), rs.data.to_list()) or [None])[0] for w in wins]
                evals += 1
                if got != exp:
                    fails.append({'pipeline': f'roll(3,3,[tee_map({", ".join(b for b, _ in bs)}, join={join}), to_list])', 'input': items, 'expected (each window alone)': exp, 'got': got if isinstance(got, list) else str(got)[:200]})
    # describe = tee_map of the requested metric branches, nothing more (rxsci/math/dist)
    try:
        D = rs.math.dist
        data = [1.0, 5.0, 2.5, 9.0, 4.0, 4.5, 7.0]
        for qs in ([], [0.5], [0.1, 0.9], None):
            real_qs = [0.25, 0.5, 0.75] if qs is None else qs
            for mode in ('mux', 'plain'):
                run = run_mux if mode == 'mux' else run_plain
                got = run(data, D.update(), D.describe(*([] if qs is None else [qs])))
                exp = run(data, D.update(), rs.ops.tee_map(D.min(), D.max(), D.mean(), D.stddev(), *[D.quantile(q) for q in real_qs]))
                names = ['min', 'max', 'mean', 'stddev'] + ['p{}'.format(int(q * 100)) for q in real_qs]
                evals += 1
                ok = isinstance(got, list) and isinstance(exp, list) and len(got) == len(exp) and all(tuple(g) == tuple(e) and list(getattr(g, '_fields', ())) == names for g, e in zip(got, exp))
                if not ok:
                    fails.append({'pipeline': f'dist.describe(quantiles={qs})', 'mode': mode, 'expected fields': names, 'expected': str(exp)[:300], 'got': str(got)[:300]})
    except ImportError:
        pass
    return result('e2e.C08.tee_map', '2-4 branches from 7 pipelines (one emits None values) x 3 joins x mux/plain x 4 inputs; nested tee_map in first / last / middle branch; tee_map with unbalanced branches inside '
                  'roll(3,3) vs each window alone; dist.describe vs the tee_map of the requested metrics', evals, evals, fails, False, t0)


# ---------------------------------------------------------------------------------------------- C09 / C10 / C11 / C13
def check_c09(opts):
    rx, ops, rs = _imports()
    t0 = time.time()
    fails = []; evals = 0
    def fold(acc, seed, xs):
        out = []; s = seed() if callable(seed) else __import__('copy').deepcopy(seed)
        for x in xs:
            s = acc(s, x); out.append(__import__('copy').deepcopy(s))
        return out, s
    accs = [('add', lambda a, i: a + i, 0), ('append', lambda a, i: (a.append(i), a)[1], list), ('append_value_seed', lambda a, i: (a.append(i), a)[1], []),
            ('tuple', lambda a, i: (a[0] + i, a[1] + 1), (0, 0)), ('list_inside_tuple_seed', lambda a, i: (a[0].append(i), (a[0], a[1] + 1))[1], ([], 0))]
    for items in ([], [5], [1, 2, 3], [3, 1, 4, 1, 5, 9, 2, 6]):
        groups = group_by_spec(items, lambda i: i % 3)
        for an, acc, seed in accs:
            for reduce in (False, True):
                for term in (None, 'fn'):
                    # results keep the seed's type (C01/C09 precondition: state lives in typed arrays)
                    tf = ({'add': lambda a: a + 1000, 'tuple': lambda a: (a[0] + 1000, a[1]), 'list_inside_tuple_seed': lambda a: (a[0], a[1] + 1000)}.get(an, lambda a: (a.append('T'), a)[1])) if term else None
                    got = run_mux(items, rs.ops.group_by(lambda i: i % 3, rx.pipe(rs.ops.scan(acc, seed, reduce=reduce, terminator=tf),
                                                                                   rs.ops.map(lambda v: __import__('copy').deepcopy(v)), rs.data.to_list())))
                    exp = []
                    for g in groups:
                        run, last = fold(acc, seed, g)
                        if term:
                            e = ([] if reduce else run) + [tf(__import__('copy').deepcopy(last))]
                        else:
                            e = [last] if reduce else run
                        exp.append(e)
                    evals += 1
                    if got != exp:
                        fails.append({'accumulator': an, 'reduce': reduce, 'terminator': bool(term), 'input': items, 'expected': exp, 'got': got})
    # successive lifetimes of one key slot (windows) and empty keys: every lifetime starts from a fresh copy of the seed; the terminator runs once, also for an empty key
    for an, acc, seed in accs:
        items = [1, 2, 3, 4, 5, 6, 7]
        got = run_mux(items, rs.data.roll(3, 3, [rs.ops.scan(acc, seed, reduce=True), rs.ops.map(lambda v: __import__('copy').deepcopy(v))]))
        exp = [fold(acc, seed, w)[1] for w in ([1, 2, 3], [4, 5, 6], [7])]
        evals += 1
        if got != exp: fails.append({'accumulator': an, 'pipeline': 'roll(3,3,[scan(reduce=True)])', 'input': items, 'expected': exp, 'got': got})
    calls = []
    got = run_mux([1, 2, 3, 5], rs.ops.group_by(lambda i: i % 2, rx.pipe(rs.ops.filter(lambda i: i != 2), rs.ops.scan(lambda a, i: a + i, 0, reduce=True, terminator=lambda a: (calls.append(a), a + 1000)[1]))))
    evals += 1
    if got != [1009, 1000] or sorted(calls) != [0, 9]:
        fails.append({'pipeline': 'group_by(i%2, [filter(!=2), scan(add, 0, reduce=True, terminator=+1000)])', 'input': [1, 2, 3, 5], 'expected': ([1009, 1000], 'terminator called on 9 and on the seed 0'), 'got': (got, calls)})
    # reduce on an empty key yields the seed
    got = run_mux([], rs.ops.scan(lambda a, i: a + i, 7, reduce=True))
    evals += 1
    if got != [7]: fails.append({'pipeline': 'scan(add, 7, reduce=True) on empty source', 'expected': [7], 'got': got})
    # a terminator may return a value of another type than the accumulator's: it is emitted as is (plain and multiplexed alike)
    for sname, acc, seed, term in (('bool seed, terminator -> 7', lambda a, i: a or i > 1, False, lambda a: 7), ('int seed, terminator -> float', lambda a, i: a + i, 0, lambda a: a / 4),
                                   ('float seed, terminator -> str', lambda a, i: a + i, 0.0, lambda a: f'total={a}'), ('int seed, terminator -> None', lambda a, i: a + i, 0, lambda a: None)):
        for red in (True, False):
            got = run_mux([1, 2, 3], rs.ops.scan(acc, seed, reduce=red, terminator=term))
            exp = run_plain([1, 2, 3], rs.ops.scan(acc, seed, reduce=red, terminator=term))
            evals += 1
            if got != exp or [type(x) for x in got] != [type(x) for x in exp]:
                fails.append({'pipeline': f'scan({sname}, reduce={red})', 'input': [1, 2, 3], 'expected(plain)': exp, 'got(mux)': got})
    # an int accumulator that leaves the signed 64-bit range (python ints do not overflow; the plain scan is unaffected)
    big = [2 ** 62, 2 ** 62, 2 ** 62]
    got = run_mux(big, rs.ops.scan(lambda a, i: a + i, 0))
    exp = run_plain(big, rs.ops.scan(lambda a, i: a + i, 0))
    evals += 1
    if got != exp:
        fails.append({'case_id': 'int64-state:scan(add,0)', 'pipeline': 'scan(lambda a, i: a + i, 0)', 'input': ['2**62'] * 3, 'expected(plain)': exp, 'got(mux)': str(got)[:160]})
    # the same root cause for float / bool seeds: the state is a C double / unsigned byte, values are coerced or rejected on the way in
    for cid, mk, xs in (('typed-state:sum over complex', lambda: rs.math.sum(reduce=True), [1 + 2j, 3 - 1j]),
                        ('typed-state:scan(max, 0.0) over ints beyond 2**53', lambda: rs.ops.scan(lambda a, i: i if i > a else a, 0.0, reduce=True), [5, 2 ** 53 + 1]),
                        ('typed-state:scan(a or i, False)', lambda: rs.ops.scan(lambda a, i: a or i, False, reduce=True), [0, 5, 0])):
        got = run_mux(xs, mk()); exp = run_plain(xs, mk()); evals += 1
        if got != exp or [type(x) for x in got] != [type(x) for x in exp]:
            fails.append({'case_id': cid, 'input': [str(x) for x in xs], 'expected(plain)': str(exp), 'got(mux)': str(got)[:160]})
    # operators defined through scan with an object seed built by a factory (dist.update) or a tuple state (progress): one accumulator per key
    try:
        import distogram
        D = rs.math.dist
        items = [1.0, 10.0, 2.0, 20.0, 3.0, 30.0, 4.0]
        summ = lambda h: (distogram.count(h), distogram.bounds(h))
        got = run_mux(items, rs.ops.group_by(lambda i: i >= 10, rx.pipe(D.update(reduce=True), rs.ops.map(summ))))
        exp = [summ(run_plain(g, D.update(reduce=True))[0]) for g in group_by_spec(items, lambda i: i >= 10)]
        evals += 1
        if got != exp: fails.append({'pipeline': 'group_by(i >= 10, [dist.update(reduce=True), (count, bounds)])', 'input': items, 'expected': exp, 'got': got})
        got = run_mux(items, rs.data.roll(2, 2, [D.update(reduce=True), rs.ops.map(summ)]))
        exp = [summ(run_plain(w, D.update(reduce=True))[0]) for w in (items[0:2], items[2:4], items[4:6], items[6:])]
        evals += 1
        if got != exp: fails.append({'pipeline': 'roll(2,2,[dist.update(reduce=True), (count, bounds)])', 'input': items, 'expected': exp, 'got': got})
    except ImportError:
        pass
    got = run_mux([5, 6, 7, 8, 9], rs.ops.group_by(lambda i: i % 2, rx.pipe(rs.ops.progress('c09', 1000, measure_throughput=False), rs.data.to_list())))
    evals += 1
    if got != [[5, 7, 9], [6, 8]]: fails.append({'pipeline': 'group_by(i%2, [progress, to_list])', 'input': [5, 6, 7, 8, 9], 'expected': [[5, 7, 9], [6, 8]], 'got': got})
    return result('e2e.C09.scan', '4 accumulators (incl. mutating) x reduce x terminator x 4 inputs under group_by; successive windows; dist.update and progress per key', evals, evals, fails, False, t0)


def check_c10(opts):
    rx, ops, rs = _imports()
    t0 = time.time()
    fails = []; evals = 0
    vals = [0, 1, None]
    seqs = [list(p) for n in range(0, 5) for p in itertools.product(vals, repeat=n)]
    def chk(name, got, exp, items, **kw):
        nonlocal evals
        evals += 1
        if got != exp:
            fails.append(dict(kw, operator=name, input=items, expected=exp, got=got))
    for items in seqs:
        chk('first', run_mux(items, rs.ops.first()), items[:1], items)
        chk('last', run_mux(items, rs.ops.last()), items[-1:], items)
        for n in (0, 1, 2, 5):
            chk(f'take({n})', run_mux(items, rs.ops.take(n)), items[:n], items)
            if n >= 1:
                chk(f'batch({n})', run_mux(items, rs.data.batch(n)), batch_spec(items, n), items)
                chk(f'batch({n}) plain', run_plain(items, rs.data.batch(n)), batch_spec(items, n), items)
                chk(f'lag({n})', run_mux(items, rs.data.lag(n)), lag_spec(items, n), items)
        chk('distinct', run_mux(items, rs.ops.distinct()), distinct_spec(items), items)
        chk('distinct_until_changed', run_mux(items, rs.ops.distinct_until_changed()), distinct_until_changed_spec(items), items)
        chk('distinct_until_changed plain', run_plain(items, rs.ops.distinct_until_changed()), distinct_until_changed_spec(items), items)
        for size, value in ((0, None), (2, None), (2, 7)):
            pv = (value if value is not None else (items[0] if items else None))
            chk(f'pad_start({size},{value})', run_mux(items, rs.data.pad_start(size, value)), ([pv] * size + items) if items else [], items)
            pe = (value if value is not None else (items[-1] if items else None))
            chk(f'pad_end({size},{value})', run_mux(items, rs.data.pad_end(size, value)), (items + [pe] * size) if items else [], items)
        chk('start_with', run_mux(items, rs.ops.start_with((8, 9))), ([8, 9] + items) if items else [], items)
    # distinct: different values with equal hashes (hash(-1) == hash(-2), hash(0) == hash(''), hash(2**61 - 1) == hash(0)), equal values of different types
    for items in ([3, 2, 1, 0, -1, -2, -3, -1, 2], [-1.0, -2.0, -1, -2], [0, '', 2 ** 61 - 1, 0.0, ''], [(0, -1), (0, -2), (0, -1)], [1, True, 1.0, 2]):
        chk('distinct', run_mux(items, rs.ops.distinct()), distinct_spec(items), items)
        chk('distinct(key_mapper)', run_mux([(x,) for x in items], rs.ops.distinct(lambda i: i[0])), [(x,) for x in distinct_spec(items)], items)
    for items in ([], [3, 1, 2], [(1, 'b'), (0, 'a'), (1, 'a'), (0, 'b')], [2, 2, 1, 1]):
        keyf = (lambda i: i[0]) if items and isinstance(items[0], tuple) else (lambda i: i)
        chk('sort', run_plain(items, rs.data.sort(key=keyf)), sorted(items, key=keyf), items)
        chk('sort reverse', run_plain(items, rs.data.sort(key=keyf, reverse=True)), sorted(items, key=keyf, reverse=True), items)
    return result('e2e.C10.sequence_ops', 'all sequences over {0,1,None} of length <= 4 (exhaustive) x first/last/take/batch/lag/distinct*/pad*/start_with; sort on 4 inputs',
                  evals, evals, fails, True, t0)


def check_c11(opts):
    """every output is emitted while the source item that determines it is being processed"""
    rx, ops, rs = _imports()
    t0 = time.time()
    fails = []; evals = 0
    def positions(items, *pipeline):
        pos = {'n': -1}
        out = []
        def mark(i):
            pos['n'] += 1
            return i
        src = rx.from_(list(items)).pipe(ops.map(mark))
        src.pipe(rs.state.with_memory_store(rx.pipe(*pipeline))).subscribe(on_next=lambda v: out.append((pos['n'] if pos.get('done') is None else 'END', v)),
                                                                                 on_completed=lambda: None)
        return out
    items = list(range(8))
    cases = [
        ('map', [rs.ops.map(lambda i: i)], [(i, i) for i in items]),
        ('scan sum', [rs.ops.scan(lambda a, i: a + i, 0)], [(i, sum(items[:i + 1])) for i in items]),
        ('roll(3,3) sum(reduce)', [rs.data.roll(3, 3, [rs.math.sum(reduce=True)])], [(2, 3.0), (5, 12.0), (7, 13.0)]),
        ('roll(3,1) count(reduce)', [rs.data.roll(3, 1, [rs.ops.count(reduce=True)])], [(i + 2, 3) for i in range(6)] + [(7, 2), (7, 1)]),
        ('split(i//3) to_list', [rs.data.split(lambda i: i // 3, [rs.data.to_list()])], [(3, [0, 1, 2]), (6, [3, 4, 5]), (7, [6, 7])]),
        ('batch(3)', [rs.data.batch(3)], [(2, [0, 1, 2]), (5, [3, 4, 5]), (7, [6, 7])]),
        ('batch(1)', [rs.data.batch(1)], [(i, [i]) for i in items]),
        ('group_by count', [rs.ops.group_by(lambda i: i % 2, [rs.ops.count()])], [(i, i // 2 + 1) for i in items]),
        ('tee_map zip', [rs.ops.tee_map(rs.ops.count(), rs.math.max())], [(i, (i + 1, i)) for i in items]),
        ('time_split', [rs.data.time_split(lambda i: i, 3, None, pipeline=[rs.data.to_list()])], [(3, [0, 1, 2]), (6, [3, 4, 5]), (7, [6, 7])]),
        ('take(2) then last (waits for the key)', [rs.ops.take(2), rs.ops.last()], [(7, 1)]),
    ]
    for name, pipe, exp in cases:
        got = positions(items, *pipe)
        evals += 1
        if got != exp:
            fails.append({'pipeline': name, 'input': items, 'expected (source position, item)': exp, 'got': got})
    return result('e2e.C11.promptness', '11 pipelines, source position recorded at every emission (8 items)', evals, evals, fails, False, t0)


def check_c13(opts):
    rx, ops, rs = _imports()
    t0 = time.time()
    fails = []; evals = 0
    def boom(bad):
        def f(i):
            if i in bad: raise ValueError(i)
            return i
        return f
    items = [0, 1, 2, 3, 4, 5]
    for bad in ([], [0], [5], [2, 3], [0, 1, 2, 3, 4, 5], [1, 4]):
        good = [i for i in items if i not in bad]
        for opname, mk in (('map', lambda: rs.ops.map(boom(bad))), ('starmap', lambda: rx.pipe(rs.ops.map(lambda i: (i,)), rs.ops.starmap(boom(bad)))),
                           ('filter', lambda: rs.ops.filter(lambda i: boom(bad)(i) is not None)), ('scan', lambda: rs.ops.scan(lambda a, i: boom(bad)(i), 0))):
            # ignore
            got = run_mux(items, rs.ops.group_by(lambda i: i % 2, rx.pipe(mk(), rs.error.ignore(), rs.data.to_list())))
            exp = [[i for i in g if i not in bad] for g in group_by_spec(items, lambda i: i % 2)]
            evals += 1
            if got != exp: fails.append({'operator': opname, 'handler': 'ignore', 'failing_items': bad, 'expected': exp, 'got': got})
            # error.map in place
            got = run_mux(items, mk(), rs.error.map(lambda e: 'E'))
            exp = ['E' if i in bad else i for i in items]
            evals += 1
            if got != exp: fails.append({'operator': opname, 'handler': 'error.map', 'failing_items': bad, 'expected': exp, 'got': got})
            # router
            errors, route = rs.error.create_error_router()
            dead = []
            errors.subscribe(on_next=lambda e: dead.append(e.args[0] if e.args else e), on_completed=lambda: dead.append('DONE'))
            got = run_mux(items, mk(), route())
            evals += 1
            if got != good or dead != bad + ['DONE']:
                fails.append({'operator': opname, 'handler': 'router', 'failing_items': bad, 'expected': (good, bad + ['DONE']), 'got': (got, dead)})
            # unhandled -> on_error at demux
            got = run_mux(items, mk())
            evals += 1
            expect_err = bool(bad)
            if expect_err != (isinstance(got, tuple) and got and got[0] == 'ERROR') or (not expect_err and got != items):
                fails.append({'operator': opname, 'handler': 'none', 'failing_items': bad, 'expected': 'on_error' if expect_err else items, 'got': got})
    # keyed runs: the failing item may be the first of a run of same-key items, the first item of the stream, consecutive ...
    keysets = [p for n in range(1, 6) for p in itertools.product('ab', repeat=n)]
    for ks in keysets:
        items = [(k, 10 ** (j % 3) * (1 if k == 'a' else 3)) for j, k in enumerate(ks)]
        for nbad in range(0, 3):
            for badpos in itertools.combinations(range(len(items)), nbad):
                bad = {items[j] + (j,) for j in badpos}
                tagged = [it + (j,) for j, it in enumerate(items)]
                def acc(a, it):
                    if it in bad: raise ValueError(it)
                    return a + it[1]
                got = run_mux(tagged, rs.ops.group_by(lambda i: i[0], rx.pipe(rs.ops.scan(acc, 0), rs.error.ignore(), rs.data.to_list())))
                exp = []
                for g in group_by_spec(tagged, lambda i: i[0]):
                    tot = 0; run = []
                    for it in g:
                        if it in bad: continue
                        tot += it[1]; run.append(tot)
                    exp.append(run)
                evals += 1
                if got != exp:
                    fails.append({'operator': 'scan (running sum per key)', 'handler': 'ignore', 'keyed_input': tagged, 'failing_positions': list(badpos), 'expected': exp, 'got': got})
                    if len(fails) > 6: break
            if len(fails) > 6: break
        if len(fails) > 6: break
    # error.map keeps the store on the replaced item: a stateful operator downstream keeps working
    got = run_mux([1, 2, 0, 4, 0, 4], rs.ops.group_by(lambda i: i % 2, rx.pipe(rs.ops.map(lambda i: 1 / i), rs.error.map(lambda e: 0.0), rs.ops.scan(lambda a, i: a + i, 0.0))))
    evals += 1
    if got != [1.0, 0.5, 0.5, 0.75, 0.75, 1.0]:
        fails.append({'pipeline': 'group_by > map(1/x) > error.map(0.0) > scan(sum)', 'input': [1, 2, 0, 4, 0, 4], 'expected': [1.0, 0.5, 0.5, 0.75, 0.75, 1.0], 'got': got})
    # the error router inside a tee_map branch (first and later branches): its dead-letter observable completes with the stream
    for pos in (0, 1):
        errors, route = rs.error.create_error_router()
        dead = []
        errors.subscribe(on_next=lambda e: dead.append(type(e).__name__), on_completed=lambda: dead.append('DONE'))
        routed = rx.pipe(rs.ops.map(lambda i: 10 // i), route())
        other = rx.pipe(rs.ops.map(lambda i: i))
        got = run_mux([1, 0, 2, 0, 4], rs.ops.tee_map(*((routed, other) if pos == 0 else (other, routed)), join='merge'))
        evals += 1
        if dead != ['ZeroDivisionError', 'ZeroDivisionError', 'DONE'] or not isinstance(got, list):
            fails.append({'pipeline': f'tee_map(..., join=merge) with [map(10 // i), route_errors()] as branch {pos}', 'input': [1, 0, 2, 0, 4], 'expected dead letters': ['ZeroDivisionError', 'ZeroDivisionError', 'DONE'],
                          'got dead letters': dead, 'output': str(got)[:120]})
    # ... and when the stream ends with on_error: the router gets the stream error and its dead letter completes, in any branch
    for pos in (0, 1, 2):
        errors, route = rs.error.create_error_router()
        dead = []
        errors.subscribe(on_next=lambda e: dead.append(type(e).__name__), on_completed=lambda: dead.append('DONE'))
        branches = [rx.pipe(rs.ops.map(lambda i: i)), rx.pipe(rs.ops.map(lambda i: -i)), rx.pipe(rs.ops.map(lambda i: i * 2))]
        branches[pos] = rx.pipe(rs.ops.map(lambda i: 10 // i), route())
        out = []
        rx.concat(rx.from_([1, 0, 2]), rx.throw(KeyError('stream'))).pipe(rs.state.with_memory_store(rx.pipe(
            rs.ops.group_by(lambda i: i % 2, rx.pipe(rs.ops.tee_map(*branches, join='merge')))))).subscribe(
            on_next=out.append, on_error=lambda e: out.append(('on_error', type(e).__name__)), on_completed=lambda: out.append('DONE'))
        evals += 1
        if dead != ['ZeroDivisionError', 'KeyError', 'DONE'] or out[-1:] != [('on_error', 'KeyError')] or len(out) != 9:
            fails.append({'pipeline': f'group_by(i%2) > tee_map(3 branches, join=merge) with [map(10 // i), route_errors()] as branch {pos}', 'input': '[1, 0, 2] then on_error(KeyError)',
                          'expected dead letters': ['ZeroDivisionError', 'KeyError', 'DONE'], 'got dead letters': dead, 'output': str(out)[:160]})
    # the same for every raising operator (the mux error of each of them carries the store)
    src = [1, 2, 0, 4, 0, 5]
    for opname, mk in (('map', lambda: rs.ops.map(boom([0]))), ('starmap', lambda: rx.pipe(rs.ops.map(lambda i: (i,)), rs.ops.starmap(boom([0])))),
                       ('filter', lambda: rs.ops.filter(lambda i: boom([0])(i) is not None))):
        got = run_mux(src, rs.ops.group_by(lambda i: i % 2, rx.pipe(mk(), rs.error.map(lambda e: 100), rs.ops.scan(lambda a, i: a + i, 0))))
        exp = []; tot = {0: 0, 1: 0}
        for i in src:
            tot[i % 2] += 100 if i == 0 else i; exp.append(tot[i % 2])
        evals += 1
        if got != exp:
            fails.append({'pipeline': f'group_by(i%2) > {opname}(raises on 0) > error.map(100) > scan(sum)', 'input': src, 'expected': exp, 'got': got})
    return result('e2e.C13.errors', '4 operators x 6 failing subsets x {ignore, error.map, router, none}; all key sequences over {a,b} of length <= 5 x all failing subsets of size <= 2 through scan+ignore; '
                  'stateful operator after error.map for map / starmap / filter', evals, evals, fails, False, t0)


# ---------------------------------------------------------------------------------------------- C12 numeric accuracy
def check_c12(opts):
    rx, ops, rs = _imports()
    t0 = time.time()
    seed = opts.get('seed', 0); tier = opts.get('tier', 'quick')
    rnd = random.Random(seed)
    fails = []; evals = 0
    EPS = 2.0 ** -52
    def exact(xs):
        fx = [Fraction(x) for x in xs]; n = len(fx)
        s = sum(fx, Fraction(0)); m = s / n if n else None
        ss = sum(((x - m) ** 2 for x in fx), Fraction(0)) if n else Fraction(0)
        return {'sum': s, 'mean': m, 'min': min(fx) if n else None, 'max': max(fx) if n else None,
                'variance': (ss / (n - 1)) if n >= 2 else Fraction(0), 'formal.variance': (ss / n) if n >= 1 else Fraction(0), 'ss': ss, 'n': n,
                'abs': sum((abs(x) for x in fx), Fraction(0)), 'sumsq': sum((x * x for x in fx), Fraction(0))}
    def exact_prefixes(xs):
        """exact(xs[:i+1]) for every i, computed incrementally (sum of squared deviations = sum x^2 - (sum x)^2 / n, exact in rationals)"""
        out = []; s = Fraction(0); sq = Fraction(0); ab = Fraction(0); mn = mx = None
        for i, x in enumerate(xs):
            f = Fraction(x); n = i + 1
            s += f; sq += f * f; ab += abs(f)
            mn = f if mn is None or f < mn else mn; mx = f if mx is None or f > mx else mx
            ss = sq - s * s / n
            out.append({'sum': s, 'mean': s / n, 'min': mn, 'max': mx, 'variance': (ss / (n - 1)) if n >= 2 else Fraction(0), 'formal.variance': ss / n, 'ss': ss, 'n': n,
                        'abs': ab, 'sumsq': sq})
        return out
    def close(got, want, scale, n, what):
        if want is None: return got is None
        if got is None: return False
        tol = Fraction(8 * (n + 2)) * Fraction(EPS) * scale + Fraction(10) ** -300
        return abs(Fraction(got) - want) <= tol
    grid = [0.0, 1.0, -1.0, 0.5, 1e6, 3.0]
    seqs = [list(p) for n in range(1, 5) for p in itertools.product(grid, repeat=n)]
    fam = []
    for _ in range(12 if tier == 'quick' else 60):
        n = rnd.choice([2, 5, 50, 400 if tier == 'quick' else 5000])
        off = rnd.choice([0.0, 1e6, -1e6, 1e3]); sc = rnd.choice([1.0, 1e-6, 1e6, 1e-150, 1e150])
        fam.append([(off + rnd.uniform(-1, 1)) * sc if abs(sc) < 1e100 and abs(sc) > 1e-100 else rnd.uniform(-1, 1) * sc for _ in range(n)])
    fam += [[7.25] * 9, [-3.0, -3.0], [1e6 + 1, 1e6 - 1, 1e6], [0.1] * 10]
    aggs = [('sum', lambda r: rs.math.sum(reduce=r)), ('mean', lambda r: rs.math.mean(reduce=r)), ('min', lambda r: rs.math.min(reduce=r)), ('max', lambda r: rs.math.max(reduce=r)),
            ('variance', lambda r: rs.math.variance(reduce=r)), ('formal.variance', lambda r: rs.math.formal.variance(reduce=r))]
    for xs in seqs + fam:
        ex_all = exact_prefixes(xs)
        for name, mk in aggs:
            for mode in ('mux', 'plain'):
                stream = run_mux(xs, mk(False)) if mode == 'mux' else run_plain(xs, mk(False))
                red = run_mux(xs, mk(True)) if mode == 'mux' else run_plain(xs, mk(True))
                evals += 1
                if not isinstance(stream, list) or len(stream) != len(xs) or not isinstance(red, list) or len(red) != 1:
                    fails.append({'aggregate': name, 'mode': mode, 'input': xs[:8], 'problem': 'wrong number of outputs', 'streaming': str(stream)[:200], 'reduce': str(red)[:100]}); continue
                for i, got in enumerate(stream):
                    ex = ex_all[i]
                    want = ex[name]
                    if name in ('variance', 'formal.variance'):
                        # conditioning of the sum of squared deviations: sum (x - m)^2 with |x - m| <= 2 max|x|
                        # condition number of the sum of squared deviations: kappa = ||x||_2 / sqrt(ss)  =>  |error(ss)| <~ n eps ||x||_2 sqrt(ss)
                        l2 = math.sqrt(float(ex['sumsq'])); rs_ = math.sqrt(float(ex['ss']))
                        scale = (ex['ss'] + Fraction(l2 * rs_) + Fraction(EPS) * ex['sumsq']) / max(1, (ex['n'] - 1) if name == 'variance' else ex['n'])
                    else:
                        scale = ex['abs'] if name in ('sum',) else (ex['abs'] / ex['n'] if name == 'mean' else Fraction(0))
                    if not close(got, want, scale, ex['n'], name):
                        fails.append({'aggregate': name, 'mode': mode, 'input': xs[:8], 'n': len(xs), 'after_item': i, 'expected': float(want) if want is not None else None, 'got': got}); break
                if stream and isinstance(red[0], float) and isinstance(stream[-1], float) and red[0] != stream[-1] and not (math.isnan(red[0]) and math.isnan(stream[-1])):
                    fails.append({'aggregate': name, 'mode': mode, 'input': xs[:8], 'problem': 'streaming value after the last item differs from the reduce value', 'streaming_last': stream[-1], 'reduce': red[0]})
    # stddev / formal.stddev = square root of the exact variance (60-digit decimal oracle), relative tolerance as for the variance
    import decimal
    decimal.getcontext().prec = 80
    def dsqrt(fr):
        return (decimal.Decimal(fr.numerator) / decimal.Decimal(fr.denominator)).sqrt()
    for xs in fam + [[1.0, 3.0], [2.0, 2.0, 5.0], [1e-120, 3e-120], [1e120, 3e120, 2e120]]:
        ex = exact_prefixes(xs)[-1]
        for name, mk, var in (('stddev', lambda: rs.math.stddev(reduce=True), ex['variance']), ('formal.stddev', lambda: rs.math.formal.stddev(reduce=True), ex['formal.variance'])):
            for mode in ('mux', 'plain'):
                got = (run_mux if mode == 'mux' else run_plain)(xs, mk())
                evals += 1
                want = dsqrt(var)
                l2 = math.sqrt(float(ex['sumsq'])) if ex['sumsq'] < Fraction(10) ** 600 else float('inf')
                ok = isinstance(got, list) and len(got) == 1 and isinstance(got[0], float) and not math.isnan(got[0]) and not math.isinf(got[0])
                if ok and want > 0:
                    # d(sqrt v) = dv / (2 sqrt v): relative error of the deviation = half that of the variance, whose conditioning is ||x||_2 / sqrt(ss)
                    cond = (decimal.Decimal(ex['sumsq'].numerator) / decimal.Decimal(ex['sumsq'].denominator)).sqrt() / dsqrt(ex['ss']) if ex['ss'] > 0 else decimal.Decimal(1)
                    rel = abs(decimal.Decimal(got[0]) - want) / want
                    ok = rel <= decimal.Decimal(8 * (len(xs) + 2)) * decimal.Decimal(EPS) * (1 + cond)
                elif ok:
                    ok = abs(got[0]) <= 1e-150
                if not ok:
                    fails.append({'aggregate': name, 'mode': mode, 'input': xs[:6], 'n': len(xs), 'expected': float(want), 'got': got if not isinstance(got, list) else got[:1]}); break
    # the scales at which naive accumulation of squares / sums leaves the double range although the exact statistic is an ordinary double
    extreme = [('sum', lambda: rs.math.sum(reduce=True), [1e308, 1e308, -1e308], 1e308), ('mean', lambda: rs.math.mean(reduce=True), [1e308, 1e308], 1e308),
               ('stddev', lambda: rs.math.stddev(reduce=True), [1e-170, 3e-170], 1.4142135623730951e-170), ('formal.stddev', lambda: rs.math.formal.stddev(reduce=True), [1e-170, 3e-170], 1e-170),
               ('stddev', lambda: rs.math.stddev(reduce=True), [1e160, 3e160], 1.4142135623730951e160), ('stddev', lambda: rs.math.stddev(reduce=True), [1e153 * k for k in range(1, 301)], None)]
    for name, mk, xs, want in extreme:
        if want is None:
            want = float(dsqrt(exact_prefixes(xs)[-1]['variance']))
        got = run_plain(xs, mk()); evals += 1
        ok = isinstance(got, list) and len(got) == 1 and isinstance(got[0], float) and got[0] == got[0] and abs(got[0] - want) <= 1e-9 * abs(want)
        if not ok:
            fails.append({'case_id': f'extreme-scale:{name}:{xs[:3]}', 'aggregate': name, 'input': xs[:4], 'n': len(xs), 'expected': want, 'got': got if not isinstance(got, list) else got[:1],
                          'note': 'the exact statistic is an ordinary double; an intermediate sum / square overflows or underflows'})
    # fewer than two items: variance 0 ; empty: sum 0, min/max None, variance 0.0
    for name, mk, want in (('sum', lambda: rs.math.sum(reduce=True), 0.0), ('min', lambda: rs.math.min(reduce=True), None), ('max', lambda: rs.math.max(reduce=True), None),
                           ('variance', lambda: rs.math.variance(reduce=True), 0.0)):
        got = run_mux([], mk()); evals += 1
        if got != [want]: fails.append({'aggregate': name, 'input': [], 'expected': [want], 'got': got})
    return result('e2e.C12.math', f'all sequences over a 6-value grid up to length 4 (exhaustive) + {len(fam)} seeded ill-conditioned families (offsets 1e6, scales 1e-150..1e150, n up to '
                  f'{400 if tier == "quick" else 5000}); tolerance 8(n+2) eps x conditioning; exact oracle = fractions; stddev / formal.stddev against an 80-digit square root; 6 extreme-scale cases (1e308, 1e-170, 1e160, 1e153 x 300)', evals, evals, fails, False, t0)


# ---------------------------------------------------------------------------------------------- C14 store
def check_c14(opts):
    import rxsci as rs
    from rxsci.state.memory_store import MemoryStore
    t0 = time.time()
    seed = opts.get('seed', 0); tier = opts.get('tier', 'quick')
    rnd = random.Random(seed)
    fails = []; evals = 0
    NOT = rs.state.markers.STATE_NOTSET
    configs = [(int, None, [0, -3, 7]), (int, 5, [1, 2]), ('uint', 0, [0, 9]), (float, None, [0.5, -1.25]), (float, 1.5, [2.0]), (bool, None, [True, False]), (bool, False, [True, False]),
               ('obj', None, ['a', None, (1, 2)]), ('obj', 'dflt', ['x'])]
    for dt, dflt, values in configs:
        for trial in range(60 if tier == 'quick' else 600):
            st = MemoryStore(data_type=dt, default_value=dflt)
            model = {}
            ops_log = []
            for step in range(rnd.randint(1, 14)):
                idx = rnd.choice([0, 1, 2, 5, 9, 3])
                key = (idx, (0,))
                op = rnd.choice(['add', 'set', 'get', 'del', 'get', 'iterate'])
                ops_log.append((op, idx))
                try:
                    if op == 'add':
                        st.add_key(key); model[idx] = ('SET', dflt) if dflt is not None else ('NOTSET',)
                    elif op == 'set' and idx in model:
                        v = rnd.choice(values); st.set(key, v); model[idx] = ('SET', v); ops_log[-1] = (op, idx, v)
                    elif op == 'del' and idx in model:
                        st.del_key(key); del model[idx]
                    elif op == 'get' and idx in model:
                        got = st.get(key)
                        want = NOT if model[idx][0] == 'NOTSET' else model[idx][1]
                        ok = (got is NOT) if want is NOT else (got == want and type(got) is (type(want) if dt != float else float) or (dt is float and float(want) == got))
                        if not ok:
                            fails.append({'data_type': str(dt), 'default': dflt, 'operations': ops_log[:], 'read_index': idx, 'expected': repr(want), 'got': repr(got)})
                    elif op == 'iterate':
                        got = sorted((k[0] if isinstance(k, tuple) else k) for (k, v, s) in st.iterate())
                        if got != sorted(model):
                            fails.append({'data_type': str(dt), 'operations': ops_log[:], 'iterate_expected_indices': sorted(model), 'got': got})
                except Exception as ex:
                    fails.append({'data_type': str(dt), 'operations': ops_log[:], 'exception': f'{type(ex).__name__}: {ex}'})
                evals += 1
                if fails: break
            if len(fails) > 3: break
    # mapper
    for trial in range(600 if tier == 'quick' else 6000):
        st = MemoryStore(data_type='mapper')
        model = {}; used = set()
        log = []
        for step in range(rnd.randint(1, 16)):
            idx = rnd.choice([0, 1, 4]); key = (idx, (0,))
            op = rnd.choice(['add_key', 'add_map', 'get_map', 'iterate_map', 'add_map', 'del_add'])
            mk = rnd.choice(['a', 'b', 10 ** 20 + 1, (1, 2), 1.0, 1, True])
            mk = (10 ** 20 + 1) if mk == 10 ** 20 + 1 else mk
            log.append((op, idx, mk))
            evals += 1
            if op == 'add_key':
                for v in model.get(idx, {}).values(): used.discard(v)
                st.add_key(key); model[idx] = {}
            elif op == 'del_add':
                # a slot deleted and re-added WITHOUT del_map on its entries reads as a fresh empty map
                if idx in model:
                    for v in model[idx].values(): used.discard(v)
                    st.del_key(key)
                st.add_key(key); model[idx] = {}
            elif idx in model:
                if op == 'add_map' and mk not in model[idx]:
                    i = st.add_map(key, mk)
                    if i in used: fails.append({'mapper_operations': log[:], 'problem': f'index {i} handed out while still in use'})
                    used.add(i); model[idx][mk] = i
                elif op == 'get_map':
                    got = st.get_map(key, mk)
                    want = model[idx].get(mk, NOT)
                    if not (got is want or got == want): fails.append({'mapper_operations': log[:], 'expected': repr(want), 'got': repr(got)})
                elif op == 'iterate_map':
                    got = list(st.iterate_map(key))
                    if got != list(model[idx]): fails.append({'mapper_operations': log[:], 'expected': list(model[idx]), 'got': got})
    # mapper with releases: complete a key the way group_by does (del_map on every entry, then del_key), then map new keys while others are alive
    def mapper_run(script):
        st = MemoryStore(data_type='mapper')
        live = {}                         # (slot index, map key) -> handed-out index, for entries of live slots
        order = {}
        for step in script:
            op = step[0]; key = (step[1], (0,))
            if op == 'add_key':
                for k in [k for k in live if k[0] == step[1]]: del live[k]
                st.add_key(key); order[step[1]] = []
            elif op == 'add_map':
                if st.get_map(key, step[2]) is NOT:
                    i = st.add_map(key, step[2])
                    if i in live.values():
                        return f'add_map returned index {i} which is still in use by {[k for k, v in live.items() if v == i]}'
                    live[(step[1], step[2])] = i; order[step[1]].append(step[2])
            elif op == 'del_map':
                st.del_map(key, step[2])
                if st.get_map(key, step[2]) is NOT:          # the store may or may not forget the entry: follow what it does
                    live.pop((step[1], step[2]), None)
                    if step[2] in order[step[1]]: order[step[1]].remove(step[2])
            elif op == 'del_key':
                st.del_key(key)
                for k in [k for k in live if k[0] == step[1]]: del live[k]
            elif op == 'get_map':
                got = st.get_map(key, step[2]); want = live.get((step[1], step[2]), NOT)
                if not (got is want or got == want):
                    return f'get_map({step[1]}, {step[2]!r}) = {got!r}, expected {want!r}'
            elif op == 'iterate_map':
                got = list(st.iterate_map(key))
                if got != order[step[1]]:
                    return f'iterate_map({step[1]}) = {got}, expected insertion order {order[step[1]]}'
        return None
    directed = [
        [('add_key', 0), ('add_map', 0, 'a'), ('add_map', 0, 'b'), ('del_map', 0, 'a'), ('del_map', 0, 'b'), ('del_key', 0), ('add_key', 1), ('add_key', 2),
         ('add_map', 1, 'x'), ('add_map', 2, 'y'), ('add_map', 1, 'z'), ('add_map', 2, 'w'), ('iterate_map', 1), ('iterate_map', 2)],
        [('add_key', 0), ('add_map', 0, 'a'), ('add_map', 0, 'b'), ('add_map', 0, 'c'), ('del_map', 0, 'a'), ('del_map', 0, 'b'), ('del_map', 0, 'c'), ('del_key', 0),
         ('add_key', 0), ('add_map', 0, 'p'), ('add_map', 0, 'q'), ('add_map', 0, 'r'), ('iterate_map', 0)],
    ]
    directed += [
        # re-created slot (del_key + add_key, no del_map): the first lookup of the new life uses the map key looked up last in the old one
        [('add_key', 0), ('add_map', 0, 'a'), ('get_map', 0, 'a'), ('del_key', 0), ('add_key', 0), ('get_map', 0, 'a'), ('iterate_map', 0), ('add_map', 0, 'a'), ('get_map', 0, 'a'), ('iterate_map', 0)],
        [('add_key', 3), ('add_key', 7), ('add_map', 3, 'a'), ('add_map', 7, 'a'), ('get_map', 7, 'a'), ('del_key', 7), ('add_key', 7), ('get_map', 7, 'a'), ('get_map', 3, 'a'), ('iterate_map', 7)],
        [('add_key', 0), ('add_map', 0, 'a'), ('add_key', 0), ('get_map', 0, 'a'), ('iterate_map', 0)],
    ]
    scripts = list(directed)
    for trial in range(300 if tier == 'quick' else 3000):
        sc = [('add_key', 0), ('add_key', 1)]
        for _ in range(rnd.randint(4, 18)):
            idx = rnd.choice([0, 1, 3]); mk = rnd.choice('abcd')
            op = rnd.choice(['add_map', 'add_map', 'del_map', 'iterate_map', 'complete', 'add_key', 'get_map', 'recreate'])
            if op == 'complete':
                sc += [('del_map', idx, m) for m in 'abcd'] + [('del_key', idx), ('add_key', idx)]
            elif op == 'add_key': sc.append(('add_key', idx))
            elif op == 'recreate': sc += [('del_key', idx), ('add_key', idx), ('get_map', idx, mk)]
            else: sc.append((op, idx, mk) if op != 'iterate_map' else (op, idx))
        sc = [s_ for s_ in sc]
        scripts.append(sc)
    for sc in scripts:
        try:
            # make sure every slot used is added first
            used = {s_[1] for s_ in sc}
            pre = [('add_key', u) for u in used if not any(x[0] == 'add_key' and x[1] == u for x in sc[:sc.index(next(y for y in sc if y[1] == u)) + 1])]
            msg = mapper_run(pre + sc)
        except Exception as ex:
            msg = f'{type(ex).__name__}: {ex}'
        evals += 1
        if msg:
            fails.append({'mapper_script': (pre + sc)[:24], 'problem': msg})
            if len(fails) > 5: break
    return result('e2e.C14.store', '9 (data type, default) configurations x seeded random operation sequences over sparse indices {0,1,2,3,5,9}; mapper sequences incl. release '
                  '(del_map / del_key as group_by does) followed by new mappings, iterate_map order', evals, evals, fails, False, t0)
