"""Bounded stand-ins / end-to-end confirmations for the I/O properties C15-C20 (real libraries, explicit finite scopes)."""
import io
import itertools
import os
import random
import tempfile
import time

from .mux import result
from ..specs import run_plain


def _imports():
    import rx
    import rx.operators as ops
    import rxsci as rs
    return rx, ops, rs


def chunkings(data, max_cuts=3):
    """all ways of cutting `data` at up to max_cuts positions (incl. empty chunks at the ends)"""
    n = len(data)
    for k in range(0, max_cuts + 1):
        for cuts in itertools.combinations_with_replacement(range(n + 1), k):
            b = [0] + list(cuts) + [n]
            yield [data[b[i]:b[i + 1]] for i in range(len(b) - 1)]


class _ShortReads(io.RawIOBase):
    """a raw stream that returns at most `cap` bytes per read() (pipes, sockets, remote file systems): io.RawIOBase allows it"""
    def __init__(self, data, cap): self.b = io.BytesIO(data); self.cap = cap
    def readable(self): return True
    def read(self, n=-1): return self.b.read(self.cap if n is None or n < 0 else min(n, self.cap))
    def readinto(self, buf):
        d = self.read(len(buf)); buf[:len(d)] = d; return len(d)


def json_file_scenarios(rs, d, which):
    """round trips of json.dump_to_file / load_from_file that need something specific: text encodings with a byte-order mark, characters
    str.splitlines treats as line boundaries, U+FEFF inside a string at a read-chunk boundary, streams with short reads, highly
    redundant data (one compressed read chunk inflating to several MiB).  -> list of failures"""
    import rxsci.container.json as js
    fails = []; n_eval = 0
    def roundtrip(tag, items, **kw):
        nonlocal n_eval
        fn = os.path.join(d, f'js_{abs(hash(tag)) % 10 ** 8}.json')
        lkw = dict(kw); open_obj = lkw.pop('load_open_obj', None)
        dkw = {k: v for k, v in kw.items() if k != 'load_open_obj'}
        try:
            out = run_plain(items, js.dump_to_file(fn, **dkw))
            got = []; err = []
            if open_obj is not None: lkw['open_obj'] = open_obj
            js.load_from_file(fn, **lkw).subscribe(on_next=got.append, on_error=err.append)
        except Exception as ex:
            got = []; err = [ex]
        n_eval += 1
        if err or got != items:
            fails.append({'scenario': tag, 'objects': len(items), 'error': repr(err[0])[:200] if err else None, 'got_count': len(got),
                          'first_difference': next((i for i, (a, b) in enumerate(zip(got, items)) if a != b), None),
                          'expected_at_difference': next((repr(b)[:120] for a, b in zip(got, items) if a != b), None), 'got_at_difference': next((repr(a)[:120] for a, b in zip(got, items) if a != b), None)})
        return fn
    if 'encodings' in which:
        rows = [{'id': 0, 's': 'h\u00e9llo'}, {'id': 1, 's': '\U0001F600 and \u20ac'}, {'id': 2, 's': ''}, {'id': 3, 's': 'e\u0301'}]
        for enc in ('utf-8', 'utf-16', 'utf-32'):
            fn = roundtrip(f'encoding={enc}', rows, encoding=enc)
            # the byte-order mark is written once: the whole file decodes, in one shot, to the lines of the dump
            try:
                text = open(fn, 'rb').read().decode(enc)
                n_eval += 1
                if text.count('\ufeff') or len(text.splitlines()) != len(rows):
                    fails.append({'scenario': f'encoding={enc}: file content decoded in one shot', 'problem': 'byte-order mark inside the text or wrong number of lines', 'text': repr(text[:80])})
            except Exception as ex:
                fails.append({'scenario': f'encoding={enc}: file content decoded in one shot', 'error': repr(ex)[:200]})
    if 'line_boundaries' in which:
        rows = [{'id': i, 's': f'a{c}b'} for i, c in enumerate(['\u2028', '\u2029', '\u0085', '\r', '\x0b', '\x0c', '\x1c', '\x1e', '\ufeff', '\r\n'])]
        for comp in (None, 'gzip'):
            roundtrip(f'strings containing U+2028/U+2029/U+0085/CR/VT/FF/U+FEFF, compression={comp}', rows, compression=comp)
    if 'bom_at_chunk_boundary' in which:
        for off in (65533, 65534, 65535, 65536, 65537, 131072):
            head = '{"id":0,"s":"'
            rows = [{'id': 0, 's': 'x' * (off - len(head)) + '\ufeff' + 'tail'}, {'id': 1, 's': '\ufeffstart'}]
            roundtrip(f'U+FEFF inside a string at byte offset {off} (read chunks are 64 KiB)', rows)
    if 'short_reads' in which:
        rows = [{'id': i, 's': 'v' * (i % 50)} for i in range(3000)]
        for comp in (None, 'gzip', 'zstd'):
            def open_obj(filename, mode, encoding=None, _c=comp):
                return _ShortReads(open(filename, 'rb').read(), 1000)
            roundtrip(f'custom open_obj whose read(n) returns at most 1000 bytes, compression={comp}', rows, compression=comp, load_open_obj=open_obj)
    if 'redundant' in which:
        rows = [{'sensor': 'temperature-probe-17', 'unit': 'celsius', 'value': 21.5, 'ok': True} for _ in range(45000)]
        for comp in ('gzip', 'zstd'):
            roundtrip(f'45000 equal objects (about 3 MB of text in one compressed read chunk), compression={comp}', rows, compression=comp)
    return fails, n_eval


def check_c15(opts):
    rx, ops, rs = _imports()
    import rxsci.framing.line as line
    import rxsci.framing.length_prefix as lp
    t0 = time.time()
    tier = opts.get('tier', 'quick')
    fails = []; evals = 0
    # ---- line framing
    alpha = ['a', '', 'b\rc', '\x0c\x00', '\u2028x\x85', 'xy']       # items may contain every character but the newline itself
    lists = [list(p) for n in range(0, 4) for p in itertools.product(alpha[:5] if tier == 'quick' else alpha, repeat=n)]
    for items in lists:
        framed = run_plain(items, line.frame())
        stream = ''.join(framed)
        for ch in chunkings(stream, 2 if tier == 'quick' else 3):
            got = run_plain(ch, line.unframe())
            evals += 1
            if got != items:
                fails.append({'framing': 'line', 'items': items, 'chunks': ch, 'expected': items, 'got': got}); break
        # trailing unterminated line is delivered at completion
        got = run_plain([stream + 'tail'], line.unframe()); evals += 1
        if got != items + ['tail']:
            fails.append({'framing': 'line', 'items': items, 'chunks': [stream + 'tail'], 'expected': items + ['tail'], 'got': got})
    # ---- length prefix
    balpha = [b'', b'a', b'\n', b'\x00\x00', b'xyz']
    blists = [list(p) for n in range(0, 4) for p in itertools.product(balpha[:4] if tier == 'quick' else balpha, repeat=n)]
    for P in (1, 2, 4, 8):
        for order in ('little', 'big'):
            for items in blists:
                framed = run_plain(items, lp.frame(P, order))
                stream = b''.join(framed)
                for ch in chunkings(stream, 2):
                    got = run_plain(ch, lp.unframe(P, order))
                    evals += 1
                    if got != items:
                        fails.append({'framing': f'length_prefix({P},{order})', 'items': [repr(i) for i in items], 'chunks': [repr(c) for c in ch], 'expected': repr(items), 'got': repr(got)}); break
                # an incomplete trailing frame is never delivered
                if stream:
                    got = run_plain([stream[:-1]], lp.unframe(P, order)); evals += 1
                    if got != items[:-1] and not (items and items[-1] == b'' and got == items[:-1]):
                        fails.append({'framing': f'length_prefix({P},{order})', 'truncated_stream': repr(stream[:-1]), 'expected': repr(items[:-1]), 'got': repr(got)})
    return result('e2e.C15.framing', 'all item lists of length <= 3 over a 4/5-symbol alphabet x all chunkings with <= 2 (3) cuts incl. empty chunks; prefix sizes 1,2,4,8 x both byte orders',
                  evals, evals, fails, True, t0)


def corpus(rnd, tier):
    big = 300 * 1024 if tier != 'quick' else 70 * 1024
    return [[], [b''], [b'', b''], [b'a'], [b'hello', b'', b' world'], [bytes(rnd.getrandbits(8) for _ in range(1000))], [b'ab' * 5000, b'', b'cd' * 3000],
            [bytes(rnd.getrandbits(8) for _ in range(big))], [b'x' * big],
            [b'\0' * (24 * 1024 * 1024)],                      # 1000:1 compressible, several internal buffer sizes
            [b'ab' * 100, bytes(rnd.getrandbits(8) for _ in range(70 * 1024)), b'tail']]      # small chunk, then a chunk above 64 KiB, then small


def rechunk(rnd, data, k):
    cuts = sorted(rnd.randrange(len(data) + 1) for _ in range(k))
    b = [0] + cuts + [len(data)]
    return [data[b[i]:b[i + 1]] for i in range(len(b) - 1)]


def check_c16(opts):
    rx, ops, rs = _imports()
    import gzip, zstandard
    t0 = time.time()
    rnd = random.Random(opts.get('seed', 0)); tier = opts.get('tier', 'quick')
    fails = []; evals = 0
    for name, comp, decomp, ref in (('gzip', rs.compression.z.compress, rs.compression.z.decompress, gzip.decompress),
                                    ('zstd', rs.compression.zstd.compress, rs.compression.zstd.decompress, lambda b: zstandard.ZstdDecompressor().decompressobj().decompress(b))):
        for chunks in corpus(rnd, tier):
            want = b''.join(chunks)
            cz = run_plain(chunks, comp())
            if not isinstance(cz, list):
                fails.append({'codec': name, 'stage': 'compress', 'chunks': [len(c) for c in chunks], 'got': str(cz)[:200]}); continue
            stream = b''.join(cz)
            evals += 1
            try:
                if ref(stream) != want:
                    fails.append({'codec': name, 'problem': 'not a valid standalone file for the reference decoder', 'chunks': [len(c) for c in chunks]})
            except Exception as ex:
                fails.append({'codec': name, 'problem': f'reference decoder failed: {ex}', 'chunks': [len(c) for c in chunks]})
            rechunkings = [[stream], [stream, b''], [b'', stream], [stream[:1], stream[1:]], [bytes([c]) for c in stream[:64]] + [stream[64:]]] + \
                          [rechunk(rnd, stream, k) for k in (1, 2, 3, 7) for _ in range(3 if tier == 'quick' else 12)]
            for ch in rechunkings:
                got = run_plain(ch, decomp())
                evals += 1
                if not isinstance(got, list) or b''.join(got) != want:
                    fails.append({'codec': name, 'original_chunks': [len(c) for c in chunks], 'compressed_rechunked_as': [len(c) for c in ch],
                                  'expected_len': len(want), 'got': (str(got)[:200] if not isinstance(got, list) else len(b''.join(got)))}); break
            # truncation: every prefix (sampled for long streams) must end in on_error, never complete
            cut_points = range(len(stream)) if len(stream) < 200 else sorted({rnd.randrange(len(stream)) for _ in range(40)} | {0, 1, len(stream) - 1})
            for c in cut_points:
                got = run_plain([stream[:c]], decomp())
                evals += 1
                if isinstance(got, list):
                    fails.append({'codec': name, 'truncated_at': c, 'of': len(stream), 'problem': 'truncated stream completed without error', 'got_len': len(b''.join(got))}); break
    return result('e2e.C16.compression', 'gzip+zstd x 9 chunk lists (empty, empty chunks, 1 KB random, 70 KB (300 KB thorough) random / constant) x fixed + seeded random re-chunkings x truncation points',
                  evals, evals, fails, False, t0)


def check_c17(opts):
    rx, ops, rs = _imports()
    t0 = time.time()
    tier = opts.get('tier', 'quick')
    fails = []; evals = 0
    alpha = ['a', 'é', '€', '\U0001F600', '́', '\ufeff']      # U+FEFF is a character of the text like any other (only the codec's own byte-order mark is not)
    strs = [''.join(p) for n in range(0, 4 if tier == 'quick' else 5) for p in itertools.product(alpha, repeat=n)]
    for enc in ('utf-8', 'utf-16', 'utf-32', 'latin-1'):
        for s in strs:
            if enc == 'latin-1' and any(ord(c) > 255 for c in s):
                continue
            for parts in ([s], [s[:1], s[1:]], list(s) + [''], ['', s]):
                data = run_plain(parts, rs.data.encode(enc))
                if not isinstance(data, list):
                    fails.append({'encoding': enc, 'strings': parts, 'got': str(data)}); continue
                stream = b''.join(data)
                evals += 1
                if stream != ''.join(parts).encode(enc):
                    fails.append({'encoding': enc, 'strings': parts, 'problem': 'encoded stream differs from one-shot encoding (BOM written more than once?)', 'got': repr(stream)})
                for ch in chunkings(stream, 2) if len(stream) <= 12 else [[stream[:1], stream[1:]], [bytes([b]) for b in stream]]:
                    got = run_plain(ch, rs.data.decode(enc))
                    evals += 1
                    if not isinstance(got, list) or ''.join(got) != ''.join(parts):
                        fails.append({'encoding': enc, 'strings': parts, 'byte_chunks': [repr(c) for c in ch], 'expected': ''.join(parts), 'got': str(got)[:200]}); break
    # the same piped observable subscribed twice: every subscription gets its own incremental codec state (BOM once per stream, no bytes carried over)
    import rx
    for enc in ('utf-8', 'utf-16', 'utf-32'):
        text = ['h\u00e9llo ', '\U0001F600 w\u00f6rld']
        obs = rx.from_(text).pipe(rs.data.encode(enc))
        runs = []
        for _ in range(2):
            out = []
            try: obs.subscribe(on_next=out.append)
            except Exception as ex: out = [repr(ex).encode()]
            runs.append(b''.join(out))
        evals += 1
        if runs[0] != ''.join(text).encode(enc) or runs[1] != runs[0]:
            fails.append({'encoding': enc, 'problem': 'second subscription of the same encode pipeline differs', 'first': repr(runs[0][:12]), 'second': repr(runs[1][:12])})
        data = ''.join(text).encode(enc)
        dobs = rx.from_([data[:3], data[3:]]).pipe(rs.data.decode(enc))
        runs = []
        for _ in range(2):
            out = []; err = []
            try: dobs.subscribe(on_next=out.append, on_error=err.append)
            except Exception as ex: err.append(ex)
            runs.append(''.join(out) if not err else repr(err[0]))
        evals += 1
        if runs[0] != ''.join(text) or runs[1] != runs[0]:
            fails.append({'encoding': enc, 'problem': 'second subscription of the same decode pipeline differs', 'first': runs[0], 'second': runs[1]})
        # a first subscriber that stops inside a multi-byte sequence must not leave pending bytes for the next one
        out = []; dobs2 = rx.from_([data[:len(data) - 1], data[len(data) - 1:]]).pipe(rs.data.decode(enc))
        try: dobs2.pipe(ops.take(1)).subscribe(on_next=out.append)
        except Exception: pass
        out2 = []; err2 = []
        try: dobs2.subscribe(on_next=out2.append, on_error=err2.append)
        except Exception as ex: err2.append(ex)
        evals += 1
        if err2 or ''.join(out2) != ''.join(text):
            fails.append({'encoding': enc, 'problem': 'decoder state leaked from a previous subscription', 'got': ''.join(out2), 'error': repr(err2[0]) if err2 else None})
    # the json file pipeline (named in C17's anchors) uses the incremental codec: one byte-order mark per file, nothing lost at a read-chunk boundary
    d = tempfile.mkdtemp(prefix='rxv_c17_')
    try:
        f2, n2 = json_file_scenarios(rs, d, ('encodings', 'bom_at_chunk_boundary'))
        fails += f2; evals += n2
    finally:
        import shutil; shutil.rmtree(d, ignore_errors=True)
    return result('e2e.C17.codec', f'all strings of length <= {3 if tier == "quick" else 4} over {{a, e-acute, euro, emoji, combining acute, U+FEFF}} x 4 splits x utf-8/16/32/latin-1 x all byte chunkings with <= 2 cuts; '
                  'json dump_to_file / load_from_file with utf-8/16/32 (one BOM per file) and U+FEFF at the 64 KiB read-chunk boundaries', evals, evals, fails, True, t0)


def check_c18(opts):
    rx, ops, rs = _imports()
    import rxsci.container.csv as csv
    from collections import namedtuple
    t0 = time.time()
    rnd = random.Random(opts.get('seed', 0)); tier = opts.get('tier', 'quick')
    fails = []; evals = 0
    known = _known('C18')
    def roundtrip(rows, dtype, sep=',', esc='\\'):
        Item = namedtuple('x', [n for n, _ in dtype])
        items = [Item(*r) for r in rows]
        lines = run_plain(items, csv.dump(header=True, separator=sep, escapechar=esc))
        if not isinstance(lines, list): return lines
        text = ''.join(lines)
        parser = csv.create_line_parser(dtype=dtype, separator=sep, escapechar=esc)
        # re-chunk the text arbitrarily, then unframe lines
        import rxsci.framing.line as line
        got = run_plain([text[:len(text) // 2], text[len(text) // 2:]], line.unframe(), csv.load(parser))
        return [tuple(g) for g in got] if isinstance(got, list) else got
    # numbers: exact value and sign
    floats = [0.0, -0.0, 1.5, -1.5, -0.5, 0.1, -0.1, 1e-7, 1e22, 123456.789, -3.0, 2.5e-300, 1.7976931348623157e308] + [rnd.uniform(-1e6, 1e6) for _ in range(300 if tier == 'quick' else 5000)] + \
             [rnd.random() for _ in range(300 if tier == 'quick' else 5000)]
    for f in floats:
        got = roundtrip([(f, 7)], [('a', 'float'), ('b', 'int')])
        evals += 1
        if got != [(f, 7)] or (isinstance(got, list) and str(got[0][0]) != str(f)):
            fails.append({'column_types': ['float', 'int'], 'row': [f, 7], 'expected': [(f, 7)], 'got': str(got)[:200]})
    for i in (0, -1, 7, -12345678901234567890, 2 ** 63):
        got = roundtrip([(i, True), (i, False)], [('a', 'int'), ('b', 'bool')]); evals += 1
        if got != [(i, True), (i, False)]: fails.append({'column_types': ['int', 'bool'], 'rows': [[i, True], [i, False]], 'got': str(got)[:200]})
    # strings: all strings of length <= 3 (quick) / 4 over {sep, quote, escape, a, space}, 1-2 columns
    for sep in (',', ';', '|', '\t', '::'):
        alpha = [sep, '"', '\\', 'a', ' ']
        L = 3 if tier == 'quick' else 4
        strs = [''.join(p) for n in range(0, L + 1) for p in itertools.product(alpha, repeat=n)]
        pool = strs if tier != 'quick' else strs[::3] + strs[:40]
        for s in pool:
            for row, dtype in (((s,), [('a', 'str')]), ((s, 'z'), [('a', 'str'), ('b', 'str')]), (('z', s), [('a', 'str'), ('b', 'str')])):
                got = roundtrip([row], dtype, sep)
                evals += 1
                if got != [row]:
                    f = {'separator': sep, 'row': list(row), 'expected': [row], 'got': str(got)[:200]}
                    if any(k(f) for k in known):
                        continue
                    fails.append(f)
                    if len(fails) > 8: break
            if len(fails) > 8: break
    # "byte for byte": every single character (all code points below U+3000 but the line terminator, plus a few from the far planes)
    # inside and alone in a string field -- a placeholder / sentinel used by an escaping step shows up here whatever character it is
    cps = [c for c in range(0, 0x3000) if c != 0x0A] + [0xD7FF, 0xE000, 0xFEFF, 0xFFFD, 0xFFFE, 0xFFFF, 0x10000, 0x1F600, 0x10FFFF]
    step = 4 if tier == 'quick' else 1
    chars = [chr(c) for i, c in enumerate(cps) if c < 0x100 or i % step == (opts.get('seed', 0) % step)] if step > 1 else [chr(c) for c in cps]
    for sep, esc in ((',', '\\'), (';', '^')):
        for b in range(0, len(chars), 512):
            rows = [('k' + ch + 'v', ch) for ch in chars[b:b + 512]]
            got = roundtrip(rows, [('a', 'str'), ('b', 'str')], sep, esc)
            evals += len(rows)
            if got != rows:
                bad = next((r for r in rows if roundtrip([r], [('a', 'str'), ('b', 'str')], sep, esc) != [r]), rows[0])
                fails.append({'separator': sep, 'escapechar': esc, 'row': [repr(x) for x in bad], 'expected': str([bad]),
                              'got': str(roundtrip([bad], [('a', 'str'), ('b', 'str')], sep, esc))[:200], 'scenario': 'single unusual character in a string field'})
                break
    # a non-default escape character, matching on both sides: all strings of length <= 3 (4) over {sep, quote, escape, a, backslash}
    for sep, esc in ((',', '^'), (';', '^'), (',', '~')):
        alpha = [sep, '"', esc, 'a', '\\']
        L = 3 if tier == 'quick' else 4
        strs = [''.join(p_) for n in range(0, L + 1) for p_ in itertools.product(alpha, repeat=n)]
        nf = 0
        for s in strs:
            for row, dtype in (((s,), [('a', 'str')]), ((s, 'z'), [('a', 'str'), ('b', 'str')]), (('z', s), [('a', 'str'), ('b', 'str')])):
                got = roundtrip([row], dtype, sep, esc)
                evals += 1
                if got != [row]:
                    fails.append({'separator': sep, 'escapechar': esc, 'row': list(row), 'expected': [row], 'got': str(got)[:200]}); nf += 1
            if nf > 4: break
    # files larger than the 64 KiB read chunk, with multi-byte characters everywhere (so that read-chunk boundaries fall inside characters of
    # the encoded file), and the same dump pipeline subscribed twice (header once per subscription)
    d = tempfile.mkdtemp(prefix='rxv_c18_')
    try:
        from collections import namedtuple as _nt
        dtype = [('id', 'int'), ('name', 'str'), ('v', 'float')]
        Item = _nt('x', [n for n, _ in dtype])
        words = ['\u00e9t\u00e9', '\u20ac\u20ac\u20ac', '\U0001F600\U0001F601', '\u4e2d\u6587\u5b57', 'a,b', 'q"q', '', ' x ']
        for nrows in (0, 1, 4000 if tier == 'quick' else 20000):
            items = [Item(i, words[i % len(words)] * (1 + i % 3), i / 8) for i in range(nrows)]
            for enc in ((None, 'utf-8') if nrows else (None, 'utf-8', 'utf-16', 'utf-32', 'utf-8-sig')) + (('utf-16', 'utf-32', 'utf-8-sig') if nrows == 1 else ()) + (('utf-16',) if nrows > 1 else ()):
                fn = os.path.join(d, f'c_{nrows}_{enc}.csv')
                try:
                    run_plain(items, csv.dump_to_file(fn, encoding=enc))
                    got = []; err = []
                    csv.load_from_file(fn, csv.create_line_parser(dtype=dtype), encoding=enc).subscribe(on_next=lambda r: got.append(tuple(r)), on_error=err.append)
                except Exception as ex:
                    got = []; err = [ex]
                evals += 1
                if err or got != [tuple(i) for i in items]:
                    fails.append({'scenario': f'dump_to_file / load_from_file, {nrows} rows, encoding={enc}, file of {os.path.getsize(fn) if os.path.exists(fn) else "?"} bytes',
                                  'error': repr(err[0])[:200] if err else None, 'rows_read': len(got), 'first_difference': next((i for i, (a, b) in enumerate(zip(got, items)) if a != tuple(b)), None)})
        # every alignment of a 3-byte character against the 64 KiB read boundary: the first row is padded by 0..15 bytes
        for shift in range(16):
            items = [Item(i, ('p' * shift if i == 0 else '') + '\u4e2d\u6587\u5b57' * 12, 0.5) for i in range(1600)]
            fn = os.path.join(d, f'shift_{shift}.csv')
            try:
                run_plain(items, csv.dump_to_file(fn, encoding='utf-8'))
                got = []; err = []
                csv.load_from_file(fn, csv.create_line_parser(dtype=dtype), encoding='utf-8').subscribe(on_next=lambda r: got.append(tuple(r)), on_error=err.append)
            except Exception as ex:
                got = []; err = [ex]
            evals += 1
            if err or got != [tuple(i) for i in items]:
                fails.append({'scenario': f'1600 rows of 3-byte characters, first row padded by {shift} bytes (a character straddles the 64 KiB read boundary), utf-8 file',
                              'error': repr(err[0])[:200] if err else None, 'rows_read': len(got)})
                break
        import rx as _rx
        items = [Item(i, 'n%d' % i, 0.5) for i in range(3)]
        obs = _rx.from_(items).pipe(csv.dump())
        runs = []
        for _ in range(2):
            out = []; obs.subscribe(on_next=out.append, on_error=lambda e: out.append(repr(e))); runs.append(''.join(out))
        evals += 1
        if runs[0] != runs[1] or not runs[0].startswith('id,name,v'):
            fails.append({'scenario': 'the same csv.dump pipeline subscribed twice', 'first': runs[0], 'second': runs[1]})
        fn = os.path.join(d, 'twice.csv'); dobs = _rx.from_(items).pipe(csv.dump_to_file(fn))
        reads = []
        for _ in range(2):
            dobs.subscribe(on_error=lambda e: None)
            got = []; csv.load_from_file(fn, csv.create_line_parser(dtype=dtype)).subscribe(on_next=lambda r: got.append(tuple(r)), on_error=lambda e: got.append(repr(e)))
            reads.append(got)
        evals += 1
        if reads[0] != [tuple(i) for i in items] or reads[1] != reads[0]:
            fails.append({'scenario': 'the same dump_to_file pipeline subscribed twice (re-export), file loaded after each', 'first': str(reads[0])[:200], 'second': str(reads[1])[:200]})
        # the file export as a tee_map branch, fed by a source that emits while the subscription is still being set up, and cut by first():
        # every row is in the file, the file is closed when the subscriber is told "completed" (the encoder must not go through the scheduler)
        import io as _io
        Row = namedtuple('Row', ['a', 'b'])
        for enc, exp in (('utf-8', b'a,b\n1,"x"\n2,"\xc3\xa9"\n'), ('utf-16', 'a,b\n1,"x"\n2,"\u00e9"\n'.encode('utf-16')), (None, 'a,b\n1,"x"\n2,"\u00e9"\n')):
            def sync_rows(observer, scheduler):
                for r in (Row(1, 'x'), Row(2, '\u00e9')): observer.on_next(r)
                observer.on_completed()
            buf = _io.BytesIO() if enc else _io.StringIO()
            buf.close = lambda: None
            ev = []
            _rx.create(sync_rows).pipe(rs.ops.tee_map(csv.dump_to_file(buf, encoding=enc), ops.count(), join='merge')).subscribe(
                on_next=ev.append, on_error=lambda e: ev.append(repr(e)), on_completed=lambda: ev.append('completed'))
            evals += 1
            if buf.getvalue() != exp or ev != [2, 'completed']:
                fails.append({'scenario': f'rx.create(2 rows, synchronous) > tee_map(csv.dump_to_file(buffer, encoding={enc!r}), count(), join=merge)', 'expected content': repr(exp), 'got': repr(buf.getvalue()), 'events': str(ev)[:120]})
            fn = os.path.join(d, f'first_{enc}.csv'); closed = []
            def open_obj(name, mode, encoding=None, closed=closed):
                f = open(name, mode, encoding=encoding) if encoding else open(name, mode)
                class F:
                    def write(self, data): return f.write(data)
                    def close(self):
                        closed.append(True); f.close()
                return F()
            ev = []
            _rx.from_([Row(1, 'x'), Row(2, '\u00e9')]).pipe(rs.ops.tee_map(csv.dump_to_file(fn, encoding=enc, open_obj=open_obj), ops.count(), join='merge'), ops.first()).subscribe(
                on_next=ev.append, on_error=lambda e: ev.append(repr(e)), on_completed=lambda: ev.append('completed'))
            evals += 1
            try:
                got = open(fn, 'rb').read() if enc else open(fn, 'r').read()
            except Exception as ex:
                got = repr(ex)
            if not closed or got != exp or ev != [2, 'completed']:
                fails.append({'scenario': f'from_(2 rows) > tee_map(csv.dump_to_file(path, encoding={enc!r}), count(), join=merge) > first()', 'expected': 'file closed, content ' + repr(exp),
                              'got': f'closed: {bool(closed)}, content {got!r}', 'events': str(ev)[:120]})
    finally:
        import shutil; shutil.rmtree(d, ignore_errors=True)
    return result('e2e.C18.csv', 'every single character below U+3000 except the line terminator (quick: all below U+0100, every 4th above) plus 9 far-plane code points, inside and alone in a string field, separators , and ; with escape \\ and ^; escape characters ^ and ~ (strings over {sep, quote, escape, a, backslash}); files of 0 / 1 / 4000 (20000) rows of multi-byte text through dump_to_file / load_from_file '
                  '(> 64 KiB read chunks, encoding None / utf-8 / utf-16 / utf-32 / utf-8-sig: one byte-order mark per file); the same dump pipeline subscribed twice; dump_to_file as a tee_map branch (synchronous source, cut by first()); floats: 13 special + 600 (10000) seeded; ints incl. > 64 bit; strings: length <= 3 (4) over {sep, quote, escape, a, space} in 1-2 columns x 5 separators; text re-chunked in two',
                  evals, evals, fails, False, t0)


def _known(pid):
    """predicates for failing cases that are listed in known_findings.json (so that only unlisted failures are reported)"""
    import json
    here = os.path.dirname(os.path.dirname(os.path.dirname(os.path.abspath(__file__))))
    try:
        kf = json.load(open(os.path.join(here, 'known_findings.json')))
    except Exception:
        return []
    preds = []
    for k in kf.get('findings', []):
        if k.get('property') == pid and k.get('bounded_carve_out') == 'csv_string_ends_with_escape':
            preds.append(lambda f: any(isinstance(x, str) and x.endswith('\\') for x in f.get('row', [])))
    return preds


def check_c19(opts):
    rx, ops, rs = _imports()
    import rxsci.container.json as js
    t0 = time.time()
    rnd = random.Random(opts.get('seed', 0)); tier = opts.get('tier', 'quick')
    fails = []; evals = 0
    def rand_obj(depth=0):
        r = rnd.random()
        if depth > 2 or r < 0.35:
            return rnd.choice([0, -1, 2 ** 63 - 1, -2 ** 63, 1.5, -0.25, True, False, None, '', 'a"b', 'line\nbreak', 'café \U0001F600', '\\n', ' x '])
        if r < 0.65:
            return [rand_obj(depth + 1) for _ in range(rnd.randrange(0, 4))]
        return {rnd.choice(['k', 'a b', 'é', 'q"', 'n\n']) + str(i): rand_obj(depth + 1) for i in range(rnd.randrange(0, 4))}
    def objs(n):
        # every fifth object is falsy-but-not-None ({}): one item per object also then
        return [({} if i % 5 == 4 else {'id': i, 'v': rand_obj()}) for i in range(n)]
    sizes = [0, 1, 3, 50, 2500 if tier == 'quick' else 9000]
    d = tempfile.mkdtemp(prefix='rxv_c19_')
    try:
        for comp in (None, 'gzip', 'zstd'):
            for n in sizes:
                items = objs(n)
                fn = os.path.join(d, f'f_{comp}_{n}.json')
                out = run_plain(items, js.dump_to_file(fn, compression=comp))
                got = []; err = []
                js.load_from_file(fn, compression=comp).subscribe(on_next=got.append, on_error=err.append)
                evals += 1
                if err or got != items:
                    fails.append({'compression': comp, 'objects': n, 'file_bytes': os.path.getsize(fn) if os.path.exists(fn) else None, 'error': repr(err[0]) if err else None,
                                  'first_difference': next((i for i, (a, b) in enumerate(zip(got, items)) if a != b), None), 'got_count': len(got)})
        # in-memory dump/load with arbitrary re-chunking of the text
        for n in (0, 2, 7):
            items = objs(n)
            lines = run_plain(items, js.dump())
            text = ''.join(lines)
            import rxsci.framing.line as line
            for ch in ([text], rechunk(rnd, text, 3), list(text)):
                got = run_plain(ch, line.unframe(), js.load()); evals += 1
                if got != items: fails.append({'objects': items[:3], 'chunks': len(ch), 'got': str(got)[:200]})
        f2, n2 = json_file_scenarios(rs, d, ('encodings', 'line_boundaries', 'bom_at_chunk_boundary', 'short_reads', 'redundant'))
        fails += f2; evals += n2
    finally:
        import shutil; shutil.rmtree(d, ignore_errors=True)
    return result('e2e.C19.json', f'seeded nested objects (64-bit ints, unicode, embedded newlines/quotes) x sizes {sizes} x None/gzip/zstd through real files (> 64 KiB read chunks); in-memory re-chunkings; utf-8/16/32 files; strings with U+2028/U+2029/U+0085/CR/U+FEFF; '
                  'U+FEFF at read-chunk boundaries; custom open_obj with short reads; 45000 equal objects (one compressed chunk inflating to ~3 MB)',
                  evals, evals, fails, False, t0)


def check_c20(opts):
    rx, ops, rs = _imports()
    import pyarrow as pa
    import rxsci.container.parquet as pq_
    t0 = time.time()
    tier = opts.get('tier', 'quick')
    fails = []; evals = 0
    schema = pa.schema([('i', pa.int64()), ('s', pa.string()), ('f', pa.float64()), ('st', pa.struct([('a', pa.int32()), ('b', pa.string())])), ('l', pa.list_(pa.int64()))])
    def rows(n):
        return [{'i': k, 's': f's{k}é', 'f': k / 4, 'st': {'a': k % 7, 'b': str(k)}, 'l': list(range(k % 4))} for k in range(n)]
    counts = [0, 1, 2, 3, 5, 6, 1023, 1024, 1025] + ([2048, 5000] if tier != 'quick' else [2048])
    bsizes = [1, 2, 3, 1024] + ([2000] if tier != 'quick' else [])
    d = tempfile.mkdtemp(prefix='rxv_c20_')
    try:
        for n in counts:
            for bs in bsizes:
                if tier == 'quick' and n > 6 and bs < 3: continue
                for comp in (['snappy'] if tier == 'quick' else ['snappy', 'NONE', 'gzip', 'zstd']):
                    data = rows(n)
                    fn = os.path.join(d, f'p_{n}_{bs}_{comp}.parquet')
                    r = run_plain(data, pq_.dump_to_file(fn, schema, batch_size=bs, compression=comp))
                    for lb in ([1024] if tier == 'quick' else [1, 7, 1024, 2000]):
                        got = []; err = []
                        pq_.load_from_file(fn, batch_size=lb).subscribe(on_next=got.append, on_error=err.append)
                        evals += 1
                        if err or got != data:
                            fails.append({'rows': n, 'dump_batch_size': bs, 'load_batch_size': lb, 'compression': comp, 'error': repr(err[0])[:200] if err else None, 'rows_read': len(got),
                                          'first_difference': next((i for i, (a, b) in enumerate(zip(got, data)) if a != b), None)})
                            break
        # explicit row_group_size, incl. a last batch that crosses a row-group boundary and leaves a remainder
        for (n, bs, rg) in ((100, 100, 64), (240, 60, 100), (900, 300, 250), (150, 100, 64), (10, 3, 4), (7, 7, 7), (5, 2, 1)):
            data = rows(n); fn = os.path.join(d, f'rg_{n}_{bs}_{rg}.parquet')
            run_plain(data, pq_.dump_to_file(fn, schema, batch_size=bs, row_group_size=rg))
            got = []; err = []
            pq_.load_from_file(fn).subscribe(on_next=got.append, on_error=err.append); evals += 1
            if err or got != data:
                fails.append({'rows': n, 'dump_batch_size': bs, 'row_group_size': rg, 'error': repr(err[0])[:200] if err else None, 'rows_read': len(got)})
        # the same dump pipeline object subscribed twice writes the same file twice
        import rx
        data = rows(5); fn = os.path.join(d, 'twice.parquet')
        pipe = rx.from_(data).pipe(pq_.dump_to_file(fn, schema, batch_size=8))
        for attempt in (1, 2):
            pipe.subscribe()
            got = []; pq_.load_from_file(fn).subscribe(on_next=got.append); evals += 1
            if got != data:
                fails.append({'problem': f'write #{attempt} of the same dump_to_file pipeline', 'rows': 5, 'rows_read': len(got)})
        # rows are mappings: equal dicts built with different key orders (also within one batch), keys in an order other than the schema's, extra keys
        sch2 = pa.schema([('lo', pa.int64()), ('hi', pa.int64()), ('name', pa.string())])
        variants = [lambda k: {'lo': k, 'hi': 1000 + k, 'name': f'n{k}'}, lambda k: {'hi': 1000 + k, 'name': f'n{k}', 'lo': k}, lambda k: {'name': f'n{k}', 'lo': k, 'hi': 1000 + k, 'extra': 0}]
        for pattern in ((0, 1), (1, 0, 0), (2, 0, 1), (1,), (0, 0, 0, 1)):
            for bs in (1, 2, 4, 64):
                data = [variants[pattern[k % len(pattern)]](k) for k in range(9)]
                want = [{'lo': r['lo'], 'hi': r['hi'], 'name': r['name']} for r in data]
                fn = os.path.join(d, f'ko_{"".join(map(str, pattern))}_{bs}.parquet')
                r = run_plain(data, pq_.dump_to_file(fn, sch2, batch_size=bs))
                got = []; err = []
                try: pq_.load_from_file(fn).subscribe(on_next=got.append, on_error=err.append)
                except Exception as ex: err.append(ex)
                evals += 1
                if err or got != want:
                    fails.append({'scenario': 'rows as dicts with different key orders', 'key order pattern': pattern, 'dump_batch_size': bs, 'error': repr(err[0])[:200] if err else None,
                                  'first_difference': next(((a, b) for a, b in zip(got, want) if a != b), None), 'rows_read': len(got)})
        # file object instead of a path
        buf = io.BytesIO(); data = rows(5)
        run_plain(data, pq_.dump_to_file(buf, schema, batch_size=2)); buf.seek(0)
        got = []; pq_.load_from_file(buf).subscribe(on_next=got.append); evals += 1
        if got != data: fails.append({'file_object': True, 'rows': 5, 'rows_read': len(got)})
    finally:
        import shutil; shutil.rmtree(d, ignore_errors=True)
    return result('e2e.C20.parquet', f'row counts {counts} x dump batch sizes {bsizes} x load batch sizes x codecs, nested struct/list columns, path and file object; dict rows with different key orders / extra keys', evals, evals, fails, False, t0)
