"""Loop contracts (DESIGN 3.5 / appendix A): inductive invariants, checked for all iteration counts.

  entry      inv(pre-loop state, j = 0)
  preserve   havoc everything the body may modify; assume 0 <= j < N and inv(j); run the real body once on every
             path; prove inv(j + 1)
  exit       continue from a second havoc with inv(N)          (break paths continue from their own state)

Termination is not verified (for-loops over range / finite sequences terminate by construction; while-loops: assumed).
"""
import ast
import z3
from z3 import And, Or, Not, Implies, If, IntVal, BoolVal, Int, Const, Length, Array, IntSort, simplify
from .sorts import *
from .values import *
from .engine import Unsupported, fresh, Obligation


def assigned_names(body):
    names = []
    for s in body:
        for n in ast.walk(s):
            if isinstance(n, ast.Name) and isinstance(n.ctx, ast.Store):
                names.append(n.id)
    return list(dict.fromkeys(names))


def havoc_value(v, tag):
    if isinstance(v, SInt): return SInt(fresh(tag, IntSort()))
    if isinstance(v, SBool): return SBool(fresh(tag, z3.BoolSort()))
    if isinstance(v, SReal): return SReal(fresh(tag, z3.RealSort()))
    if isinstance(v, SStr): return SStr(fresh(tag, z3.StringSort()))
    if isinstance(v, SBytes): return SBytes(fresh(tag, Bytes))
    if isinstance(v, SVal): return SVal(fresh(tag, Val))
    if isinstance(v, SKey): return SKey(fresh(tag, Key))
    if isinstance(v, bool): return SBool(fresh(tag, z3.BoolSort()))
    if isinstance(v, int): return SInt(fresh(tag, IntSort()))
    if isinstance(v, float): return SReal(fresh(tag, z3.RealSort()))
    if v is None: return SVal(fresh(tag, Val))
    if isinstance(v, SSeq): return SSeq(fresh(tag, v.t.sort()), v.kind)
    return v        # references / closures / hosts: the binding itself is not changed by the loops we support


def havoc_heap(p, oid, tag, attrs=()):
    c = p.heap[oid]
    if c[0] == 'arr':
        rest = tuple(c[4:5]) + tuple(fresh(tag + f'd{k}', x.sort()) for k, x in enumerate(c[5:]))
        p.heap[oid] = ('arr', fresh(tag + 'a', c[1].sort()), fresh(tag + 'n', IntSort()), c[3]) + rest
    elif c[0] in ('slist', 'deque'):
        p.heap[oid] = (c[0], fresh(tag, c[1].sort())) + tuple(c[2:])
    elif c[0] in ('set',):
        p.heap[oid] = ('set', fresh(tag, c[1].sort()))
    elif c[0] == 'dict':
        p.heap[oid] = ('dict', fresh(tag + 'd', c[1].sort()), fresh(tag + 'v', c[2].sort()), fresh(tag + 'o', c[3].sort()))
    elif c[0] == 'bytesio':
        p.heap[oid] = ('bytesio', c[1], fresh(tag + 'pos', IntSort()))
    elif c[0] == 'chunkfile':
        p.heap[oid] = ('chunkfile', c[1], fresh(tag + 'k', IntSort()))
    elif c[0] == 'obj':
        d = {k: (havoc_value(v, tag + k) if k in attrs else v) for k, v in c[1].items()}
        p.heap[oid] = ('obj', d) + tuple(c[2:])
    # python-level lists of concrete length are not havocked (loops that mutate them need unrolling)


class InvLoop:
    """inv(L, path, j) -> z3 Bool or list of (name, Bool).   L.pre is the pre-loop path (for old values),
    L.eng the engine, L.extra what the contract stored.  `modifies`: 'store', 'trace', heap object selectors, ..."""

    def __init__(self, inv, modifies=('locals', 'store', 'trace', 'heap'), lemmas=None, name='loop', bound=None):
        self.inv = inv; self.modifies = modifies; self.lemmas = lemmas; self.name = name; self.bound = bound
        self.pre = None; self.eng = None; self.extra = {}
        self.modes = None; self.mode_setup = None       # case split of the havocked state (a local that is None or a list): see havocs()

    def havocs(self, eng, p, s, fr, tag):
        """the arbitrary loop-head states the preserve / exit steps start from: one, or one per declared mode (the contract's
        mode_setup(L, q, mode) rebinds the locals whose python type differs between the modes, e.g. `agg` = None | list)"""
        if not self.modes:
            return [(None, self.havoc(eng, p, s, fr, tag))]
        out = []
        for m in self.modes:
            q = self.havoc(eng, p, s, fr, f'{tag}{m}')
            self.mode_setup(self, q, m, f'{tag}{m}')
            out.append((m, q))
        return out

    def _inv_list(self, p, j):
        r = self.inv(self, p, j)
        if isinstance(r, list):
            return [(e[0], e[1], (e[2] if len(e) > 2 else None)) for e in r]
        return [('inv', r, None)]

    def havoc(self, eng, p, s, fr, tag):
        q = p.fork()
        if 'locals' in self.modifies:
            for n in assigned_names(s.body):
                cid = fr.scope.lookup(n)
                if cid is not None and cid in q.cells:
                    q.cells[cid] = havoc_value(q.cells[cid], f'{tag}_{n}')
        if 'store' in self.modifies:
            for o in list(q.store.marker):
                q.store.marker[o] = fresh(f'{tag}_m{o}', q.store.marker[o].sort())
                q.store.value[o] = fresh(f'{tag}_v{o}', q.store.value[o].sort())
            for k in list(q.store.extra):
                v = q.store.extra[k]
                if z3.is_expr(v):
                    q.store.extra[k] = fresh(f'{tag}_x', v.sort())
        if 'trace' in self.modifies:
            q.trace = fresh(f'{tag}_trace', Trace)
            ys = q.ghost.get('yields', ())
            if ys:
                q.ghost['yields'] = ys[:-1] + (fresh(f'{tag}_yields', ValSeq),)
        if 'heap' in self.modifies:
            attrs = {n.attr for st in s.body for n in ast.walk(st) if isinstance(n, ast.Attribute) and isinstance(n.ctx, ast.Store)}
            for oid in list(q.heap):
                havoc_heap(q, oid, f'{tag}_h{oid}', attrs)
        return q

    def scope_lookup(self, name):
        return self.fr.scope.lookup(name)

    def symbolic_lists(self, eng, p, s, fr):
        """python lists of statically known length that the loop body appends to become z3 sequences (symbolic length)"""
        kinds = getattr(self, 'list_kinds', {})
        for st in s.body:
            for n in ast.walk(st):
                if isinstance(n, ast.Call) and isinstance(n.func, ast.Attribute) and n.func.attr in ('append', 'extend') and isinstance(n.func.value, ast.Name):
                    cid = fr.scope.lookup(n.func.value.id)
                    v = p.cells.get(cid) if cid is not None else None
                    if isinstance(v, Ref) and p.heap[v.oid][0] == 'list':
                        kind = kinds.get(n.func.value.id, 'val')
                        items = p.heap[v.oid][1]
                        sort = {'val': ValSeq, 'real': z3.SeqSort(z3.RealSort()), 'str': z3.SeqSort(z3.StringSort()), 'int': z3.SeqSort(IntSort())}[kind]
                        from .heapmodels import elem_term
                        ts = [elem_term(eng, p, x, kind) for x in items]
                        seq = z3.Empty(sort) if not ts else (z3.Unit(ts[0]) if len(ts) == 1 else z3.Concat(*[z3.Unit(t) for t in ts]))
                        p.heap[v.oid] = ('slist', seq, kind)

    def _preserve(self, eng, p, s, fr, ph, is_for, N, seq, where, lname):
        j = fresh(f'{lname}_j', IntSort())
        hyp = []
        if is_for:
            hyp += [j >= 0, j < N]
        for nm, g, _o in self._inv_list(ph, j):
            hyp.append(g)
        ph.pc.extend(hyp)
        if self.lemmas:
            ph.pc.extend(self.lemmas(self, ph, j))
        body_paths = []
        exits = []
        if is_for:
            if seq is not None:
                x = elem(seq, j)
            else:
                x = SInt(j)
            starts = eng.assign(ph, s.target, x, fr)
        else:
            starts = []
            for q, c in eng.ev_cond(ph, s.test, fr):
                if c is True: starts.append(q)
                elif c is False: continue
                else:
                    q.pc.append(c)
                    if eng.feasible(q.pc): starts.append(q)
        for q in starts:
            for q2 in eng.run_block([q], s.body, fr):
                q2.cont = False
                if q2.brk:
                    q2.brk = False; exits.append(q2); continue
                if not q2.live:
                    exits.append(q2); continue       # return / exception inside the loop: leaves with its own state
                body_paths.append(q2)
        for bi, q in enumerate(body_paths):
            jn = (j + 1) if is_for else j
            for nm, g, o_ in self._inv_list(q, jn):
                o_ = o_ or {}
                if 'prove' in o_:
                    alt = o_['prove'](self, q, jn)      # skolemised form of the same clause + hints
                    eng.add_obligation(f'{where}/{lname}/preserve{bi}.{nm}', q.pc, alt[0], 'loop', q, alt[1])
                else:
                    eng.add_obligation(f'{where}/{lname}/preserve{bi}.{nm}', q.pc, g, 'loop', q, {'lemmas': o_.get('lemmas')})
        return exits

    def _exit(self, eng, s, fr, pe, is_for, N):
        if is_for:
            Nn = If(N > 0, N, 0)
            for nm, g, _o in self._inv_list(pe, Nn):
                pe.pc.append(g)
            out = [pe]
        else:
            for nm, g, _o in self._inv_list(pe, None):
                pe.pc.append(g)
            if self.lemmas:
                pe.pc.extend(self.lemmas(self, pe, None))       # defining equations of the spec functions at the exit state
            out = []
            for q, c in eng.ev_cond(pe, s.test, fr):
                if c is True: continue
                if c is False: out.append(q)
                else:
                    q.pc.append(Not(c))
                    if eng.feasible(q.pc): out.append(q)
        return out

    def apply(self, eng, p, s, itv, fr):
        self.fr = fr
        self.symbolic_lists(eng, p, s, fr)
        self.pre = p.fork(); self.eng = eng
        is_for = isinstance(s, ast.For)
        N = None; seq = None
        if is_for:
            if isinstance(itv, Host) and itv.kind == 'range':
                N = itv.n if not isinstance(itv.n, int) else IntVal(itv.n)
            elif isinstance(itv, Host) and itv.kind == 'seqiter':
                seq = itv; N = Length(itv.seq)
            elif isinstance(itv, Host) and itv.kind == 'dictview':
                trusted_dict_iter()
                c = p.heap[itv.ref.oid]
                sq = z3.Select(c[7], itv.i); seq = Host('seqiter', seq=sq, ek='val'); N = Length(sq)
            elif isinstance(itv, SSeq):
                seq = Host('seqiter', seq=itv.t, ek=itv.kind); N = Length(itv.t)
            elif isinstance(itv, Ref) and p.heap[itv.oid][0] in ('slist',):
                c = p.heap[itv.oid]; seq = Host('seqiter', seq=c[1], ek=c[2]); N = Length(c[1])
            elif isinstance(itv, SVal) and getattr(self, 'iter_as_seq', None):
                sq = self.iter_as_seq(self, p, itv); seq = Host('seqiter', seq=sq, ek='val'); N = Length(sq)
            else:
                raise Unsupported(f'loop over {itv!r}')
            self.N = N
        where = eng.where
        lname = f'loop{fr.loop_ordinals.get(id(s))}'
        # ---- entry
        j0 = IntVal(0)
        entry_facts = list(self.lemmas(self, p, j0)) if (self.lemmas and is_for) else []     # base-case equations of the spec folds
        for nm, g, o_ in self._inv_list(p, j0):
            eng.add_obligation(f'{where}/{lname}/entry.{nm}', list(p.pc) + entry_facts, g, 'loop', p, {'lemmas': (o_ or {}).get('lemmas')})
        # ---- preserve
        exits = []
        for mode, ph in self.havocs(eng, p, s, fr, f'{lname}h'):
            exits += self._preserve(eng, p, s, fr, ph, is_for, N, seq, where, lname + (f'[{mode}]' if mode else ''))
        # ---- exit
        out = []
        for mode, pe in self.havocs(eng, p, s, fr, f'{lname}x'):
            out += self._exit(eng, s, fr, pe, is_for, N)
        if self.lemmas and getattr(self, 'exit_lemmas', None):
            for q in out:
                q.pc.extend(self.exit_lemmas(self, q))
        res = []
        for q in out:
            if s.orelse: res.extend(eng.run_block([q], s.orelse, fr))
            else: res.append(q)
        return res + exits


def elem(seqhost, j):
    t = seqhost.seq[j]
    k = seqhost.ek
    if k == 'val': return SVal(t)
    if k == 'str': return SStr(t)
    if k == 'bytes': return SBytes(t)
    if k == 'int': return SInt(t)
    if k == 'real': return SReal(t)
    raise Unsupported(f'seq kind {k}')


def trusted_dict_iter():
    from .world import trusted
    trusted('dict: iteration yields the keys in insertion order')
