"""Trusted models of python's mutable containers (list, array.array, deque, set, dict, io.BytesIO).

heap content kinds
  ('list', (v0, v1, ...))            python list of statically known length
  ('arr', Array(Int->Val), n, kind)  list / array.array of symbolic length n; kind in {'val','int'}: what reads return
  ('slist', Seq(elem), kind)         list modelled as a z3 sequence (symbolic length)
  ('deque', Seq(Val))                collections.deque
  ('set', Array(Val->Bool))          set, membership modulo python equality (canon)
  ('dict', dom, val, order)          dict: Array(Val->Bool), Array(Val->Val), insertion order Seq(Val); keys modulo canon
  ('bytesio', oid_of_buffer?, pos)   io.BytesIO: content Seq(BitVec8) + position
"""
import z3
from z3 import (And, Or, Not, Implies, If, IntVal, BoolVal, RealVal, Int, Const, Concat, Unit, Length, Store, Select, K,
                IntSort, BoolSort, simplify, Empty, SeqSort, SubSeq, Function, is_int_value, ToReal)
from .sorts import *
from .values import *
from .engine import Unsupported, fresh, is_concrete
from .world import trusted


def wrap(eng, t, kind):
    if kind == 'val': return eng.from_val(t)
    if kind == 'int': return SInt(V.i(t))
    if kind == 'real': return SReal(V.r(t))
    if kind == 'bool': return SBool(V.b(t))
    raise Unsupported(kind)


def norm_index(eng, p, idx, n, what):
    """python index -> z3 Int, with the in-range obligation (negative indices wrap when statically negative)"""
    if isinstance(idx, int) and idx < 0:
        i = n + idx
    else:
        i = eng.to_int(p, idx, 'index')
        eng.oblige(p, f'{what}.index_nonneg', i >= 0, 'pre')      # a negative symbolic index would silently wrap
    eng.oblige(p, f'{what}.index_in_range', And(i >= 0, i < n), 'pre')
    return i


def construct(eng, p, n, args, kws):
    if n == 'collections.deque':
        trusted('collections.deque: FIFO sequence (append right, popleft, [0])')
        if args: raise Unsupported('deque(iterable)')
        return [(p, eng.new_obj(p, 'deque', ('deque', Empty(ValSeq))))]
    if n == 'builtins.set':
        trusted('set: membership modulo ==')
        if args: raise Unsupported('set(iterable)')
        return [(p, eng.new_obj(p, 'set', ('set', K(Val, BoolVal(False)))))]
    if n == 'builtins.dict':
        if args or kws: raise Unsupported('dict(...)')
        return [(p, eng.new_obj(p, 'dict', ('dict', K(Val, BoolVal(False)), K(Val, V.VNone), Empty(ValSeq))))]
    if n == 'array.array':
        trusted('array.array: typed list; append / index get / index set')
        code = args[0]
        if len(args) > 1: raise Unsupported('array with initializer')
        kind = {'q': 'int', 'Q': 'int', 'B': 'int', 'd': 'real'}.get(code)
        if kind is None: raise Unsupported(f'array typecode {code!r}')
        r = eng.new_obj(p, 'arr', ('arr', K(IntSort(), V.VInt(IntVal(0))), IntVal(0), kind, code))
        return [(p, r)]
    if n in ('io.BytesIO', '_io.BytesIO'):
        trusted('io.BytesIO: write appends at the position, read(n) returns and consumes up to n bytes, seek sets the position')
        if args: raise Unsupported('BytesIO(initial)')
        return [(p, eng.new_obj(p, 'bytesio', ('bytesio', Empty(Bytes), IntVal(0))))]
    raise Unsupported(n)


def content(p, r):
    return p.heap[r.oid]


def method(eng, p, o, name, args, kws):
    c = content(p, o)
    k = c[0]
    if k == 'list':
        items = list(c[1])
        if name == 'append':
            p.heap[o.oid] = ('list', tuple(items + [args[0]])); return [(p, None)]
        if name == 'clear':
            p.heap[o.oid] = ('list', ()); return [(p, None)]
        if name == 'extend':
            more = eng.concrete_items(p, args[0])
            if more is None: raise Unsupported('extend with symbolic')
            p.heap[o.oid] = ('list', tuple(items + more)); return [(p, None)]
        if name == 'pop' and not args:
            if not items: raise Unsupported('pop from empty')
            p.heap[o.oid] = ('list', tuple(items[:-1])); return [(p, items[-1])]
    if k == 'arr':
        a, n, kind = c[1], c[2], c[3]
        if name == 'append':
            v = args[0]
            t = typed_elem(eng, p, c, v)
            p.heap[o.oid] = ('arr', Store(a, n, t), n + 1, kind) + tuple(c[4:]); return [(p, None)]
        if name == 'extend' and len(args) == 1 and isinstance(args[0], Host) and args[0].kind == 'replist':
            # extend([x] * m): cells n .. n+m-1 hold x, the others are unchanged (a lambda array: no quantifier)
            t = typed_elem(eng, p, c, args[0].value); m = args[0].n
            ji = z3.Int('ext_i')
            p.heap[o.oid] = ('arr', z3.Lambda([ji], z3.If(And(ji >= n, ji < n + m), t, Select(a, ji))), n + m, kind) + tuple(c[4:]); return [(p, None)]
        if name == 'clear':
            p.heap[o.oid] = ('arr', a, IntVal(0), kind) + tuple(c[4:]); return [(p, None)]
        if name == 'pop' and not args:
            eng.oblige(p, 'pop.nonempty', n > 0, 'pre')
            p.heap[o.oid] = ('arr', a, n - 1, kind) + tuple(c[4:])
            return [(p, wrap(eng, Select(a, n - 1), kind))]
    if k == 'slist':
        s, kind = c[1], c[2]
        if name == 'pop' and not args:
            eng.oblige(p, 'pop.nonempty', Length(s) > 0, 'pre')
            p.heap[o.oid] = ('slist', SubSeq(s, 0, Length(s) - 1), kind)
            return [(p, elem_wrap(eng, s[Length(s) - 1], kind))]
        if name == 'append':
            p.heap[o.oid] = ('slist', Concat(s, Unit(elem_term(eng, p, args[0], kind))), kind); return [(p, None)]
        if name == 'clear':
            p.heap[o.oid] = ('slist', Empty(s.sort()), kind); return [(p, None)]
    if k == 'deque':
        s = c[1]
        if name == 'append':
            p.heap[o.oid] = ('deque', Concat(s, Unit(eng.to_val(p, args[0])))); return [(p, None)]
        if name == 'popleft':
            q = p.fork()
            q.pc.append(Length(s) == 0)
            out = []
            if eng.feasible(q.pc):
                q.exc = ExcV('IndexError', (), origin='deque.popleft'); out.append((q, None))
            p.pc.append(Length(s) > 0)
            if eng.feasible(p.pc):
                p.heap[o.oid] = ('deque', SubSeq(s, 1, Length(s) - 1))
                out.append((p, eng.from_val(s[0])))
            return out
        if name == 'extend':
            x = args[0]
            if isinstance(x, SSeq) and x.kind == 'val':
                p.heap[o.oid] = ('deque', Concat(s, x.t)); return [(p, None)]
            if isinstance(x, SVal):
                from .contracts.base import seq_of_val
                p.heap[o.oid] = ('deque', Concat(s, seq_of_val(x.t))); return [(p, None)]
            raise Unsupported('deque.extend')
        if name == 'clear':
            p.heap[o.oid] = ('deque', Empty(ValSeq)); return [(p, None)]
    if k == 'set':
        if name == 'add':
            eng.need_canon = True
            p.heap[o.oid] = ('set', Store(c[1], canon(eng.to_val(p, args[0])), BoolVal(True))); return [(p, None)]
    if k == 'bytesio':
        from . import strmodels
        return strmodels.bytesio_method(eng, p, o, name, args, kws)
    if k == 'chunkfile':
        # a readable file-like object: the k-th read() returns file_chunk(k) (assumed contract of file objects: an empty result means end
        # of file, a short non-empty result does not); bytes or text according to the mode it was opened with
        from .world import trusted
        trusted('file-like object: successive read(size) calls return successive chunks, empty exactly at end of file')
        if name == 'read':
            from .strmodels import file_chunk_b, file_chunk_s
            kk = c[2]
            p.heap[o.oid] = ('chunkfile', c[1], kk + 1)
            p.calls.append(('file.read', tuple(eng.to_val(p, a) for a in args)))
            return [(p, SBytes(file_chunk_b(kk)) if c[1] == 'b' else SStr(file_chunk_s(kk)))]
        if name == 'close':
            p.calls.append(('file.close', ())); return [(p, None)]
    if k == 'dict':
        if name == 'clear':
            p.heap[o.oid] = ('dict', K(Val, BoolVal(False)), K(Val, V.VNone), Empty(ValSeq)); return [(p, None)]
    raise Unsupported(f'{k}.{name}')


def typed_elem(eng, p, c, v):
    kind = c[3]
    code = c[4] if len(c) > 4 else None
    if kind == 'int':
        t = eng.to_int(p, v, 'array.item')
        if code in ('Q', 'B'):
            eng.oblige(p, 'array.unsigned.nonneg', t >= 0, 'type')
        if code == 'B':
            eng.oblige(p, 'array.byte.range', t <= 255, 'type')
        return V.VInt(t)
    if kind == 'real':
        return V.VReal(eng.to_real(p, v))
    return eng.to_val(p, v)


def elem_term(eng, p, v, kind):
    if kind == 'val': return eng.to_val(p, v)
    if kind == 'str': return eng.to_str(p, v)
    if kind == 'bytes': return eng.to_bytes(p, v)
    if kind == 'int': return eng.to_int(p, v)
    if kind == 'real': return eng.to_real(p, v)
    raise Unsupported(kind)


def elem_wrap(eng, t, kind):
    if kind == 'val': return eng.from_val(t)
    if kind == 'str': return SStr(t)
    if kind == 'bytes': return SBytes(t)
    if kind == 'int': return SInt(t)
    if kind == 'real': return SReal(t)
    raise Unsupported(kind)


def dv_arrays(p, dv):
    c = p.heap[dv.ref.oid]
    return c, c[5], c[6], c[7]


def dictview_contains(eng, p, dv, x):
    eng.need_canon = True
    c, dom, val, order = dv_arrays(p, dv)
    return Select(Select(dom, dv.i), canon(eng.to_val(p, x)))


def getitem(eng, p, base, idx):
    if isinstance(base, Host) and base.kind == 'dictview':
        eng.need_canon = True
        c, dom, val, order = dv_arrays(p, base)
        kk = canon(eng.to_val(p, idx))
        eng.oblige(p, 'dict.key_present', Select(Select(dom, base.i), kk), 'pre')
        return SInt(Select(Select(val, base.i), kk))
    c = content(p, base)
    if c[0] == 'pydict':
        if not is_concrete(idx): raise Unsupported('symbolic key into a literal dict')
        for k, v in c[1]:
            if k == idx: return v
        raise Unsupported(f'key {idx!r} not in literal dict')
    if c[0] == 'arr' and c[3] == 'dict':
        i = norm_index(eng, p, idx, c[2], 'list')
        return Host('dictview', ref=base, i=i)
    k = c[0]
    if k == 'list':
        if isinstance(idx, int):
            if not (-len(c[1]) <= idx < len(c[1])): raise Unsupported('index out of range on concrete list')
            return c[1][idx]
        # symbolic index into a concrete-length list: ite chain
        i = eng.to_int(p, idx, 'index')
        eng.oblige(p, 'list.index_in_range', And(i >= 0, i < len(c[1])), 'pre')
        vals = [eng.to_val(p, x) for x in c[1]]
        if not vals: raise Unsupported('index into empty list')
        t = vals[-1]
        for j in range(len(vals) - 2, -1, -1):
            t = If(i == j, vals[j], t)
        return eng.from_val(t)
    if k == 'arr':
        i = norm_index(eng, p, idx, c[2], 'list')
        return wrap(eng, Select(c[1], i), c[3])
    if k == 'slist':
        i = norm_index(eng, p, idx, Length(c[1]), 'list')
        return elem_wrap(eng, c[1][i], c[2])
    if k == 'deque':
        i = norm_index(eng, p, idx, Length(c[1]), 'deque')
        return eng.from_val(c[1][i])
    if k == 'dict':
        eng.need_canon = True
        kk = canon(eng.to_val(p, idx))
        eng.oblige(p, 'dict.key_present', Select(c[1], kk), 'pre')
        return eng.from_val(Select(c[2], kk))
    raise Unsupported(f'getitem on {k}')


def setitem(eng, p, base, idx, v):
    if isinstance(base, Host) and base.kind == 'dictview':
        eng.need_canon = True
        c, dom, val, order = dv_arrays(p, base)
        k_orig = eng.to_val(p, idx)
        kk = canon(k_orig); i = base.i
        d_i, v_i, o_i = Select(dom, i), Select(val, i), Select(order, i)
        p.heap[base.ref.oid] = c[:5] + (Store(dom, i, Store(d_i, kk, BoolVal(True))),
                                        Store(val, i, Store(v_i, kk, eng.to_int(p, v, 'dict.value'))),
                                        Store(order, i, If(Select(d_i, kk), o_i, Concat(o_i, Unit(k_orig)))))
        return
    c = content(p, base)
    if c[0] == 'arr' and c[3] == 'dict':
        i = norm_index(eng, p, idx, c[2], 'list')
        dom, val, order = c[5], c[6], c[7]
        if isinstance(v, Ref) and p.heap[v.oid][0] == 'dict':
            d = p.heap[v.oid]
            if not (z3.is_app(d[3]) and d[3].decl().kind() == z3.Z3_OP_SEQ_EMPTY):
                raise Unsupported('storing a non-empty dict into a mapper slot')
            p.heap[base.oid] = c[:5] + (Store(dom, i, K(Val, BoolVal(False))), Store(val, i, K(Val, IntVal(0))), Store(order, i, Empty(ValSeq)))
            return
        if isinstance(v, int) and v == 0:
            # del_key writes 0 into the slot: the mapping of that slot is gone
            p.heap[base.oid] = c[:5] + (Store(dom, i, K(Val, BoolVal(False))), Store(val, i, K(Val, IntVal(0))), Store(order, i, Empty(ValSeq)))
            return
        raise Unsupported(f'store {v!r} into mapper values')
    k = c[0]
    if k == 'list':
        if not isinstance(idx, int): raise Unsupported('symbolic index store into concrete list')
        items = list(c[1])
        if not (-len(items) <= idx < len(items)): raise Unsupported('index out of range on concrete list')
        items[idx] = v
        p.heap[base.oid] = ('list', tuple(items)); return
    if k == 'arr' and isinstance(idx, tuple) and idx and idx[0] == 'slice':
        # xs[lo:hi] = [a, b, ...] with a literal-length right-hand side that provably has hi - lo elements: element-wise stores
        if idx[3] is not None: raise Unsupported('slice assignment with a step')
        lo = eng.to_int(p, idx[1], 'slice') if idx[1] is not None else IntVal(0)
        hi = eng.to_int(p, idx[2], 'slice') if idx[2] is not None else c[2]
        vc = content(p, v) if isinstance(v, Ref) else None
        if vc is None or vc[0] != 'list': raise Unsupported('slice assignment from a non-literal list')
        if not z3.is_true(z3.simplify(hi - lo == len(vc[1]))): raise Unsupported('slice assignment that may change the length of the list')
        eng.oblige(p, 'list.index_in_range', And(lo >= 0, hi <= c[2]), 'pre')
        arr = c[1]
        for j, x in enumerate(vc[1]):
            arr = Store(arr, lo + j, typed_elem(eng, p, c, x))
        p.heap[base.oid] = ('arr', arr, c[2], c[3]) + tuple(c[4:]); return
    if k == 'arr':
        i = norm_index(eng, p, idx, c[2], 'list')
        p.heap[base.oid] = ('arr', Store(c[1], i, typed_elem(eng, p, c, v)), c[2], c[3]) + tuple(c[4:]); return
    if k == 'slist':
        s, kind = c[1], c[2]
        n = Length(s)
        i = norm_index(eng, p, idx, n, 'list')
        new = Concat(SubSeq(s, 0, i), Unit(elem_term(eng, p, v, kind)), SubSeq(s, i + 1, n - i - 1))
        p.heap[base.oid] = ('slist', new, kind); return
    if k == 'dict':
        eng.need_canon = True
        kk = canon(eng.to_val(p, idx))
        dom, val, order = c[1], c[2], c[3]
        p.heap[base.oid] = ('dict', Store(dom, kk, BoolVal(True)), Store(val, kk, eng.to_val(p, v)),
                            If(Select(dom, kk), order, Concat(order, Unit(kk))))
        return
    raise Unsupported(f'setitem on {k}')


def seq_getitem(eng, p, base, idx):
    if isinstance(base, SSeq):
        i = norm_index(eng, p, idx, Length(base.t), 'seq')
        return elem_wrap(eng, base.t[i], base.kind)
    if isinstance(base, SStr):
        i = norm_index(eng, p, idx, Length(base.t), 'str')
        return SStr(SubSeq(base.t, i, 1))
    if isinstance(base, SBytes):
        i = norm_index(eng, p, idx, Length(base.t), 'bytes')
        return SInt(z3.BV2Int(base.t[i]))
    raise Unsupported('seq_getitem')


def slice_of(eng, p, base, lo, hi):
    def bound(x, n, default):
        if x is None: return default
        if isinstance(x, int) and x < 0: return n + x
        return eng.to_int(p, x, 'slice')
    if isinstance(base, Ref):
        c = content(p, base)
        if c[0] == 'list' and (lo is None or isinstance(lo, int)) and (hi is None or isinstance(hi, int)):
            return eng.new_list(p, list(c[1])[lo:hi])
        if c[0] == 'slist':
            n = Length(c[1]); a = bound(lo, n, IntVal(0)); b = bound(hi, n, n)
            eng.oblige(p, 'slice.bounds', And(a >= 0, a <= b, b <= n), 'pre')
            return eng.new_obj(p, 'slist', ('slist', SubSeq(c[1], a, b - a), c[2]))
        if c[0] == 'arr':
            # slice of an array-modelled list: result as z3 sequence is not available; model as a fresh slist with pointwise facts
            n = c[2]; a = bound(lo, n, IntVal(0)); b = bound(hi, n, n)
            eng.oblige(p, 'slice.bounds', And(a >= 0, a <= b, b <= n), 'pre')
            return Host('arrslice', arr=c[1], lo=a, hi=b, ek=c[3])
    if isinstance(base, (SStr, SBytes, SSeq)):
        n = Length(base.t); a = bound(lo, n, IntVal(0)); b = bound(hi, n, n)
        eng.oblige(p, 'slice.bounds', And(a >= 0, a <= b, b <= n), 'pre')
        t = SubSeq(base.t, a, b - a)
        if isinstance(base, SStr): return SStr(t)
        if isinstance(base, SBytes): return SBytes(t)
        return SSeq(t, base.kind)
    raise Unsupported(f'slice of {base!r}')


def arrslice_items(eng, x):
    n = simplify(x.hi - x.lo)
    if not is_int_value(n):
        return None
    return [wrap(eng, Select(x.arr, x.lo + t), x.ek) for t in range(n.as_long())]


def all_of(eng, p, x):
    if isinstance(x, Host) and x.kind == 'arrslice':
        items = arrslice_items(eng, x)
        if items is not None:
            cs = [eng.truth(p, i) for i in items]
            if any(c is False for c in cs): return [(p, False)]
            cs = [c for c in cs if c is not True]
            return [(p, SBool(And(*cs)) if cs else True)]
    if isinstance(x, Host) and x.kind == 'arrslice':
        j = fresh('all_j', IntSort())
        from z3 import ForAll
        body = truthy(Select(x.arr, j)) if x.ek == 'val' else V.i(Select(x.arr, j)) != 0
        return [(p, SBool(ForAll([j], Implies(And(j >= x.lo, j < x.hi), body))))]
    raise Unsupported(f'all({x!r})')


seqsum_real = Function('seqsum', SeqSort(z3.RealSort()), z3.RealSort())


def sum_of(eng, p, x):
    from .world import trusted
    trusted('builtins.sum: the sum of the elements (spec function seqsum)')
    if isinstance(x, Ref):
        c = p.heap[x.oid]
        if c[0] == 'slist' and c[2] == 'real':
            return [(p, SReal(seqsum_real(c[1])))]
        if c[0] == 'list':
            t = 0
            for it in c[1]:
                t = eng.binop(p, __import__('ast').Add(), t, it)
            return [(p, t)]
    raise Unsupported('sum over symbolic list')


stable_sort = Function('stable_sort', ValSeq, Val, BoolSort(), ValSeq)     # sorted(xs, key=k, reverse=r): trusted to be a stable sort


def sorted_of(eng, p, args, kws):
    """builtins.sorted(iterable, key=None, reverse=False): a NEW list holding stable_sort(items, key, reverse); the call is logged"""
    from .world import trusted
    from .contracts.base import items_of
    trusted('builtins.sorted: returns a new list, a stable sort of the items by key (descending, still stable, with reverse=True)')
    if len(args) != 1 or set(kws) - {'key', 'reverse'}:
        raise Unsupported('sorted() call shape')
    x = args[0]
    if isinstance(x, SVal): xs = items_of(x.t)
    elif isinstance(x, Ref) and p.heap[x.oid][0] in ('slist', 'deque'): xs = p.heap[x.oid][1]
    else: raise Unsupported(f'sorted({x!r})')
    key = kws.get('key')
    ktag = V.VNone if key is None else eng.to_val(p, key)
    rev = kws.get('reverse', False)
    rv = BoolVal(rev) if isinstance(rev, bool) else (rev.t if isinstance(rev, SBool) else None)
    if rv is None: raise Unsupported('sorted(reverse=<non-bool>)')
    p.calls.append(('builtins.sorted', (xs, ktag, rv)))
    return [(p, eng.new_obj(p, 'slist', ('slist', stable_sort(xs, ktag, rv), 'val')))]


# ---- containers reached through a dynamic value (a reference read back from the store, or an argument)
#      dyn_seq : Array(addr -> Seq(Val))   content of lists / deques      dyn_set : Array(addr -> Array(Val -> Bool))

def dyn_arrays(p):
    ex = p.store.extra
    if 'dyn_seq' not in ex:
        ex['dyn_seq'] = Const('dyn_seq0', z3.ArraySort(IntSort(), ValSeq))
        ex['dyn_set'] = Const('dyn_set0', z3.ArraySort(IntSort(), z3.ArraySort(Val, BoolSort())))
    return ex['dyn_seq'], ex['dyn_set']


def is_ref(eng, p, t):
    s = z3.Solver(); s.set('timeout', 500)
    s.add(*eng.prune_hyps); s.add(*p.pc); s.add(Not(V.is_VRef(t)))
    return s.check() == z3.unsat


def export_ref(eng, p, ref):
    """a container created in this call escapes into the store: publish its content under its address"""
    c = p.heap[ref.oid]
    ds, dset = dyn_arrays(p)
    if c[0] in ('deque', 'slist'):
        p.store.extra['dyn_seq'] = Store(ds, IntVal(ref.oid), c[1])
    elif c[0] == 'list':
        vals = [eng.to_val(p, x) for x in c[1]]
        p.store.extra['dyn_seq'] = Store(ds, IntVal(ref.oid), Concat(*[Unit(v) for v in vals]) if len(vals) > 1 else (Unit(vals[0]) if vals else Empty(ValSeq)))
    elif c[0] == 'set':
        p.store.extra['dyn_set'] = Store(dset, IntVal(ref.oid), c[1])
    else:
        raise Unsupported(f'escaping container {c[0]}')
    p.ghost.setdefault('escaped', set()); p.ghost['escaped'] = set(p.ghost['escaped']) | {ref.oid}


def len_dyn(eng, p, x):
    eng.oblige(p, 'type.container', V.is_VRef(x.t), 'type')
    ds, _ = dyn_arrays(p)
    return SInt(Length(Select(ds, V.addr(x.t))))


def dyn_getitem(eng, p, x, idx):
    ds, _ = dyn_arrays(p)
    s = Select(ds, V.addr(x.t))
    i = norm_index(eng, p, idx, Length(s), 'container')
    return eng.from_val(s[i])


def dyn_contains(eng, p, x, item):
    eng.need_canon = True
    _, dset = dyn_arrays(p)
    return Select(Select(dset, V.addr(x.t)), canon(eng.to_val(p, item)))


def dyn_method(eng, p, o, name, args, kws):
    if name in ('decode', 'encode'):
        from . import libmodels
        return libmodels.str_codec(eng, p, o, name, args, kws)
    eng.oblige(p, 'type.container', V.is_VRef(o.t), 'type')
    a = V.addr(o.t)
    ds, dset = dyn_arrays(p)
    cur = Select(ds, a)
    if name == 'append':
        p.store.extra['dyn_seq'] = Store(ds, a, Concat(cur, Unit(eng.to_val(p, args[0])))); return [(p, None)]
    if name == 'clear':
        p.store.extra['dyn_seq'] = Store(ds, a, Empty(ValSeq)); return [(p, None)]
    if name == 'popleft':
        q = p.fork(); q.pc.append(Length(cur) == 0)
        out = []
        if eng.feasible(q.pc):
            q.exc = ExcV('IndexError', (), origin='deque.popleft'); out.append((q, None))
        p.pc.append(Length(cur) > 0)
        if eng.feasible(p.pc):
            p.store.extra['dyn_seq'] = Store(ds, a, SubSeq(cur, 1, Length(cur) - 1))
            out.append((p, eng.from_val(cur[0])))
        return out
    if name == 'add':
        eng.need_canon = True
        p.store.extra['dyn_set'] = Store(dset, a, Store(Select(dset, a), canon(eng.to_val(p, args[0])), BoolVal(True)))
        return [(p, None)]
    raise Unsupported(f'method {name} on dynamic value')


def deepcopy(eng, p, x):
    if isinstance(x, tuple):
        return tuple(deepcopy(eng, p, e) if isinstance(e, (tuple, Ref)) else e for e in x)
    if isinstance(x, Ref):
        c = content(p, x)
        if c[0] == 'list':
            return eng.new_list(p, [deepcopy(eng, p, e) if isinstance(e, (tuple, Ref)) else e for e in c[1]])
        r = eng.new_obj(p, x.kind, c)
        return r
    return x
