"""Which units decide which property (DESIGN section 7).  Every property whose operators keep state through the store also discharges the
store contract (STORE) in the same check: a caller is verified against the callee's contract only, so the callee must be verified there too.  A unit spec is (kind, module, attribute, opts).
A property's check discharges every contract in its dependency closure: the handlers it is stated about, the helper closures they
are built from, and the store methods they call (each caller is verified against the callee's contract only)."""


def op(mod, name):
    return ('op', f'rxv.contracts.{mod}', f'U_{name}', {})


def fn(mod, name, **opts):
    return ('fn', f'rxv.contracts.{mod}', name, dict(opts))


def bounded(mod, name, **opts):
    return ('bounded', f'rxv.bounded.{mod}', name, dict(opts))


STORE = [fn('c14_store', 'unit_memory_store', method=m) for m in
         ('add_key', 'set', 'get', 'del_key', 'is_set', 'is_cleared', 'add_map', 'get_map', 'del_map', 'iterate_map')] + \
        [fn('c14_store', 'unit_store_misc')]
SCALAR = [op('scalar', n) for n in ('map_mux', 'filter_mux', 'scan_mux', 'first_mux', 'take_mux', 'last_mux')]
SEQ = [op('seqops', n) for n in ('lag1', 'lag', 'pad_start_mux', 'pad_end_mux', 'start_with', 'distinct')]
PLUMB = [op('seqops', n) for n in ('mux_observable', 'demux_observable', 'demux_mux_observable', 'drop_probe_state_topology', 'with_store_mux')]
MISC_OPS = [op('seqops', n) for n in ('assert_mux', 'assert_1_mux', 'do_action_mux', 'flat_map_mux')]
ERRORS = [op('seqops', n) for n in ('error_ignore', 'error_map', 'error_router')]
SPAWN = [op('spawners', n) for n in ('split_mux', 'time_split_mux', 'group_by_mux')] + [op('roll', 'roll_mux'), op('roll', 'roll_count')]
TEE = [fn('tee', 'unit_tee_map', n=n, join=j) for n in (2, 3) for j in ('zip', 'combine_latest', 'merge')] + [fn('plainops', 'unit_plain', which='tee'), fn('tee', 'unit_tee_wiring'), fn('tee', 'unit_mux_connectable')]
HELP = lambda *ws: [fn('helpers', 'unit_helpers', which=w) for w in ws]
PLAIN = lambda *ws: [fn('plainops', 'unit_plain', which=w) for w in ws]
LEAN = lambda *names: [('lean', 'rxv.lean', 'unit_lean', {'files': list(names)})]

PROPS = {}


def define(pid, title, units, assumptions, design_ref, thorough_extra=(), level='proof', level_why=''):
    PROPS[pid] = {'title': title, 'units': list(units), 'assumptions': list(assumptions), 'design_ref': design_ref,
                  'thorough_extra': list(thorough_extra), 'level': level, 'level_why': level_why}


A_COMMON = [
    'A1 single-threaded synchronous non-reentrant delivery of events to a handler',
    'A2 python int is mathematical; counters stored in typed arrays stay below 2^63 (range of array("q"/"Q")); float arithmetic is treated as real arithmetic where stated',
    'A3 python == is modelled as an equivalence (interpreted on None/bool/int/float/str/tuples, free on other objects); `is` implies ==',
    'A4 type(i) is T and isinstance(i, T) coincide on the mux event namedtuples',
    'A5 user callbacks are deterministic, may raise, touch neither store nor observer, never return rxsci sentinels',
    "A5' behaviour under raising user functions is constrained only where C13 says so; the Error branches of the key-spawning operators carry safety obligations only",
    'A6 downstream observer.on_next does not raise back into the handler',
    'A7 the models of builtins / RxPY / stdlib in rxv/pymodels.py, heapmodels.py, strmodels.py, libmodels.py, world.py are trusted (listed per run under trusted_base)',
    'termination of loops is not verified',
    'what the extraction of a function drops: docstrings and string-literal statements, print / logging calls, the disposables returned by subscribe and the scheduler argument (passed through, never used); every other statement is interpreted or the function is reported outside the subset (undecided)',
    'glue lemmas over the per-handler contracts: L1 (projection / confinement, lemmas/KT.lean), L2 (composition) + L5 (folds) (lemmas/L2.lean) and L4 (framing: chunking independence, uniqueness, round trip; lemmas/L4.lean) and L3a (a KT handler maps a well-formed mux trace to a well-formed one with the same live keys; lemmas/L3.lean) and L3b (confinement composes: a keyed machine -- plain transducer, key spawner or demultiplexer -- is local to every key set, and compositions of local stream functions are local, hence spawner ; inner pipeline ; demux nested to any depth confines each outer key; lemmas/L3b.lean) are checked by Lean 4; that each real handler *is* such a keyed machine (outputs of an event of key k carry keys projecting on k, only slot k is touched) is what the per-handler `emits` / `frame` obligations discharge',
]

define('C01', 'multiplexing is transparent', STORE + SCALAR + MISC_OPS + PLUMB + TEE + [op('spawners', 'group_by_mux')] + HELP('batch', 'distinct_until_changed', 'math', 'formal', 'misc')
       + PLAIN('scan', 'flat_map', 'assert_1', 'dispatch') + LEAN('KT', 'L2') + [bounded('mux', 'check_c01')],
       A_COMMON + ['RxPY plain operators (ops.map/filter/first/last/take/to_list/do_action) are assumed to have their documented list semantics'], 'DESIGN 7/C01',
       level='other', level_why='partial: every per-operator refinement obligation (mux handler = keyed transducer of the plain operator) is discharged, but the statement also compares *when '
       'upstream work stops*: take / first do not end a multiplexed key, so items behind the cut are still evaluated (known finding KF5); the property is not claimed as proved')
define('C02', 'state confinement', STORE + SCALAR + SEQ + [op('seqops', 'assert_1_mux')] + SPAWN + TEE + HELP('batch', 'distinct_until_changed', 'formal') + LEAN('KT', 'L2', 'L3b')
       + [bounded('mux', 'check_c02')], A_COMMON, 'DESIGN 7/C02')
define('C03', 'mux event protocol', STORE + SCALAR + SEQ + MISC_OPS + PLUMB + ERRORS + SPAWN + TEE + LEAN('L3', 'L3b') + [bounded('mux', 'check_c03')], A_COMMON, 'DESIGN 7/C03',
       level='other', level_why="partial: every per-handler obligation is discharged, under assumption A5' (no mux error crosses a key-spawning operator); "
       'with such an error the protocol is broken at the inner boundaries of roll / time_split (known finding KF1), so the property is not claimed as proved')
define('C04', 'group_by partitions', [op('spawners', 'group_by_mux'), op('seqops', 'demux_mux_observable')] + STORE + [bounded('mux', 'check_c04')], A_COMMON, 'DESIGN 7/C04')
define('C05', 'roll windows', [op('roll', 'roll_mux'), op('roll', 'roll_count'), op('seqops', 'demux_mux_observable')] + STORE + [bounded('mux', 'check_c05')], A_COMMON, 'DESIGN 7/C05')
define('C06', 'split', [op('spawners', 'split_mux'), op('seqops', 'demux_mux_observable')] + STORE + [bounded('mux', 'check_c06')], A_COMMON, 'DESIGN 7/C06')
define('C07', 'time_split', [op('spawners', 'time_split_mux'), op('seqops', 'demux_mux_observable')] + STORE + [bounded('mux', 'check_c07')],
       A_COMMON + ['datetime / timedelta arithmetic is an ordered group (modelled as reals); timeouts are positive'], 'DESIGN 7/C07')
define('C08', 'tee_map join', TEE + [bounded('mux', 'check_c08')], A_COMMON + ['number of branches: n = 2, 3 (bounded parameter); rx publish/connect assumed'], 'DESIGN 7/C08',
       level='other', level_why='partial: the join handlers and the wiring are discharged for every event case (n = 2, 3 branches); on plain cold sources a branch of RxPY operators that subscribe '
       'through the scheduler misses the items (known finding KF3), so the plain half of the property is not claimed as proved')
define('C09', 'scan/reduce algebra', [op('scalar', 'scan_mux')] + LEAN('L2') + PLAIN('scan') + HELP('batch', 'distinct_until_changed', 'math', 'formal', 'misc') + STORE + [bounded('mux', 'check_c09')],
       A_COMMON, 'DESIGN 7/C09',
       level='other', level_why='partial: the fold / seed-isolation / terminator obligations are discharged under assumption A2 (values kept in typed arrays are in range); an int accumulator that '
       'leaves the signed 64-bit range fails on a multiplexed source only (known finding KF4), so the property is not claimed as proved')
define('C10', 'per-key sequence operators', [op('scalar', n) for n in ('first_mux', 'take_mux', 'last_mux')] + SEQ + HELP('batch', 'distinct_until_changed') + PLAIN('to_deque')
       + STORE + [bounded('mux', 'check_c10')], A_COMMON + ['sorted() is a stable sort (trusted)'], 'DESIGN 7/C10')
define('C11', 'streaming promptness', STORE + SCALAR + SEQ + PLUMB + SPAWN + TEE + HELP('batch') + [bounded('mux', 'check_c11')],
       A_COMMON + ['promptness = the per-call emission postconditions: every ensures names the call in which an output appears; no handler uses a scheduler (a scheduler use leaves the verified subset)'],
       'DESIGN 7/C11')
define('C12', 'math aggregates', HELP('math', 'formal') + [op('scalar', 'scan_mux')] + PLAIN('scan') + [bounded('mux', 'check_c12')],
       A_COMMON + ['A2f: the accumulator identities are proved over the reals; the IEEE-754 error bound of the statement is only checked on the stated bounded scope (exact rational oracle)'], 'DESIGN 7/C12',
       level='other', level_why='partial: the accumulator identities are discharged deductively over the reals, but the relative-error bound the property is about (IEEE-754 rounding of an '
       'unbounded fold) is not decided by any contract in reach of z3/cvc5; it is checked against an exact rational oracle on a stated bounded scope only')
define('C13', 'item-level errors', STORE + [op('scalar', n) for n in ('map_mux', 'filter_mux', 'scan_mux')] + ERRORS + [op('seqops', 'demux_observable'), op('seqops', 'demux_mux_observable')]
       + HELP('misc') + [fn('tee', 'unit_tee_map', n=n, join='merge', which='termination') for n in (2, 3)] + [bounded('mux', 'check_c13')], A_COMMON, 'DESIGN 7/C13')
define('C14', 'memory store', STORE + [bounded('mux', 'check_c14')], A_COMMON[:3] + A_COMMON[6:9], 'DESIGN 7/C14')

define('C15', 'framing round trip', [fn('framing', 'unit_framing', which='line'), fn('framing', 'unit_framing', which='length_prefix')] + LEAN('L4') + [bounded('io', 'check_c15')],
       ['A1', 'str.split / str.join / int.to_bytes / int.from_bytes / io.BytesIO models are trusted (rxv/strmodels.py)',
        'the glue from the per-call contracts to the whole-stream statement (chunking independence, uniqueness of the decomposition, round trip) is lemma L4, checked by Lean 4 '
        '(lemmas/L4.lean: run_eq_frames, frames_enc, roundtrip, joinnl_unique, line_roundtrip) over lists of an abstract byte type; its hypotheses are the obligations discharged on the real '
        'code plus size(hdr n) = n and len(hdr n) = P for n < 256^P (trusted int.to_bytes / from_bytes model)',
        'termination of the unframing loop is not verified'], 'DESIGN 7/C15')

W = lambda *ws: [fn('wrappers', 'unit_wrappers', which=w) for w in ws]
A_LIB = ['the third-party libraries are opaque: their streaming laws (output = codec of the concatenated input, independent of chunking; eof iff end marker; '
         'incremental codec = one-shot codec; loads(dumps(x)) = x; parquet writer/reader round trip) are ASSUMED for the deductive part and exercised on the real '
         'libraries by the bounded tier only',
         'A1 synchronous single-threaded delivery', 'termination not verified']
define('C16', 'compression round trip', W('compression') + [bounded('io', 'check_c16')], A_LIB, 'DESIGN 7/C16')
define('C17', 'incremental codec', W('codec', 'json') + [bounded('io', 'check_c17')], A_LIB, 'DESIGN 7/C17')
define('C18', 'csv round trip', W('csv', 'io') + [fn('framing', 'unit_framing', which='line')] + LEAN('L4') + [bounded('io', 'check_c18')],
       A_LIB + ['A2f: float(text) is treated as the exact real value of the literal', 'the string escaping of csv.dump and the unescaping of create_line_parser.parse_line (replace chains) are NOT under contract (outside solver reach): bounded tier only. '
                'Under contract: _ends_with_closing_quote (closing quote iff preceded by an even run of escape characters; spec recursion esc_run supplied by instances), merge_escape_parts '
                '(for every number of parts: argument unchanged, sep.join(result) == sep.join(parts) when every quote is closed, a prefix otherwise; spec fold flat and the str.join model supplied by '
                'instances; loop invariant over the None | list open group by mode split; the closing-quote test through its contract; step clauses for where a group opens / stays open / closes, native replay restricted to lines in the format the dumper writes) and the stream '
                'encoder of dump_to_file. Refutations of the two string contracts are validated natively; an obligation the solvers leave open is reported as refuted only with a real failing '
                'input found by the native search of the contract clauses (DESIGN 12.14), else it stays undecided'], 'DESIGN 7/C18',
       level='other', level_why='partial: numeric field parsers, parser selection, the closing-quote test, the quoted-field merging loop (text preservation and group boundaries, all lengths), the stream encoder and the file pipeline are '
       'discharged deductively; the string escaping / unescaping replace chains are outside solver reach and are checked exhaustively on a stated small scope only')
define('C19', 'json lines round trip', W('json', 'codec', 'compression', 'io') + [fn('framing', 'unit_framing', which='line')] + LEAN('L4') + [bounded('io', 'check_c19')], A_LIB, 'DESIGN 7/C19')
define('C20', 'parquet round trip', W('parquet') + HELP('batch') + [op('scalar', 'scan_mux'), op('scalar', 'filter_mux'), op('scalar', 'map_mux')] + PLAIN('scan') + [bounded('io', 'check_c20')],
       A_LIB + ['_load_file (pyarrow batch iteration) is covered by the bounded tier only'], 'DESIGN 7/C20')
