"""Which units decide which property (DESIGN section 7).  A unit spec is (kind, module, attribute, opts)."""

def op(mod, name):
    return ('op', f'rxv.contracts.{mod}', f'U_{name}', {})


def fn(mod, name):
    return ('fn', f'rxv.contracts.{mod}', name, {})


def bounded(mod, name):
    return ('bounded', f'rxv.bounded.{mod}', name, {})


STORE = []        # filled below once the C14 units exist

PROPS = {}


def define(pid, title, units, assumptions, design_ref, thorough_extra=()):
    PROPS[pid] = {'title': title, 'units': list(units), 'assumptions': list(assumptions), 'design_ref': design_ref,
                  'thorough_extra': list(thorough_extra)}


A_COMMON = [
    'A1 single-threaded synchronous non-reentrant delivery of events to a handler',
    'A3 python == is modelled as an equivalence (interpreted on None/bool/int/float/str/tuples, free on other objects); `is` implies ==',
    'A4 type(i) is T and isinstance(i, T) coincide on the mux event namedtuples',
    'A5 user callbacks are deterministic, may raise, touch neither store nor observer, never return rxsci sentinels',
    'A6 downstream observer.on_next does not raise back into the handler',
    'A7 models of builtins / RxPY in rxv/pymodels.py, rxv/world.py are trusted',
]

define('C09', 'scan/reduce algebra', [op('scalar', 'scan_mux')], A_COMMON, 'DESIGN 7/C09')
