"""Symbolic python values used by the executor (DESIGN 3.2).

Concrete python values (None, bool, int, float, str, bytes, tuples of values) are used as they are.
Everything else is one of the wrappers below.  Statically known structure stays at the python level
(tuples, events, closures), only unknown leaves are z3 terms.
"""
import z3
from .sorts import *


class SV:
    pass


class SInt(SV):
    def __init__(self, t): self.t = t
    def __repr__(self): return f'SInt({self.t})'


class SBool(SV):
    def __init__(self, t): self.t = t
    def __repr__(self): return f'SBool({self.t})'


class SReal(SV):
    def __init__(self, t): self.t = t
    def __repr__(self): return f'SReal({self.t})'


class SStr(SV):
    def __init__(self, t): self.t = t
    def __repr__(self): return f'SStr({self.t})'


class SBytes(SV):
    def __init__(self, t): self.t = t
    def __repr__(self): return f'SBytes({self.t})'


class SKey(SV):
    def __init__(self, t): self.t = t
    def __repr__(self): return f'SKey({self.t})'


class SVal(SV):
    """value of unknown python type: a term of sort Val"""
    def __init__(self, t): self.t = t
    def __repr__(self): return f'SVal({self.t})'


class SSeq(SV):
    """immutable python sequence (tuple / list never mutated / str.split result) of unknown length.
    t : z3 Seq(elem sort); kind in {'val','str','bytes','int'} says how elements are wrapped"""
    def __init__(self, t, kind='val'): self.t = t; self.kind = kind
    def __repr__(self): return f'SSeq[{self.kind}]({self.t})'


class Sentinel(SV):
    def __init__(self, k): self.k = k
    def __repr__(self): return ['STATE_NOTSET', 'STATE_SET', 'STATE_CLEARED'][self.k]
    def __eq__(self, o): return isinstance(o, Sentinel) and o.k == self.k
    def __hash__(self): return hash(('sent', self.k))


class EvClass(SV):
    def __init__(self, kind, fields): self.kind = kind; self.fields = fields
    def __repr__(self): return f'<class {self.kind}>'
    def __eq__(self, o): return isinstance(o, EvClass) and o.kind == self.kind
    def __hash__(self): return hash(('evc', self.kind))


class EventV(SV):
    """a mux event whose constructor is statically known"""
    def __init__(self, kind, fields, vals):
        self.kind = kind; self.fields = fields; self.vals = dict(vals)
    def replace(self, **kw):
        v = dict(self.vals); v.update(kw); return EventV(self.kind, self.fields, v)
    def __repr__(self): return f'{self.kind}({self.vals})'


class PyType(SV):
    """result of type(x) when x has a statically known python type, or a builtin type object"""
    def __init__(self, name): self.name = name
    def __repr__(self): return f'<type {self.name}>'
    def __eq__(self, o): return isinstance(o, PyType) and o.name == self.name
    def __hash__(self): return hash(('pytype', self.name))


class SType(SV):
    """type(x) of a value whose type is not statically known"""
    def __init__(self, of): self.of = of
    def __repr__(self): return f'<type-of {self.of}>'


class Closure(SV):
    def __init__(self, node, scope, module, qual):
        self.node = node; self.scope = scope; self.module = module; self.qual = qual
    def __repr__(self): return f'<closure {self.qual}>'


class Partial(SV):
    def __init__(self, fn, args, kws): self.fn = fn; self.args = list(args); self.kws = dict(kws)
    def __repr__(self): return f'<partial {self.fn} {self.args}>'


class UserFn(SV):
    """uninterpreted user callback (A5): deterministic, may raise, touches nothing"""
    def __init__(self, name, ret='val', effects=None):
        self.name = name; self.ret = ret; self.effects = effects
    def __repr__(self): return f'<userfn {self.name}>'


class Host(SV):
    """engine-side model objects: observer, source, store, topology, module, builtin function ..."""
    def __init__(self, kind, **kw):
        self.kind = kind; self.__dict__.update(kw)
    def __repr__(self): return f'<{self.kind} {getattr(self, "name", "")}>'


class Bound(SV):
    def __init__(self, obj, name): self.obj = obj; self.name = name
    def __repr__(self): return f'<bound {self.obj}.{self.name}>'


class StateRef(SV):
    """a state id returned by topology.create_state in the Probe case"""
    def __init__(self, ordn, dtype, default, name):
        self.ord = ordn; self.dtype = dtype; self.default = default; self.name = name
    def __repr__(self): return f'<state#{self.ord} {self.name} {self.dtype} default={self.default}>'


class Ref(SV):
    """mutable python container; its content lives in path.heap[oid]"""
    def __init__(self, oid, kind): self.oid = oid; self.kind = kind
    def __repr__(self): return f'<ref {self.kind}#{self.oid}>'


class ExcV(SV):
    def __init__(self, cls, args=(), origin=None, term=None):
        self.cls = cls; self.args = args; self.origin = origin; self.term = term
    def __repr__(self): return f'<exc {self.cls} {self.origin or ""}>'
