"""Trusted models of str / bytes / int<->bytes / io.BytesIO operations (DESIGN 3.4, used by C15 and the wrappers)."""
import z3
from z3 import (And, Or, Not, Implies, If, IntVal, BoolVal, StringVal, Int, Const, Concat, Unit, Length, SubSeq, Empty,
                Function, IntSort, SeqSort, StringSort, Contains, simplify)
from .sorts import *
from .values import *
from .engine import Unsupported, fresh
from .world import trusted

StrSeq = SeqSort(StringSort())
joinsep = Function('joinsep', StringSort(), StrSeq, StringSort())        # sep.join(parts)
joinnl_of = Function('joinnl', StrSeq, StringSort())                      # concat of (line + '\n') for line in lines
bytes_of_int = Function('bytes_of_int', IntSort(), IntSort(), IntSort(), Bytes)   # int.to_bytes(v, size, little?)
int_of_bytes = Function('int_of_bytes', Bytes, IntSort(), IntSort())              # int.from_bytes(b, little?)


# esc_run(t, e, i): length of the run of characters e of t that ends at index i; defined by the recursion
#   esc_run(t, e, i) = 1 + esc_run(t, e, i - 1) if 0 <= i < len(t) and t[i] == e else 0
# and handed to the solver as an uninterpreted function plus instances of that equation (see contracts/wrappers.py ClosingQuote)
esc_run = Function('esc_run', StringSort(), StringSort(), IntSort(), IntSort())


def esc_run_def(t, e, i):
    return esc_run(t, e, i) == If(And(i >= 0, i < Length(t), z3.SubString(t, i, 1) == e), 1 + esc_run(t, e, i - 1), 0)


def method(eng, p, o, name, args, kws):
    if name == 'rstrip' and isinstance(o, (str, SStr)) and len(args) == 1 and isinstance(args[0], (str, SStr)) and not kws:
        # s.rstrip(c) for a ONE-character c: s without the run of c at its end.  The run length is esc_run(s, c, len(s) - 1); its defining
        # equation is supplied for the last 8 positions (longer runs are left to the uninterpreted function: a refutation that depends on
        # them does not replay and is dropped by the contracts that use this model, which validate refutations natively)
        trusted('str.rstrip(c), c one character: removes the maximal run of c at the end')
        sv = eng.to_str(p, o); c = eng.to_str(p, args[0])
        if isinstance(args[0], str) and len(args[0]) != 1:
            raise Unsupported('rstrip with a set of several characters')
        eng.oblige(p, 'rstrip.one_character', Length(c) == 1, 'pre')
        n = Length(sv); k = esc_run(sv, c, n - 1)
        for d in range(8):
            p.pc.append(esc_run_def(sv, c, n - 1 - d))
        p.pc.append(And(k >= 0, k <= n))
        return [(p, SStr(z3.SubString(sv, 0, n - k)))]
    if name == 'format':
        return [(p, SStr(fresh('formatted', StringSort())))]
    if name == 'split' and isinstance(o, (str, SStr)):
        trusted("str.split(sep): parts are sep-free, at least one part, sep.join(parts) == s")
        if len(args) != 1 or not isinstance(args[0], str) or len(args[0]) != 1:
            raise Unsupported('split with non single-char literal separator')
        sep = args[0]
        s = eng.to_str(p, o)
        parts = fresh('parts', StrSeq)
        j = Int('sp_j')
        from z3 import ForAll
        p.pc.append(Length(parts) >= 1)
        if sep == '\n':
            # s == parts[0] + '\n' + ... + parts[-1], stated with the spec fold joinnl over all parts but the last
            p.pc.append(s == Concat(joinnl_of(SubSeq(parts, 0, Length(parts) - 1)), parts[Length(parts) - 1]))
        else:
            p.pc.append(joinsep(StringVal(sep), parts) == s)
        p.pc.append(ForAll([j], Implies(And(j >= 0, j < Length(parts)), Not(Contains(parts[j], StringVal(sep))))))
        p.ghost.setdefault('splits', []).append((s, sep, parts))
        return [(p, eng.new_obj(p, 'slist', ('slist', parts, 'str')))]
    if name == 'join' and isinstance(o, (str, SStr)):
        trusted('str.join')
        x = args[0]
        sep = eng.to_str(p, o)
        if isinstance(x, Ref):
            c = p.heap[x.oid]
            if c[0] == 'list':
                items = [eng.to_str(p, e) for e in c[1]]
                if not items: return [(p, '')]
                t = items[0]
                for it in items[1:]:
                    t = Concat(t, sep, it)
                return [(p, SStr(t))]
            if c[0] == 'slist' and c[2] == 'str':
                return [(p, SStr(joinsep(sep, c[1])))]
        raise Unsupported('join of symbolic list')
    if name in ('endswith', 'startswith') and isinstance(o, (str, SStr)) and len(args) == 1 and isinstance(args[0], (str, SStr)) and not kws:
        trusted('str.startswith / str.endswith(one string): prefix / suffix test')
        s = eng.to_str(p, o); x = eng.to_str(p, args[0])
        return [(p, SBool(z3.SuffixOf(x, s) if name == 'endswith' else z3.PrefixOf(x, s)))]
    if name == 'encode' or name == 'decode':
        from . import libmodels
        return libmodels.str_codec(eng, p, o, name, args, kws)
    raise Unsupported(f'str/bytes method {name}')


def str_of(eng, p, x):
    if isinstance(x, str): return [(p, x)]
    if isinstance(x, SStr): return [(p, x)]
    return [(p, SStr(Function('str_of', Val, StringSort())(eng.to_val(p, x))))]


int_of_str = Function('int_of_str', StringSort(), IntSort())
float_of_str = Function('float_of_str', StringSort(), z3.RealSort())
str_is_int = Function('str_is_int_literal', StringSort(), z3.BoolSort())
str_is_float = Function('str_is_float_literal', StringSort(), z3.BoolSort())


def int_of(eng, p, x):
    trusted('int(str): the exact value of a decimal integer literal, ValueError otherwise')
    s = eng.to_str(p, x)
    q = p.fork(); q.pc.append(Not(str_is_int(s))); p.pc.append(str_is_int(s))
    out = []
    if eng.feasible(q.pc):
        q.exc = ExcV('ValueError', (), origin='int()'); out.append((q, None))
    if eng.feasible(p.pc):
        out.append((p, SInt(int_of_str(s))))
    return out


def float_of(eng, p, x):
    trusted('float(str): the correctly rounded value of a decimal literal (treated as its exact real value, A2f), ValueError otherwise')
    s = eng.to_str(p, x)
    q = p.fork(); q.pc.append(Not(str_is_float(s))); p.pc.append(str_is_float(s))
    out = []
    if eng.feasible(q.pc):
        q.exc = ExcV('ValueError', (), origin='float()'); out.append((q, None))
    if eng.feasible(p.pc):
        out.append((p, SReal(float_of_str(s))))
    return out


def int_bytes(eng, p, short, args, kws):
    trusted('int.to_bytes / int.from_bytes: bijection between [0, 256**n) and n-byte strings for a fixed byte order')
    if short == 'to_bytes':
        v, size = args[0], args[1] if len(args) > 1 else kws.get('length')
        order = args[2] if len(args) > 2 else kws.get('byteorder')
        vi, si = eng.to_int(p, v), eng.to_int(p, size)
        oi = order_flag(eng, p, order)
        eng.oblige(p, 'to_bytes.fits', And(vi >= 0, vi < pow256(si)), 'pre')
        r = bytes_of_int(vi, si, oi)
        p.pc.append(Length(r) == si)
        p.pc.append(int_of_bytes(r, oi) == vi)
        return [(p, SBytes(r))]
    if short == 'from_bytes':
        b = args[0]; order = args[1] if len(args) > 1 else kws.get('byteorder')
        bt = eng.to_bytes(p, b); oi = order_flag(eng, p, order)
        r = int_of_bytes(bt, oi)
        p.pc.append(And(r >= 0, r < pow256(Length(bt))))
        p.pc.append(bytes_of_int(r, Length(bt), oi) == bt)
        return [(p, SInt(r))]
    raise Unsupported(short)


_pow256 = Function('pow256', IntSort(), IntSort())


def pow256(n):
    n = simplify(n) if z3.is_expr(n) else z3.IntVal(n)
    if z3.is_int_value(n):
        return z3.IntVal(256 ** n.as_long())
    return _pow256(n)


def order_flag(eng, p, order):
    if isinstance(order, str): return IntVal(1 if order == 'little' else 0)
    if isinstance(order, SStr): return If(order.t == StringVal('little'), IntVal(1), IntVal(0))
    if isinstance(order, SInt): return order.t
    raise Unsupported(f'byteorder {order!r}')


def bytesio_method(eng, p, o, name, args, kws):
    c = p.heap[o.oid]
    buf, pos = c[1], c[2]
    if name == 'write':
        b = eng.to_bytes(p, args[0])
        # only appending writes are modelled (position at the end)
        eng.oblige(p, 'bytesio.write_at_end', pos == Length(buf), 'pre')
        nb = Concat(buf, b)
        p.heap[o.oid] = ('bytesio', nb, Length(nb)); return [(p, SInt(Length(b)))]
    if name == 'getbuffer':
        return [(p, SBytes(buf))]
    if name == 'seek':
        off = eng.to_int(p, args[0])
        eng.oblige(p, 'bytesio.seek_in_range', And(off >= 0, off <= Length(buf)), 'pre')
        p.heap[o.oid] = ('bytesio', buf, off); return [(p, SInt(off))]
    if name == 'read':
        if args:
            n = eng.to_int(p, args[0])
            eng.oblige(p, 'bytesio.read_nonneg', n >= 0, 'pre')
            avail = Length(buf) - pos
            take = If(n <= avail, n, avail)
            p.heap[o.oid] = ('bytesio', buf, pos + take)
            return [(p, SBytes(SubSeq(buf, pos, take)))]
        p.heap[o.oid] = ('bytesio', buf, Length(buf))
        return [(p, SBytes(SubSeq(buf, pos, Length(buf) - pos)))]
    if name == 'close':
        return [(p, None)]
    raise Unsupported(f'BytesIO.{name}')


# successive results of read() on a file-like object (heap kind 'chunkfile')
file_chunk_b = Function('file_chunk_b', IntSort(), Bytes)
file_chunk_s = Function('file_chunk_s', IntSort(), StringSort())
