"""rxv symbolic executor: runs the *real* AST of functions under /repo on symbolic values and
collects verification conditions (DESIGN section 3).

The executor is path-splitting (one Path per feasible control-flow path).  Everything a handler can
observe or change is explicit in the Path:

  cells   values of local / closure variables (closures share Scope objects, values live in the path)
  heap    contents of mutable python containers created or reached by the code
  store   handler-level view of the state store, *by contract* (C14 proves the contract on MemoryStore)
  trace   z3 Seq of emissions (channel, event) in program order
  calls   user-callback invocations in program order (concrete list)
  pc      path condition (list of z3 Bool)

Anything outside the supported subset raises Unsupported: the function is then *undecided*, never violated.
"""
import ast
import itertools
import time
import z3
from z3 import (And, Or, Not, Implies, If, IntVal, BoolVal, RealVal, StringVal, Int, Bool, Const, Concat, Unit,
                Length, Store, Select, K, IntSort, BoolSort, ArraySort, is_true, is_false, simplify, Solver, unsat,
                sat, unknown, ToReal, Empty, SeqSort, SubSeq, ForAll, Function)
from .sorts import *
from .values import *


class Unsupported(Exception):
    pass


class Obligation:
    __slots__ = ('name', 'hyps', 'goal', 'kind', 'where', 'result', 'time', 'backend', 'model', 'path', 'extra')

    def __init__(self, name, hyps, goal, kind='ensures', where='', path=None, extra=None):
        self.name = name; self.hyps = list(hyps); self.goal = goal; self.kind = kind; self.where = where
        self.result = None; self.time = 0.0; self.backend = None; self.model = None; self.path = path
        self.extra = extra or {}


class Scope:
    _ids = itertools.count(1)

    def __init__(self, parent, names=()):
        self.parent = parent
        self.cells = {}
        for n in names:
            self.cells[n] = next(Scope._ids)

    def lookup(self, name):
        s = self
        while s is not None:
            if name in s.cells:
                return s.cells[name]
            s = s.parent
        return None

    def declare(self, name):
        if name not in self.cells:
            self.cells[name] = next(Scope._ids)
        return self.cells[name]


class StoreView:
    """handler-level store view: per state ordinal, arrays index -> marker / value (DESIGN C14 contract)."""

    def __init__(self):
        self.marker = {}
        self.value = {}
        self.extra = {}      # mapper states: ('dom', ord) Array(Int, Array(Val,Bool)), ('idx', ord) ..., ghost allocator

    def copy(self):
        s = StoreView(); s.marker = dict(self.marker); s.value = dict(self.value); s.extra = dict(self.extra); return s


class Path:
    def __init__(self):
        self.cells = {}
        self.heap = {}
        self.store = StoreView()
        self.trace = None
        self.calls = []
        self.pc = []
        self.ret = None
        self.returned = False
        self.exc = None
        self.brk = False
        self.cont = False
        self.notes = []
        self.ghost = {}

    def fork(self):
        q = Path()
        q.cells = dict(self.cells); q.heap = dict(self.heap); q.store = self.store.copy(); q.trace = self.trace
        q.calls = list(self.calls); q.pc = list(self.pc); q.ret = self.ret; q.returned = self.returned
        q.exc = self.exc; q.brk = self.brk; q.cont = self.cont; q.notes = list(self.notes); q.ghost = dict(self.ghost)
        return q

    @property
    def live(self):
        return not (self.returned or self.exc is not None or self.brk or self.cont)


_fresh = itertools.count(1)


def fresh(prefix, sort):
    return Const(f'{prefix}!{next(_fresh)}', sort)


def is_concrete(x):
    return x is None or isinstance(x, (bool, int, float, str, bytes)) or (
        isinstance(x, tuple) and all(is_concrete(e) for e in x))


class Engine:
    def __init__(self, world, prune_timeout_ms=400):
        self.world = world                    # name resolution (rxv.world.World)
        self.obligations = []
        self.base_hyps = []                   # requires of the case under execution (all of it)
        self.prune_hyps = []                  # quantifier-free part, for branch pruning (R6)
        self.prune_timeout = prune_timeout_ms
        self.loop_contracts = {}              # (function qualname, ordinal) -> loop contract object
        self.arith_hook = None                # R5 abstraction of nonlinear terms
        self.callee_contracts = {}            # qualname -> summary callable(engine, path, args, kws)
        self.need_canon = False
        self.where = ''
        self.stats = {'paths': 0, 'prune_checks': 0, 'stmts': 0}
        self.oid = itertools.count(1)
        self.current_fn = []
        self.user_axioms = []                 # instantiated facts about user callbacks (A5)
        self.max_paths = 400

    # ------------------------------------------------------------------ obligations
    def oblige(self, p, name, goal, kind='safety'):
        if goal is True or (z3.is_expr(goal) and is_true(simplify(goal))):
            return
        if goal is False:
            goal = BoolVal(False)
        self.obligations.append(Obligation(f'{self.where}/{kind}.{name}', list(p.pc), goal, kind, self.where, path=p))

    def add_obligation(self, name, pc, goal, kind, path=None, opts=None):
        """opts: lemmas (names of contract lemmas to use), defs (definitions of fresh skolem constants, added as hypotheses),
        hints (intermediate facts: each is first proved as its own obligation, then used as a hypothesis)"""
        opts = opts or {}
        pc = list(pc) + list(opts.get('defs', []))
        hints = list(opts.get('hints', []))
        for (qf, terms) in opts.get('pc_instances', []):
            # forall-elimination done syntactically: the quantified formula must literally be one of the hypotheses
            inst = z3.substitute_vars(qf.body(), *reversed(terms))
            if any(qf.eq(x) for x in pc + list(self.base_hyps)):
                pc = pc + [inst]
            else:
                hints = [inst] + hints
        for hi, h in enumerate(hints):
            ob = Obligation(f'{name}.hint{hi}', pc, h, kind, self.where, path=path, extra={'lemmas': opts.get('hint_lemmas')})
            self.obligations.append(ob)
        ob = Obligation(name, pc + hints, goal, kind, self.where, path=path, extra={'lemmas': opts.get('lemmas'), 'lemma_instances': opts.get('lemma_instances')})
        self.obligations.append(ob)
        return ob

    def feasible(self, pc):
        """branch pruning (R6): only the quantifier-free part of the path condition, small budget; `cannot show infeasible` keeps the path"""
        self.stats['prune_checks'] += 1
        s = Solver()
        s.set('timeout', self.prune_timeout)
        s.add(*self.prune_hyps)
        s.add(*[c for c in pc if not _has_quantifier(c)])
        return s.check() != unsat

    # ------------------------------------------------------------------ conversions
    def to_val(self, p, x):
        if x is None: return V.VNone
        if isinstance(x, bool): return V.VBool(BoolVal(x))
        if isinstance(x, int): return V.VInt(IntVal(x))
        if isinstance(x, float): return V.VReal(RealVal(repr(x)))
        if isinstance(x, str): return V.VStr(StringVal(x))
        if isinstance(x, bytes): return V.VBytes(self.to_bytes(p, x))
        if isinstance(x, tuple): return tup(*[self.to_val(p, e) for e in x])
        if isinstance(x, SVal): return x.t
        if isinstance(x, SInt): return V.VInt(x.t)
        if isinstance(x, SBool): return V.VBool(x.t)
        if isinstance(x, SReal): return V.VReal(x.t)
        if isinstance(x, SStr): return V.VStr(x.t)
        if isinstance(x, SBytes): return V.VBytes(x.t)
        if isinstance(x, SKey): return V.VKey(x.t)
        if isinstance(x, Sentinel): return V.VSent(IntVal(x.k))
        if isinstance(x, Ref): return V.VRef(IntVal(x.oid))
        if isinstance(x, ExcV):
            if x.term is None:
                x.term = fresh('exc', Val)
            return x.term
        if isinstance(x, (Host, Closure, UserFn, EvClass, PyType, Bound, Partial, StateRef)):
            if not hasattr(x, '_objterm'):
                x._objterm = V.VObj(fresh('hostobj', U))
            return x._objterm
        raise Unsupported(f'to_val {x!r}')

    def from_val(self, t):
        t = simplify(t)
        if t.decl().eq(V.VInt): return SInt(t.arg(0))
        if t.decl().eq(V.VBool): return SBool(t.arg(0))
        if t.decl().eq(V.VReal): return SReal(t.arg(0))
        if t.decl().eq(V.VStr): return SStr(t.arg(0))
        if t.decl().eq(V.VBytes): return SBytes(t.arg(0))
        if t.decl().eq(V.VKey): return SKey(t.arg(0))
        if t.decl().eq(V.VNone): return None
        if t.decl().eq(V.VSent) and z3.is_int_value(t.arg(0)): return Sentinel(t.arg(0).as_long())
        if t.decl().eq(V.VCons) or t.decl().eq(V.VNil):
            items = []
            while t.decl().eq(V.VCons):
                items.append(self.from_val(t.arg(0))); t = simplify(t.arg(1))
            if t.decl().eq(V.VNil):
                return tuple(items)
            raise Unsupported('improper tuple')
        return SVal(t)

    def to_int(self, p, x, what='int'):
        if isinstance(x, bool): return IntVal(1 if x else 0)
        if isinstance(x, int): return IntVal(x)
        if isinstance(x, SInt): return x.t
        if isinstance(x, SBool): return If(x.t, 1, 0)
        if isinstance(x, SVal):
            self.oblige(p, f'type.{what}', V.is_VInt(x.t), 'type')
            return V.i(x.t)
        if isinstance(x, Sentinel) or x is None:
            # a type error at run time: this path must be unreachable
            self.oblige(p, f'type.{what}.not_{"sentinel" if x is not None else "none"}', BoolVal(False), 'type')
            return fresh('typeerror', IntSort())
        raise Unsupported(f'to_int {x!r}')

    def to_key(self, p, x):
        if isinstance(x, SKey): return x.t
        if isinstance(x, tuple):
            if len(x) == 1: return Key.KK(self.to_int(p, x[0], 'keyidx'), Key.KNil)
            if len(x) == 2: return Key.KK(self.to_int(p, x[0], 'keyidx'), self.to_key(p, x[1]))
        if isinstance(x, SVal):
            self.oblige(p, 'type.key', V.is_VKey(x.t), 'type')
            return V.vk(x.t)
        raise Unsupported(f'to_key {x!r}')

    def truth(self, p, x):
        """python truthiness: python bool when statically known, else z3 Bool"""
        if x is None: return False
        if isinstance(x, (bool, int, float, str, bytes, tuple)): return bool(x)
        if isinstance(x, SBool): return x.t
        if isinstance(x, SInt): return x.t != 0
        if isinstance(x, SReal): return x.t != 0
        if isinstance(x, SStr): return Length(x.t) > 0
        if isinstance(x, SBytes): return Length(x.t) > 0
        if isinstance(x, SSeq): return Length(x.t) > 0
        if isinstance(x, SVal): return truthy(x.t)
        if isinstance(x, (Closure, UserFn, Host, EvClass, Bound, Partial, EventV, Sentinel, StateRef, PyType, ExcV)): return True
        if isinstance(x, Ref):
            c = p.heap[x.oid]
            if c[0] == 'list': return len(c[1]) > 0
            if c[0] in ('slist', 'deque'): return Length(c[1]) > 0
            if c[0] == 'arr': return c[2] > 0
            if c[0] == 'obj': return True
        raise Unsupported(f'truth {x!r}')

    def as_z3_bool(self, c):
        return BoolVal(c) if isinstance(c, bool) else c

    # ------------------------------------------------------------------ identity / equality
    def is_same(self, p, a, b):
        """python `a is b`: python bool or z3 Bool (A3: identity implies equality, not conversely)"""
        singles = (type(None), bool, Sentinel, EvClass, PyType)
        if isinstance(a, singles) and isinstance(b, singles):
            if isinstance(a, bool) or isinstance(b, bool):
                return isinstance(a, bool) and isinstance(b, bool) and a == b
            return a == b if type(a) is type(b) else False
        if isinstance(a, (Closure, Host, UserFn, Bound, StateRef, Ref, EventV, Partial)) or \
           isinstance(b, (Closure, Host, UserFn, Bound, StateRef, Ref, EventV, Partial)):
            if isinstance(a, SVal) or isinstance(b, SVal):
                return self.to_val(p, a) == self.to_val(p, b)
            if isinstance(a, Ref) and isinstance(b, Ref):
                return a.oid == b.oid
            return a is b
        if isinstance(a, SType) or isinstance(b, SType):
            return self.type_is(p, a, b)
        if isinstance(a, singles):
            a, b = b, a
        if isinstance(b, singles):
            # b is a singleton: identity == structural equality with the singleton
            if isinstance(a, SVal):
                return a.t == self.to_val(p, b)
            if isinstance(a, SBool):
                return (a.t == b) if isinstance(b, bool) else False
            return False     # statically typed non-singleton value vs singleton
        if is_concrete(a) and is_concrete(b):
            # small ints / interned strings: CPython identity coincides with equality for the values used in rxsci
            return type(a) is type(b) and a == b
        ta, tb = self.to_val(p, a), self.to_val(p, b)
        if ta.eq(tb):
            return True
        if (isinstance(a, int) and not isinstance(a, bool) and -5 <= a <= 256) or \
           (isinstance(b, int) and not isinstance(b, bool) and -5 <= b <= 256):
            return ta == tb              # CPython small-int cache (used by MemoryStore.iterate)
        r = fresh('is', BoolSort())
        p.pc.append(Implies(r, ta == tb))
        # singletons inside Val (None / bool / sentinels) are identical when equal
        single = Or(V.is_VNone(ta), V.is_VBool(ta), V.is_VSent(ta), V.is_VNil(ta), V.is_VRef(ta), V.is_VObj(ta))
        p.pc.append(Implies(And(ta == tb, single), r))
        return r

    def type_is(self, p, a, b):
        def tname(x):
            return x.name if isinstance(x, PyType) else None
        if isinstance(a, SType) and isinstance(b, SType):
            raise Unsupported('type(x) is type(y)')
        if isinstance(b, SType):
            a, b = b, a
        v = a.of
        if isinstance(b, EvClass):
            return False if not isinstance(v, EventV) else v.kind == b.kind
        n = tname(b)
        if n is None:
            return False
        if isinstance(v, SVal):
            tests = {'int': V.is_VInt, 'bool': V.is_VBool, 'float': V.is_VReal, 'str': V.is_VStr, 'NoneType': V.is_VNone,
                     'bytes': V.is_VBytes, 'tuple': lambda t: Or(V.is_VNil(t), V.is_VCons(t))}
            if n in tests:
                return tests[n](v.t)
            if n in ('list', 'dict', 'set', 'deque', 'array'):
                raise Unsupported(f'type test {n} on dynamic value')
            return False
        raise Unsupported(f'type_is {a!r} {b!r}')

    def py_equal(self, p, a, b):
        """python `a == b`: python bool or z3 Bool"""
        if is_concrete(a) and is_concrete(b):
            return a == b
        if isinstance(a, (Sentinel, EvClass, PyType)) or isinstance(b, (Sentinel, EvClass, PyType)):
            r = self.is_same(p, a, b)      # their __eq__ is identity
            return r
        num = (int, SInt, SBool, bool)
        if isinstance(a, num) and isinstance(b, num):
            return self.to_int(p, a) == self.to_int(p, b)
        realish = (int, float, SInt, SReal, bool, SBool)
        if isinstance(a, realish) and isinstance(b, realish):
            return self.to_real(p, a) == self.to_real(p, b)
        if isinstance(a, (SStr, str)) and isinstance(b, (SStr, str)):
            return self.to_str(p, a) == self.to_str(p, b)
        if isinstance(a, (SBytes, bytes)) and isinstance(b, (SBytes, bytes)):
            return self.to_bytes(p, a) == self.to_bytes(p, b)
        if isinstance(a, SKey) and isinstance(b, SKey):
            return a.t == b.t
        if isinstance(a, tuple) and isinstance(b, tuple):
            if len(a) != len(b):
                return False
            cs = [self.py_equal(p, x, y) for x, y in zip(a, b)]
            if any(c is False for c in cs): return False
            cs = [c for c in cs if c is not True]
            return And(*cs) if cs else True
        if (a is None and not isinstance(b, SVal)) or (b is None and not isinstance(a, SVal)):
            return a is None and b is None
        if isinstance(a, Ref) and isinstance(b, Ref) and a.oid == b.oid:
            return True
        if isinstance(a, (SInt, int)) and isinstance(b, SVal) and not isinstance(a, bool):
            # common case `w_value != -1`: int against dynamic value -> stays quantifier free when value is an int
            pass
        self.need_canon = True
        return py_eq(self.to_val(p, a), self.to_val(p, b))

    def to_real(self, p, x):
        if isinstance(x, bool): return RealVal(1 if x else 0)
        if isinstance(x, int): return RealVal(x)
        if isinstance(x, float): return RealVal(repr(x)) if x == x and abs(x) != float('inf') else (_ for _ in ()).throw(Unsupported('nan/inf'))
        if isinstance(x, SInt): return ToReal(x.t)
        if isinstance(x, SReal): return x.t
        if isinstance(x, SBool): return If(x.t, RealVal(1), RealVal(0))
        if isinstance(x, SVal):
            self.oblige(p, 'type.number', Or(V.is_VReal(x.t), V.is_VInt(x.t)), 'type')
            return If(V.is_VInt(x.t), ToReal(V.i(x.t)), V.r(x.t))
        raise Unsupported(f'to_real {x!r}')

    def to_str(self, p, x):
        if isinstance(x, str): return StringVal(x)
        if isinstance(x, SStr): return x.t
        if isinstance(x, SVal):
            self.oblige(p, 'type.str', V.is_VStr(x.t), 'type'); return V.s(x.t)
        raise Unsupported(f'to_str {x!r}')

    def to_bytes(self, p, x):
        if isinstance(x, bytes):
            if not x: return Empty(Bytes)
            return Concat(*[Unit(z3.BitVecVal(c, 8)) for c in x]) if len(x) > 1 else Unit(z3.BitVecVal(x[0], 8))
        if isinstance(x, SBytes): return x.t
        if isinstance(x, SVal):
            self.oblige(p, 'type.bytes', V.is_VBytes(x.t), 'type'); return V.by(x.t)
        raise Unsupported(f'to_bytes {x!r}')

    # ------------------------------------------------------------------ variables
    def get_name(self, p, scope, name, module):
        cid = scope.lookup(name) if scope is not None else None
        if cid is not None:
            if cid not in p.cells:
                raise Unsupported(f'unbound local {name}')
            return p.cells[cid]
        return self.world.global_name(module, name)

    def set_name(self, p, scope, name, value):
        cid = scope.lookup(name)
        if cid is None:
            cid = scope.declare(name)
        p.cells[cid] = value

    # ------------------------------------------------------------------ statements
    def run_block(self, paths, stmts, fr):
        for s in stmts:
            nxt = []
            for p in paths:
                if not p.live:
                    nxt.append(p); continue
                self.stats['stmts'] += 1
                m = getattr(self, 's_' + type(s).__name__, None)
                if m is None:
                    raise Unsupported(f'statement {type(s).__name__} at line {s.lineno}')
                nxt.extend(m(p, s, fr))
            paths = nxt
            if len(paths) > self.max_paths:
                raise Unsupported(f'path explosion (> {self.max_paths}) at line {s.lineno}')
        return paths

    def s_Pass(self, p, s, fr): return [p]
    def s_Nonlocal(self, p, s, fr): return [p]
    def s_Global(self, p, s, fr): return [p]
    def s_Import(self, p, s, fr): return [p]
    def s_ImportFrom(self, p, s, fr): return [p]

    def s_Expr(self, p, s, fr):
        if isinstance(s.value, ast.Constant):
            return [p]          # docstring / dead string literal
        if self.is_dropped_call(s.value):
            p.notes.append(('dropped', ast.unparse(s.value)[:60]))
            return [p]
        return [q for q, _ in self.ev(p, s.value, fr)]

    def is_dropped_call(self, e):
        if isinstance(e, ast.Call):
            d = dotted(e.func)
            if d in ('print',) or (d and (d.startswith('logging.') or d.startswith('logger.'))):
                return True
        return False

    def s_FunctionDef(self, p, s, fr):
        clo = Closure(s, fr.scope, fr.module, f'{fr.qual}.{s.name}')
        clo.defaults = []
        out = [p]
        # default values are evaluated at definition time
        dvals = []
        for d in s.args.defaults:
            nxt = []
            for q in out:
                for q2, v in self.ev(q, d, fr):
                    nxt.append((q2, v))
            if len(nxt) != 1:
                raise Unsupported('forking default value')
            out = [nxt[0][0]]; dvals.append(nxt[0][1])
        clo.defaults = dvals
        kwd = {}
        for a, d in zip(s.args.kwonlyargs, s.args.kw_defaults):
            if d is not None:
                r = self.ev(out[0], d, fr)
                if len(r) != 1: raise Unsupported('forking default value')
                kwd[a.arg] = r[0][1]
        clo.kwdefaults = kwd
        for q in out:
            self.set_name(q, fr.scope, s.name, clo)
        return out

    def s_Return(self, p, s, fr):
        if s.value is None:
            p.ret = None; p.returned = True; return [p]
        out = []
        for q, v in self.ev(p, s.value, fr):
            if q.live:
                q.ret = v; q.returned = True
            out.append(q)
        return out

    def s_Raise(self, p, s, fr):
        if s.exc is None:
            raise Unsupported('bare raise')
        out = []
        for q, v in self.ev(p, s.exc, fr):
            if q.live:
                if isinstance(v, Host) and v.kind == 'excclass':
                    v = ExcV(v.name, (), origin='raise')
                if not isinstance(v, (ExcV, SVal)):
                    raise Unsupported(f'raise {v!r}')
                q.exc = v
            out.append(q)
        return out

    def s_Assign(self, p, s, fr):
        out = []
        for q, v in self.ev(p, s.value, fr):
            if not q.live:
                out.append(q); continue
            qs = [q]
            for t in s.targets:
                nq = []
                for q1 in qs:
                    nq.extend(self.assign(q1, t, v, fr))
                qs = nq
            out.extend(qs)
        return out

    def s_AnnAssign(self, p, s, fr):
        if s.value is None: return [p]
        out = []
        for q, v in self.ev(p, s.value, fr):
            if q.live: out.extend(self.assign(q, s.target, v, fr))
            else: out.append(q)
        return out

    def assign(self, p, t, v, fr):
        if isinstance(t, ast.Name):
            self.set_name(p, fr.scope, t.id, v); return [p]
        if isinstance(t, (ast.Tuple, ast.List)):
            n_static = len(v) if isinstance(v, tuple) else (len(p.heap[v.oid][1]) if isinstance(v, Ref) and p.heap[v.oid][0] == 'list' else None)
            if n_static is not None and n_static != len(t.elts) and not any(isinstance(e, ast.Starred) for e in t.elts):
                # unpacking a sequence of statically known length into a different number of targets: python raises ValueError here
                p.exc = ExcV('ValueError', (), origin='unpack')
                return [p]
            items = self.unpack(p, v, len(t.elts))
            ps = [p]
            for te, ve in zip(t.elts, items):
                nq = []
                for q in ps: nq.extend(self.assign(q, te, ve, fr))
                ps = nq
            return ps
        if isinstance(t, ast.Subscript):
            out = []
            for q, base in self.ev(p, t.value, fr):
                for q2, idx in self.ev_slice(q, t.slice, fr):
                    if q2.live: self.store_subscript(q2, base, idx, v)
                    out.append(q2)
            return out
        if isinstance(t, ast.Attribute):
            out = []
            for q, base in self.ev(p, t.value, fr):
                if q.live: self.store_attr(q, base, t.attr, v)
                out.append(q)
            return out
        raise Unsupported(f'assign target {type(t).__name__}')

    def unpack(self, p, v, n):
        if isinstance(v, tuple):
            if len(v) != n: raise Unsupported('unpack arity')
            return list(v)
        if isinstance(v, Ref) and p.heap[v.oid][0] == 'list':
            l = p.heap[v.oid][1]
            if len(l) != n: raise Unsupported('unpack arity')
            return list(l)
        if isinstance(v, SVal):
            items = []; t = v.t
            for k in range(n):
                self.oblige(p, f'type.unpack{k}', V.is_VCons(t), 'type')
                items.append(self.from_val(V.hd(t))); t = V.tl(t)
            self.oblige(p, 'type.unpack.len', V.is_VNil(t), 'type')
            return items
        raise Unsupported(f'unpack {v!r}')

    def s_AugAssign(self, p, s, fr):
        load = ast.copy_location(_as_load(s.target), s.target)
        out = []
        for q, cur in self.ev(p, load, fr):
            for q2, rhs in self.ev(q, s.value, fr):
                if not q2.live:
                    out.append(q2); continue
                if isinstance(cur, Ref) and isinstance(s.op, ast.Add):
                    raise Unsupported('list +=')
                v = self.binop(q2, s.op, cur, rhs)
                out.extend(self.assign(q2, s.target, v, fr))
        return out

    def s_If(self, p, s, fr):
        out = []
        for q, c in self.ev_cond(p, s.test, fr):
            if not q.live:
                out.append(q); continue
            if c is True:
                out.extend(self.run_block([q], s.body, fr))
            elif c is False:
                out.extend(self.run_block([q], s.orelse, fr))
            else:
                a = q.fork(); a.pc.append(c)
                b = q; b.pc.append(Not(c))
                if self.feasible(a.pc): out.extend(self.run_block([a], s.body, fr))
                if self.feasible(b.pc): out.extend(self.run_block([b], s.orelse, fr))
        return out

    def ev_cond(self, p, e, fr):
        """evaluate a condition with short-circuit path splitting -> [(path, python bool | z3 Bool)]"""
        if isinstance(e, ast.BoolOp):
            is_and = isinstance(e.op, ast.And)
            results = []
            pend = [p]
            for k, sub in enumerate(e.values):
                last = k == len(e.values) - 1
                nxt = []
                for q in pend:
                    for q2, c in self.ev_cond(q, sub, fr):
                        if not q2.live:
                            results.append((q2, False)); continue
                        if last:
                            results.append((q2, c)); continue
                        if c is True:
                            (nxt if is_and else results).append(q2 if is_and else (q2, True))
                        elif c is False:
                            (results if is_and else nxt).append((q2, False) if is_and else q2)
                        else:
                            a = q2.fork(); a.pc.append(c)
                            b = q2; b.pc.append(Not(c))
                            if is_and:
                                if self.feasible(a.pc): nxt.append(a)
                                if self.feasible(b.pc): results.append((b, False))
                            else:
                                if self.feasible(a.pc): results.append((a, True))
                                if self.feasible(b.pc): nxt.append(b)
                pend = nxt
            return results
        if isinstance(e, ast.UnaryOp) and isinstance(e.op, ast.Not):
            out = []
            for q, c in self.ev_cond(p, e.operand, fr):
                out.append((q, (not c) if isinstance(c, bool) else Not(c)))
            return out
        out = []
        for q, v in self.ev(p, e, fr):
            if not q.live:
                out.append((q, False)); continue
            c = self.truth(q, v)
            if not isinstance(c, bool):
                c = simplify(c)
                if is_true(c): c = True
                elif is_false(c): c = False
            out.append((q, c))
        return out

    def s_While(self, p, s, fr):
        return self.loop(p, s, fr)

    def s_For(self, p, s, fr):
        return self.loop(p, s, fr)

    def s_Break(self, p, s, fr):
        p.brk = True; return [p]

    def s_Continue(self, p, s, fr):
        p.cont = True; return [p]

    def s_Try(self, p, s, fr):
        if s.finalbody:
            raise Unsupported('try/finally')
        out = []
        for q in self.run_block([p], s.body, fr):
            if q.exc is None:
                if q.live and s.orelse:
                    out.extend(self.run_block([q], s.orelse, fr))
                else:
                    out.append(q)
                continue
            handled = False
            for h in s.handlers:
                m = self.exc_matches(q, q.exc, h, fr)
                if m is True:
                    e = q.exc; q.exc = None
                    if h.name:
                        self.set_name(q, fr.scope, h.name, e)
                    out.extend(self.run_block([q], h.body, fr))
                    handled = True
                    break
                if m is not False:
                    raise Unsupported('symbolic exception class match')
            if not handled:
                out.append(q)
        return out

    def exc_matches(self, p, exc, h, fr):
        if h.type is None:
            return True
        d = dotted(h.type)
        if d in ('Exception', 'BaseException'):
            return True
        cls = exc.cls if isinstance(exc, ExcV) else None
        if cls is None:
            return None
        hier = {'IndexError': ['LookupError'], 'KeyError': ['LookupError'], 'ValueError': [], 'TypeError': [],
                'ZeroDivisionError': ['ArithmeticError'], 'RuntimeError': [], 'UserError': []}
        if cls == d or d in hier.get(cls, []):
            return True
        return False

    def s_With(self, p, s, fr):
        raise Unsupported('with')

    def s_Assert(self, p, s, fr):
        out = []
        for q, c in self.ev_cond(p, s.test, fr):
            if q.live:
                self.oblige(q, f'assert.L{s.lineno}', self.as_z3_bool(c), 'assert')
                if not isinstance(c, bool): q.pc.append(c)
            out.append(q)
        return out

    def s_Delete(self, p, s, fr):
        raise Unsupported('del')

    # ------------------------------------------------------------------ loops
    def loop(self, p, s, fr):
        fn = fr.qual
        ordn = fr.loop_ordinals.get(id(s))
        lc = self.loop_contracts.get((fn, ordn)) or self.loop_contracts.get((fn.split('.')[-1], ordn))
        if lc is None:
            # contracts may also be attached by the *shape* of the loop (robust against moving a loop into a helper)
            for key, cand in self.loop_contracts.items():
                if isinstance(key, tuple) and key and key[0] == 'match' and key[1](fn, s):
                    lc = cand; break
        lc_fb = None
        if lc is None and len(self.loop_contracts) == 1:
            # the operator has ONE loop under contract: the contract follows that loop into a local helper of the same factory
            # (e.g. the body of a branch moved into `def _on_item(i)`), as long as it is the first loop of that helper
            (key, cand), = self.loop_contracts.items()
            if isinstance(key, tuple) and len(key) == 2 and isinstance(key[0], str) and ordn == 0 and key[1] == 0:
                fac = key[0].split('.')
                # common prefix = module + factory function (everything up to and including the outermost def)
                mod_parts = fr.module.split('.') if getattr(fr, 'module', None) else []
                pre = '.'.join(fac[:len(mod_parts) + 1])
                if mod_parts and key[0].startswith(fr.module + '.') and fn.startswith(pre + '.'):
                    lc_fb = cand          # used only for a loop that cannot be unrolled (never for a loop over a literal collection)
        # concrete iteration: for x in <python list/tuple/range(const)>
        if isinstance(s, ast.For):
            its = self.ev(p, s.iter, fr)
            out = []
            for q, itv in its:
                if not q.live:
                    out.append(q); continue
                items = self.concrete_items(q, itv)
                if items is not None and lc is None:
                    out.extend(self.unroll(q, s, items, fr))
                elif lc is not None or lc_fb is not None:
                    out.extend((lc or lc_fb).apply(self, q, s, itv, fr))
                else:
                    raise Unsupported(f'loop #{ordn} in {fn} (line {s.lineno}) needs a contract')
            return out
        lc = lc or lc_fb
        if lc is None:
            raise Unsupported(f'while loop #{ordn} in {fn} (line {s.lineno}) needs a contract')
        return lc.apply(self, p, s, None, fr)

    def concrete_items(self, p, itv):
        if isinstance(itv, tuple): return list(itv)
        if isinstance(itv, Ref) and p.heap[itv.oid][0] == 'list': return list(p.heap[itv.oid][1])
        if isinstance(itv, Host) and itv.kind == 'range' and isinstance(itv.n, int): return list(range(itv.n))
        if isinstance(itv, Host) and itv.kind == 'enumerate':
            inner = self.concrete_items(p, itv.it)
            return None if inner is None else [(k, x) for k, x in enumerate(inner)]
        return None

    def unroll(self, p, s, items, fr):
        paths = [p]
        for it in items:
            nxt = []
            for q in paths:
                if not q.live:
                    nxt.append(q); continue
                for q1 in self.assign(q, s.target, it, fr):
                    for q2 in self.run_block([q1], s.body, fr):
                        q2.cont = False
                        nxt.append(q2)
            paths = nxt
        out = []
        for q in paths:
            if q.brk:
                q.brk = False; out.append(q)
            elif q.live and s.orelse:
                out.extend(self.run_block([q], s.orelse, fr))
            else:
                out.append(q)
        return out

    # ------------------------------------------------------------------ expressions
    def ev(self, p, e, fr):
        m = getattr(self, 'e_' + type(e).__name__, None)
        if m is None:
            raise Unsupported(f'expression {type(e).__name__} at line {getattr(e, "lineno", "?")}')
        return m(p, e, fr)

    def ev_many(self, p, exprs, fr):
        """evaluate left to right -> [(path, [values])]"""
        acc = [(p, [])]
        for e in exprs:
            nxt = []
            for q, vals in acc:
                if not q.live:
                    nxt.append((q, vals + [None])); continue
                if isinstance(e, ast.Starred):
                    for q2, v in self.ev(q, e.value, fr):
                        items = self.concrete_items(q2, v)
                        if items is None: raise Unsupported('star of symbolic sequence')
                        nxt.append((q2, vals + [('*', items)]))
                else:
                    for q2, v in self.ev(q, e, fr):
                        nxt.append((q2, vals + [v]))
            acc = nxt
        out = []
        for q, vals in acc:
            flat = []
            for v in vals:
                if isinstance(v, tuple) and len(v) == 2 and v[0] == '*' and isinstance(v[1], list): flat.extend(v[1])
                else: flat.append(v)
            out.append((q, flat))
        return out

    def e_Constant(self, p, e, fr):
        return [(p, e.value)]

    def e_Name(self, p, e, fr):
        return [(p, self.get_name(p, fr.scope, e.id, fr.module))]

    def e_Tuple(self, p, e, fr):
        return [(q, tuple(vals)) for q, vals in self.ev_many(p, e.elts, fr)]

    def e_List(self, p, e, fr):
        out = []
        for q, vals in self.ev_many(p, e.elts, fr):
            out.append((q, self.new_list(q, vals)))
        return out

    def new_list(self, p, vals):
        r = Ref(next(self.oid), 'list'); p.heap[r.oid] = ('list', tuple(vals)); return r

    def new_obj(self, p, kind, content):
        r = Ref(next(self.oid), kind); p.heap[r.oid] = content; return r

    def e_Dict(self, p, e, fr):
        if e.keys:
            if not all(isinstance(k, ast.Constant) for k in e.keys):
                raise Unsupported('dict literal with non-constant keys')
            out = []
            for q, vals in self.ev_many(p, e.values, fr):
                out.append((q, self.new_obj(q, 'pydict', ('pydict', tuple((k.value, v) for k, v in zip(e.keys, vals))))))
            return out
        return [(p, self.new_obj(p, 'dict', ('dict', K(Val, BoolVal(False)), K(Val, V.VNone), Empty(ValSeq))))]

    def e_JoinedStr(self, p, e, fr):
        return [(p, SVal(fresh('fstring', Val)))]

    def e_Lambda(self, p, e, fr):
        clo = Closure(e, fr.scope, fr.module, f'{fr.qual}.<lambda>L{e.lineno}')
        clo.defaults = []
        for d in e.args.defaults:
            r = self.ev(p, d, fr)
            if len(r) != 1: raise Unsupported('forking lambda default')
            clo.defaults.append(r[0][1])
        clo.kwdefaults = {}
        return [(p, clo)]

    def e_IfExp(self, p, e, fr):
        out = []
        for q, c in self.ev_cond(p, e.test, fr):
            if not q.live:
                out.append((q, None)); continue
            if c is True: out.extend(self.ev(q, e.body, fr))
            elif c is False: out.extend(self.ev(q, e.orelse, fr))
            else:
                a = q.fork(); a.pc.append(c)
                b = q; b.pc.append(Not(c))
                if self.feasible(a.pc): out.extend(self.ev(a, e.body, fr))
                if self.feasible(b.pc): out.extend(self.ev(b, e.orelse, fr))
        return out

    def e_BoolOp(self, p, e, fr):
        # value-returning and/or
        is_and = isinstance(e.op, ast.And)
        results = []
        pend = [(p, None)]
        for k, sub in enumerate(e.values):
            last = k == len(e.values) - 1
            nxt = []
            for q, _ in pend:
                for q2, v in self.ev(q, sub, fr):
                    if not q2.live:
                        results.append((q2, None)); continue
                    if last:
                        results.append((q2, v)); continue
                    c = self.truth(q2, v)
                    if not isinstance(c, bool):
                        c = simplify(c)
                        c = True if is_true(c) else False if is_false(c) else c
                    if c is True:
                        (nxt if is_and else results).append((q2, v))
                    elif c is False:
                        (results if is_and else nxt).append((q2, v))
                    else:
                        a = q2.fork(); a.pc.append(c)
                        b = q2; b.pc.append(Not(c))
                        if is_and:
                            if self.feasible(a.pc): nxt.append((a, v))
                            if self.feasible(b.pc): results.append((b, v))
                        else:
                            if self.feasible(a.pc): results.append((a, v))
                            if self.feasible(b.pc): nxt.append((b, v))
            pend = nxt
        return results

    def e_UnaryOp(self, p, e, fr):
        out = []
        for q, v in self.ev(p, e.operand, fr):
            if not q.live:
                out.append((q, None)); continue
            if isinstance(e.op, ast.Not):
                c = self.truth(q, v)
                out.append((q, (not c) if isinstance(c, bool) else SBool(Not(c))))
            elif isinstance(e.op, ast.USub):
                if is_concrete(v): out.append((q, -v))
                elif isinstance(v, SInt): out.append((q, SInt(-v.t)))
                elif isinstance(v, SReal): out.append((q, SReal(-v.t)))
                else: raise Unsupported('unary minus')
            else:
                raise Unsupported('unary op')
        return out

    def e_BinOp(self, p, e, fr):
        out = []
        for q, (l, r) in [(q, vs) for q, vs in self.ev_many(p, [e.left, e.right], fr)]:
            if not q.live:
                out.append((q, None)); continue
            out.append((q, self.binop(q, e.op, l, r)))
        return out

    def binop(self, p, op, l, r):
        if isinstance(l, Sentinel) or isinstance(r, Sentinel) or ((l is None or r is None) and not isinstance(op, ast.Add)):
            # arithmetic on a sentinel / None raises TypeError at run time: this path must be unreachable
            self.oblige(p, 'type.arith.operand_is_not_a_sentinel', BoolVal(False), 'type')
            return SInt(fresh('typeerror', IntSort()))
        if is_concrete(l) and is_concrete(r) and not isinstance(l, tuple):
            try:
                return {ast.Add: lambda a, b: a + b, ast.Sub: lambda a, b: a - b, ast.Mult: lambda a, b: a * b,
                        ast.FloorDiv: lambda a, b: a // b, ast.Mod: lambda a, b: a % b, ast.Pow: lambda a, b: a ** b,
                        ast.Div: lambda a, b: a / b, ast.BitOr: lambda a, b: a | b}[type(op)](l, r)
            except KeyError:
                raise Unsupported(f'binop {type(op).__name__}')
        if isinstance(l, tuple) and isinstance(r, tuple) and isinstance(op, ast.Add):
            return l + r
        if isinstance(op, ast.Mult) and isinstance(l, Ref) and p.heap[l.oid][0] == 'list' and isinstance(r, int):
            return self.new_list(p, list(p.heap[l.oid][1]) * r)
        if isinstance(op, ast.Mult) and isinstance(l, Ref) and p.heap[l.oid][0] == 'list' and len(p.heap[l.oid][1]) == 1 and isinstance(r, SInt):
            # [x] * n with a symbolic count: n copies of one element (max(n, 0) of them); only consumed by <array>.extend(...)
            return Host('replist', value=p.heap[l.oid][1][0], n=z3.If(r.t > 0, r.t, z3.IntVal(0)))
        strs = (str, SStr)
        if isinstance(l, strs) and isinstance(r, strs) and isinstance(op, ast.Add):
            return SStr(Concat(self.to_str(p, l), self.to_str(p, r)))
        byts = (bytes, SBytes)
        if isinstance(l, byts) and isinstance(r, byts) and isinstance(op, ast.Add):
            return SBytes(Concat(self.to_bytes(p, l), self.to_bytes(p, r)))
        ints = (int, SInt, bool, SBool)
        if self.arith_hook is not None:
            h = self.arith_hook(self, p, op, l, r)
            if h is not None:
                return h
        li, ri = isinstance(l, ints), isinstance(r, ints)
        if isinstance(l, SVal) and ri and self.hint_int(l):
            l = SInt(self.to_int(p, l)); li = True
        if isinstance(r, SVal) and li and self.hint_int(r):
            r = SInt(self.to_int(p, r)); ri = True
        if li and ri:
            a, b = self.to_int(p, l), self.to_int(p, r)
            if isinstance(op, ast.Add): return SInt(a + b)
            if isinstance(op, ast.Sub): return SInt(a - b)
            if isinstance(op, ast.Mult): return SInt(a * b)
            if isinstance(op, ast.FloorDiv):
                self.oblige(p, 'div.positive', b > 0, 'type'); return SInt(a / b)
            if isinstance(op, ast.Mod):
                self.oblige(p, 'mod.positive', b > 0, 'type'); return SInt(a % b)
            if isinstance(op, ast.Div):
                self.oblige(p, 'div.nonzero', b != 0, 'type'); return SReal(ToReal(a) / ToReal(b))
            if isinstance(op, ast.Pow) and isinstance(r, int) and 0 <= r <= 4:
                t = IntVal(1)
                for _ in range(r): t = t * a
                return SInt(t)
            raise Unsupported(f'int binop {type(op).__name__}')
        nums = ints + (float, SReal, SVal)
        if isinstance(l, nums) and isinstance(r, nums):
            a, b = self.to_real(p, l), self.to_real(p, r)
            if isinstance(op, ast.Add): return SReal(a + b)
            if isinstance(op, ast.Sub): return SReal(a - b)
            if isinstance(op, ast.Mult): return SReal(a * b)
            if isinstance(op, ast.Div):
                self.oblige(p, 'div.nonzero', b != 0, 'type'); return SReal(a / b)
            if isinstance(op, ast.Pow) and isinstance(r, int) and 0 <= r <= 4:
                t = RealVal(1)
                for _ in range(r): t = t * a
                return SReal(t)
            raise Unsupported(f'real binop {type(op).__name__}')
        raise Unsupported(f'binop {type(op).__name__} on {l!r}, {r!r}')

    def hint_int(self, v):
        return True

    def e_Compare(self, p, e, fr):
        if len(e.ops) != 1:
            raise Unsupported('chained comparison')
        op = e.ops[0]
        out = []
        for q, (l, r) in self.ev_many(p, [e.left, e.comparators[0]], fr):
            if not q.live:
                out.append((q, None)); continue
            c = self.compare(q, op, l, r)
            out.append((q, c if isinstance(c, bool) else SBool(c)))
        return out

    def compare(self, p, op, l, r):
        if isinstance(op, ast.Is): return self.is_same(p, l, r)
        if isinstance(op, ast.IsNot):
            c = self.is_same(p, l, r); return (not c) if isinstance(c, bool) else Not(c)
        if isinstance(op, ast.Eq): return self.py_equal(p, l, r)
        if isinstance(op, ast.NotEq):
            c = self.py_equal(p, l, r); return (not c) if isinstance(c, bool) else Not(c)
        if isinstance(op, (ast.In, ast.NotIn)):
            c = self.contains(p, r, l)
            if isinstance(op, ast.NotIn): c = (not c) if isinstance(c, bool) else Not(c)
            return c
        if is_concrete(l) and is_concrete(r):
            return {ast.Lt: lambda a, b: a < b, ast.LtE: lambda a, b: a <= b, ast.Gt: lambda a, b: a > b,
                    ast.GtE: lambda a, b: a >= b}[type(op)](l, r)
        f = {ast.Lt: lambda a, b: a < b, ast.LtE: lambda a, b: a <= b, ast.Gt: lambda a, b: a > b,
             ast.GtE: lambda a, b: a >= b}[type(op)]
        ints = (int, SInt, bool, SBool)
        if (isinstance(l, ints) or isinstance(l, SVal)) and (isinstance(r, ints) or isinstance(r, SVal)) and \
                (isinstance(l, ints) or isinstance(r, ints)):
            return f(self.to_int(p, l), self.to_int(p, r))
        return f(self.to_real(p, l), self.to_real(p, r))

    def contains(self, p, container, x):
        if isinstance(container, Host) and container.kind == 'dictview':
            from . import heapmodels
            return heapmodels.dictview_contains(self, p, container, x)
        if isinstance(container, Ref):
            c = p.heap[container.oid]
            if c[0] == 'list':
                container = tuple(c[1])
            elif c[0] == 'set':
                self.need_canon = True
                return Select(c[1], canon(self.to_val(p, x)))
            elif c[0] == 'dict':
                self.need_canon = True
                return Select(c[1], canon(self.to_val(p, x)))
            else:
                raise Unsupported(f'in {c[0]}')
        if isinstance(container, Host) and container.kind == 'arrslice':
            from . import heapmodels
            items = heapmodels.arrslice_items(self, container)
            if items is None: raise Unsupported('membership in a slice of symbolic length')
            container = tuple(items)
        if isinstance(container, tuple):
            def one(y):
                # list / tuple membership is `x is y or x == y`
                if isinstance(y, (EvClass, PyType, Sentinel)): return self.is_same(p, x, y)
                e = self.py_equal(p, x, y)
                if e is True or not (isinstance(x, SVal) and isinstance(y, SVal)): return e
                s = self.is_same(p, x, y)
                return True if s is True else (e if s is False else (s if e is False else Or(s, e)))
            cs = [one(y) for y in container]
            if any(c is True for c in cs): return True
            cs = [c for c in cs if c is not False]
            return Or(*cs) if cs else False
        if isinstance(container, SVal):
            from . import heapmodels
            if heapmodels.is_ref(self, p, container.t):
                return heapmodels.dyn_contains(self, p, container, x)
        raise Unsupported(f'in {container!r}')

    def e_Attribute(self, p, e, fr):
        out = []
        for q, base in self.ev(p, e.value, fr):
            if not q.live:
                out.append((q, None)); continue
            out.append((q, self.get_attr(q, base, e.attr)))
        return out

    def get_attr(self, p, base, attr):
        if isinstance(base, EventV):
            if attr in base.vals: return base.vals[attr]
            if attr in ('_replace',): return Bound(base, attr)
            raise Unsupported(f'event attr {attr}')
        if isinstance(base, Host):
            if base.kind == 'module':
                return self.world.lift(getattr(base.obj, attr))
            return self.world.host_attr(self, p, base, attr)
        if isinstance(base, Ref):
            c = p.heap[base.oid]
            if c[0] == 'obj':
                if attr in c[1]: return c[1][attr]
                m = self.world.class_method(c[2], attr) if len(c) > 2 else None
                if m is not None: return Partial(m, [base], {})
                raise Unsupported(f'object attribute {attr}')
            return Bound(base, attr)
        if isinstance(base, (SStr, str, SBytes, bytes, SSeq, SVal, tuple, SInt, int, Sentinel, SReal, float)):
            return Bound(base, attr)
        if isinstance(base, ExcV):
            return Bound(base, attr)
        if isinstance(base, PyType):
            return Host('builtin', name=f'builtins.{base.name}.{attr}')
        raise Unsupported(f'attribute {attr} of {base!r}')

    def store_attr(self, p, base, attr, v):
        if isinstance(base, Ref) and p.heap[base.oid][0] == 'obj':
            c = p.heap[base.oid]
            d = dict(c[1]); d[attr] = v
            p.heap[base.oid] = ('obj', d) + tuple(c[2:])
            return
        raise Unsupported(f'store attribute {attr} on {base!r}')

    def ev_slice(self, p, sl, fr):
        if isinstance(sl, ast.Slice):
            parts = [sl.lower, sl.upper, sl.step]
            acc = [(p, [])]
            for part in parts:
                nxt = []
                for q, vs in acc:
                    if part is None: nxt.append((q, vs + [None]))
                    else:
                        for q2, v in self.ev(q, part, fr): nxt.append((q2, vs + [v]))
                acc = nxt
            return [(q, ('slice', vs[0], vs[1], vs[2])) for q, vs in acc]
        return self.ev(p, sl, fr)

    def e_Subscript(self, p, e, fr):
        out = []
        for q, base in self.ev(p, e.value, fr):
            for q2, idx in self.ev_slice(q, e.slice, fr):
                if not q2.live:
                    out.append((q2, None)); continue
                out.append((q2, self.load_subscript(q2, base, idx)))
        return out

    def load_subscript(self, p, base, idx):
        if isinstance(idx, tuple) and idx and idx[0] == 'slice':
            return self.world.slice_of(self, p, base, idx)
        if isinstance(base, tuple):
            if isinstance(idx, int): return base[idx]
            raise Unsupported('symbolic index into python tuple')
        if isinstance(base, SKey):
            if idx == 0: return SInt(Key.h(base.t))
            if idx == 1:
                self.oblige(p, 'key.tail', Key.is_KK(Key.t(base.t)), 'type'); return SKey(Key.t(base.t))
            raise Unsupported('key index')
        if isinstance(base, SVal):
            from . import heapmodels
            if heapmodels.is_ref(self, p, base.t):
                return heapmodels.dyn_getitem(self, p, base, idx)
            if isinstance(idx, int) and idx >= 0:
                t = base.t
                for k in range(idx):
                    self.oblige(p, f'type.tuple.len', V.is_VCons(t), 'type'); t = V.tl(t)
                self.oblige(p, f'type.tuple.index{idx}', V.is_VCons(t), 'type')
                return self.from_val(V.hd(t))
            raise Unsupported('dynamic subscript')
        if isinstance(base, Ref) or (isinstance(base, Host) and base.kind == 'dictview'):
            return self.world.heap_getitem(self, p, base, idx)
        if isinstance(base, (SStr, SBytes, SSeq)):
            return self.world.seq_getitem(self, p, base, idx)
        raise Unsupported(f'subscript of {base!r}')

    def store_subscript(self, p, base, idx, v):
        if isinstance(base, Ref) or (isinstance(base, Host) and base.kind == 'dictview'):
            return self.world.heap_setitem(self, p, base, idx, v)
        raise Unsupported(f'subscript store on {base!r}')

    def e_ListComp(self, p, e, fr):
        if len(e.generators) != 1 or e.generators[0].ifs or e.generators[0].is_async:
            raise Unsupported('list comprehension shape')
        g = e.generators[0]
        out = []
        for q, itv in self.ev(p, g.iter, fr):
            items = self.concrete_items(q, itv)
            if items is None:
                r = self.world.symbolic_comprehension(self, q, e, itv, fr)
                out.append((q, r)); continue
            sc = Scope(fr.scope)
            fr2 = Frame(sc, fr.module, fr.qual, fr.loop_ordinals)
            paths = [(q, [])]
            for it in items:
                nxt = []
                for q1, acc in paths:
                    for q2 in self.assign(q1, g.target, it, fr2):
                        for q3, v in self.ev(q2, e.elt, fr2):
                            nxt.append((q3, acc + [v]))
                paths = nxt
            for q1, acc in paths:
                out.append((q1, self.new_list(q1, acc)))
        return out

    def e_Yield(self, p, e, fr):
        out = []
        for q, v in (self.ev(p, e.value, fr) if e.value is not None else [(p, None)]):
            if q.live:
                ys = q.ghost['yields']
                q.ghost['yields'] = ys[:-1] + (Concat(ys[-1], Unit(self.to_val(q, v))),)
            out.append((q, None))
        return out

    def e_Call(self, p, e, fr):
        if self.is_dropped_call(e):
            return [(p, None)]
        out = []
        for q, f in self.ev(p, e.func, fr):
            if not q.live:
                out.append((q, None)); continue
            for q2, args in self.ev_many(q, e.args, fr):
                kwp = [(q2, {})]
                for kw in e.keywords:
                    if kw.arg is None:
                        raise Unsupported('**kwargs call')
                    nxt = []
                    for q3, kws in kwp:
                        if not q3.live:
                            nxt.append((q3, kws)); continue
                        for q4, v in self.ev(q3, kw.value, fr):
                            nxt.append((q4, {**kws, kw.arg: v}))
                    kwp = nxt
                for q3, kws in kwp:
                    if not q3.live:
                        out.append((q3, None)); continue
                    out.extend(self.call(q3, f, args, kws, e))
        return out

    # ------------------------------------------------------------------ calls
    def call(self, p, f, args, kws, node=None):
        if isinstance(f, Partial):
            return self.call(p, f.fn, f.args + list(args), {**f.kws, **kws}, node)
        if isinstance(f, Closure):
            if f.qual in self.callee_contracts:
                return self.callee_contracts[f.qual](self, p, f, args, kws)
            return self.call_closure(p, f, args, kws)
        if isinstance(f, UserFn):
            return self.call_user(p, f, args, kws)
        if isinstance(f, EvClass):
            vals = {}
            for n, a in zip(f.fields, args): vals[n] = a
            vals.update(kws)
            for n in f.fields:
                vals.setdefault(n, None)
            return [(p, EventV(f.kind, f.fields, vals))]
        if isinstance(f, Bound):
            return self.world.call_bound(self, p, f, args, kws)
        if isinstance(f, Host):
            return self.world.call_host(self, p, f, args, kws)
        if isinstance(f, PyType):
            return self.world.call_type(self, p, f, args, kws)
        raise Unsupported(f'call of {f!r}')

    def call_closure(self, p, f, args, kws):
        node = f.node
        a = node.args
        if a.posonlyargs:
            raise Unsupported('positional-only args')
        names = [x.arg for x in a.args]
        sc = Scope(f.scope)
        binding = {}
        args = list(args)
        if len(args) > len(names) and a.vararg is None:
            raise Unsupported(f'too many arguments for {f.qual}')
        for n, v in zip(names, args):
            binding[n] = v
        if a.vararg is not None:
            binding[a.vararg.arg] = tuple(args[len(names):])
        defaults = getattr(f, 'defaults', [])
        for n, d in zip(names[len(names) - len(defaults):], defaults):
            binding.setdefault(n, d) if n not in binding else None
        kwonly = [x.arg for x in a.kwonlyargs]
        for k, v in kws.items():
            if k in binding and k in names[:len(args)]:
                raise Unsupported('duplicate argument')
            if k not in names and k not in kwonly:
                raise Unsupported(f'unexpected keyword {k} for {f.qual}')
            binding[k] = v
        for k in kwonly:
            if k not in binding:
                kd = getattr(f, 'kwdefaults', {})
                if k in kd: binding[k] = kd[k]
                else: raise Unsupported(f'missing kw-only {k}')
        for n in names:
            if n not in binding:
                raise Unsupported(f'missing argument {n} for {f.qual}')
        for n, v in binding.items():
            p.cells[sc.declare(n)] = v
        fr = Frame(sc, f.module, f.qual, loop_ordinals(node))
        if isinstance(node, ast.Lambda):
            out = []
            for q, v in self.ev(p, node.body, fr):
                out.append((q, v))
            return out
        # declare locals
        for n in local_names(node):
            sc.declare(n)
        is_gen = has_yield(node)
        if is_gen:
            p.ghost['yields'] = p.ghost.get('yields', ()) + (Empty(ValSeq),)
        self.current_fn.append(f.qual)
        try:
            res = self.run_block([p], node.body, fr)
        finally:
            self.current_fn.pop()
        out = []
        for q in res:
            if is_gen:
                ys = q.ghost['yields']
                q.ghost['yields'] = ys[:-1]
                q.ret = None; q.returned = False
                if q.exc is None:
                    out.append((q, Host('seqiter', seq=ys[-1], ek='val')))
                else:
                    out.append((q, None))
                continue
            if q.returned:
                v = q.ret; q.ret = None; q.returned = False
                out.append((q, v))
            elif q.exc is not None:
                out.append((q, None))
            else:
                out.append((q, None))
        return out

    def call_user(self, p, f, args, kws):
        """A5: uninterpreted deterministic callback that may raise"""
        if kws:
            raise Unsupported('keyword call of user function')
        targs = [self.to_val(p, a) for a in args]
        if f.ret == 'fresh':
            # factory returning a new object on every call (e.g. seed=list): result indexed by a call counter
            k = p.ghost.get('n_fresh_' + f.name, 0); p.ghost['n_fresh_' + f.name] = k + 1
            res = Function(f'fresh_{f.name}', IntSort(), Val)(IntVal(k))
            p.calls.append((f.name, tuple(targs)))
            p.pc.append(Not(V.is_VSent(res)))
            return [(p, SVal(res))]
        fn = Function(f'u_{f.name}', *([Val] * len(targs)), Val)
        rz = Function(f'raises_{f.name}', *([Val] * len(targs)), BoolSort())
        p.calls.append((f.name, tuple(targs)))
        out = []
        q = p.fork()
        q.pc.append(rz(*targs))
        if self.feasible(q.pc):
            ex = ExcV('UserError', (), origin=f.name, term=Function(f'exc_{f.name}', *([Val] * len(targs)), Val)(*targs))
            q.exc = ex
            q.calls[-1] = (f.name, tuple(targs), 'raised')
            out.append((q, None))
        p.pc.append(Not(rz(*targs)))
        res = fn(*targs)
        p.pc.append(Not(V.is_VSent(res)))           # A5: user functions never return rxsci sentinels
        if f.ret == 'bool':
            p.pc.append(V.is_VBool(res)); rv = SBool(V.b(res))
        elif f.ret == 'int':
            p.pc.append(V.is_VInt(res)); rv = SInt(V.i(res))
        elif f.ret == 'real':
            p.pc.append(V.is_VReal(res)); rv = SReal(V.r(res))
        else:
            rv = SVal(res)
        if self.feasible(p.pc):
            out.append((p, rv))
        return out


class Frame:
    def __init__(self, scope, module, qual, loop_ordinals):
        self.scope = scope; self.module = module; self.qual = qual; self.loop_ordinals = loop_ordinals


def _as_load(t):
    import copy
    t2 = copy.deepcopy(t)
    for n in ast.walk(t2):
        if hasattr(n, 'ctx'):
            n.ctx = ast.Load()
    return t2


def dotted(e):
    parts = []
    while isinstance(e, ast.Attribute):
        parts.append(e.attr); e = e.value
    if isinstance(e, ast.Name):
        parts.append(e.id); return '.'.join(reversed(parts))
    return None


def has_yield(fn_node):
    def walk(n):
        for c in ast.iter_child_nodes(n):
            if isinstance(c, (ast.FunctionDef, ast.Lambda, ast.AsyncFunctionDef)):
                continue
            if isinstance(c, (ast.Yield, ast.YieldFrom)):
                return True
            if walk(c):
                return True
        return False
    return not isinstance(fn_node, ast.Lambda) and walk(fn_node)


def loop_ordinals(fn_node):
    """ordinal of each for/while loop directly inside fn (not inside nested defs), in source order"""
    out = {}
    k = 0

    def walk(n):
        nonlocal k
        for c in ast.iter_child_nodes(n):
            if isinstance(c, (ast.FunctionDef, ast.Lambda, ast.AsyncFunctionDef)):
                continue
            if isinstance(c, (ast.For, ast.While)):
                out[id(c)] = k; k += 1
            walk(c)
    walk(fn_node)
    return out


def local_names(fn_node):
    """names assigned in fn (excluding nonlocal/global declared and nested function bodies)"""
    nl = set()
    names = []

    def walk(n):
        for c in ast.iter_child_nodes(n):
            if isinstance(c, (ast.Nonlocal, ast.Global)):
                nl.update(c.names)
            if isinstance(c, (ast.FunctionDef, ast.AsyncFunctionDef)):
                names.append(c.name); continue
            if isinstance(c, ast.Lambda):
                continue
            if isinstance(c, ast.Name) and isinstance(c.ctx, ast.Store):
                names.append(c.id)
            if isinstance(c, ast.ExceptHandler) and c.name:
                names.append(c.name)
            if isinstance(c, (ast.ListComp, ast.GeneratorExp, ast.SetComp, ast.DictComp)):
                continue
            walk(c)
    walk(fn_node)
    return [n for n in dict.fromkeys(names) if n not in nl]


_QCACHE = {}


def _has_quantifier(e):
    k = e.get_id()
    if k in _QCACHE:
        return _QCACHE[k]
    seen = set(); stack = [e]; r = False
    while stack:
        t = stack.pop()
        if t.get_id() in seen:
            continue
        seen.add(t.get_id())
        if z3.is_quantifier(t):
            r = True; break
        stack.extend(t.children())
    _QCACHE[k] = r
    return r
