"""Handler-level *contract* of the state store (StoreManager -> Store -> MemoryStore).

This is the contract every operator handler is verified against; the contract itself is discharged on the real
MemoryStore / Store / StoreManager / StateTopology code by the C14 checks (rxv/contracts/c14_store.py).

Abstract view per state id: index -> (marker, value), marker in {0 NOTSET, 1 SET, 2 ABSENT (cleared / never added)}.

  add_key(s, k)       requires k[0] >= 0
                      slot'(k[0]) = NOTSET | (SET, default) | (SET, fresh empty map);   every other slot unchanged
  get_state(s, k)     requires slot(k[0]) present;  returns STATE_NOTSET if NOTSET else the typed read-back of the value
  set_state(s, k, v)  requires slot(k[0]) present and v storable in the declared type;  slot' = (SET, typed v); frame
  del_key(s, k)       requires slot(k[0]) present;  slot' = ABSENT; frame
  get_map / add_map / del_map / iterate_map:  see below (group_by)
"""
import z3
from z3 import (And, Or, Not, Implies, If, IntVal, BoolVal, RealVal, Store, Select, K, Const, Function, IntSort, BoolSort,
                ArraySort, Concat, Unit, Length, Empty, ToReal, simplify)
from .sorts import *
from .values import *
from .engine import Unsupported, fresh

fits_dyn = Function('fits_seed_type', Val, BoolSort())     # "value has the type of the scan seed" (C01 precondition)


def dtype_name(d):
    if isinstance(d, PyType): return d.name
    if isinstance(d, str): return d
    if isinstance(d, SType): return 'dyn'
    raise Unsupported(f'state data_type {d!r}')


def topology_call(eng, p, o, name, args, kws):
    if name in ('create_state', 'create_mapper'):
        names = ['name', 'data_type', 'default_value']
        d = dict(zip(names, args)); d.update(kws)
        if name == 'create_mapper':
            d['data_type'] = 'mapper'
        ordn = len(p.ghost.get('states', []))
        st = StateRef(ordn, dtype_name(d['data_type']), d.get('default_value'), d.get('name'))
        p.ghost['states'] = p.ghost.get('states', []) + [st]
        return [(p, st)]
    raise Unsupported(f'topology.{name}')


def state_of(eng, p, s):
    if not isinstance(s, StateRef):
        eng.oblige(p, 'store.state_id', BoolVal(False), 'type')
        raise Unsupported(f'state argument is not a state id: {s!r}')
    return s


def typed_write(eng, p, st, v):
    """-> Val term stored; obligations that the value fits the typed array (A2)"""
    d = st.dtype
    if d in ('int', 'uint'):
        t = eng.to_int(p, v, 'store.int') if not isinstance(v, SVal) else None
        if t is None:
            eng.oblige(p, f'store.typed.int', V.is_VInt(v.t), 'type'); t = V.i(v.t)
        if d == 'uint':
            eng.oblige(p, 'store.typed.uint.nonneg', t >= 0, 'type')
        return V.VInt(t)
    if d == 'bool':
        if isinstance(v, bool): return V.VBool(BoolVal(v))
        if isinstance(v, SBool): return V.VBool(v.t)
        if isinstance(v, (int, SInt)):
            t = eng.to_int(p, v); eng.oblige(p, 'store.typed.bool.range', And(t >= 0, t <= 255), 'type'); return V.VBool(t != 0)
        if isinstance(v, SVal):
            eng.oblige(p, 'store.typed.bool', Or(V.is_VBool(v.t), And(V.is_VInt(v.t), V.i(v.t) >= 0, V.i(v.t) <= 255)), 'type')
            return V.VBool(truthy(v.t))
        eng.oblige(p, 'store.typed.bool', BoolVal(False), 'type'); return V.VBool(BoolVal(False))
    if d == 'float':
        return V.VReal(eng.to_real(p, v))
    if d == 'dyn':
        t = eng.to_val(p, v)
        eng.oblige(p, 'store.typed.seed_type', fits_dyn(t), 'type')
        return t
    if isinstance(v, Ref) and v.oid not in p.ghost.get('escaped', ()):
        from .heapmodels import export_ref
        export_ref(eng, p, v)
    return eng.to_val(p, v)


def arrays(p, st):
    o = st.ord
    if o not in p.store.marker:
        raise Unsupported(f'state #{o} has no pre-state arrays')
    return p.store.marker[o], p.store.value[o]


def store_call(eng, p, o, name, args, kws):
    if kws:
        raise Unsupported('store call with keywords')
    if name in ('add_key', 'del_key', 'get_state', 'set_state'):
        st = state_of(eng, p, args[0])
        k = eng.to_key(p, args[1])
        idx = Key.h(k)
        m, v = arrays(p, st)
        if name == 'add_key':
            eng.oblige(p, 'store.add_key.index_nonneg', idx >= 0, 'pre')
            if st.dtype == 'mapper':
                from .mapmodel import fresh_map
                p.store.marker[st.ord] = Store(m, idx, M_SET)
                fresh_map(eng, p, st, idx)
            elif st.default is not None:
                p.store.marker[st.ord] = Store(m, idx, M_SET)
                p.store.value[st.ord] = Store(v, idx, typed_write(eng, p, st, st.default))
            else:
                p.store.marker[st.ord] = Store(m, idx, M_NOTSET)
            p.ghost.setdefault('store_ops', []).append(('add_key', st.ord, idx))
            return [(p, None)]
        present = Or(Select(m, idx) == M_NOTSET, Select(m, idx) == M_SET)
        eng.oblige(p, f'store.{name}.slot_present', present, 'pre')
        p.ghost.setdefault('store_ops', []).append((name, st.ord, idx))
        if name == 'del_key':
            p.store.marker[st.ord] = Store(m, idx, M_ABSENT)
            return [(p, None)]
        if name == 'get_state':
            val = Select(v, idx)
            isnot = Select(m, idx) == M_NOTSET
            # typed read-back
            if st.dtype in ('int', 'uint', 'bool', 'float'):
                q = p.fork()
                q.pc.append(isnot)
                p.pc.append(Not(isnot))
                out = []
                if eng.feasible(q.pc): out.append((q, Sentinel(SENT_NOTSET)))
                if eng.feasible(p.pc):
                    if st.dtype in ('int', 'uint'): rv = SInt(V.i(val))
                    elif st.dtype == 'bool': rv = SBool(V.b(val))
                    else: rv = SReal(V.r(val))
                    out.append((p, rv))
                return out
            return [(p, SVal(If(isnot, V.VSent(IntVal(SENT_NOTSET)), val)))]
        if name == 'set_state':
            if len(args) != 3: raise Unsupported('set_state arity')
            t = typed_write(eng, p, st, args[2])
            p.store.marker[st.ord] = Store(m, idx, M_SET)
            p.store.value[st.ord] = Store(v, idx, t)
            return [(p, None)]
    if name == 'set_topology':
        p.calls.append(('store.set_topology', (eng.to_val(p, args[0]),)))
        return [(p, None)]
    if name in ('get_map', 'add_map', 'del_map', 'iterate_map'):
        from . import mapmodel
        return mapmodel.map_call(eng, p, o, name, args, kws)
    raise Unsupported(f'store.{name}')
