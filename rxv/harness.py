"""Builds an operator by *symbolically executing its real factory* and verifies its handlers case by case.

Location is by role (DESIGN 3.1): the handler under contract is whatever the operator passes as `on_next` /
`on_completed` / `on_error` to `source.subscribe(...)`, found by running
    factory(*params) -> operator(source) -> MuxObservable(subscribe) -> subscribe(observer, scheduler).
"""
import time
import traceback
import z3
from z3 import (And, Or, Not, Implies, If, IntVal, BoolVal, Const, Concat, Unit, Select, Store, Array, IntSort, BoolSort,
                simplify, Empty, is_true)
from .sorts import *
from .values import *
from .engine import Engine, Path, Unsupported, Obligation, fresh, Scope
from .world import World, TRUSTED_USED
from . import solve

EVENT_CASES = ('Create', 'Next', 'Completed', 'Error', 'Other')


class Ctx:
    """what a contract clause can talk about for one (configuration, case)"""

    def __init__(self, eng, world, contract, cfg, case):
        self.eng = eng; self.world = world; self.contract = contract; self.cfg = cfg; self.case = case
        self.params = cfg.get('symbols', {})
        self.states = []
        self.m0 = {}; self.v0 = {}
        self.trace0 = None
        self.k = None; self.x = None; self.err = None
        self.store_host = None
        self.observer = None
        self.extra = {}
        self.pid = None

    @property
    def k0(self):
        return Key.h(self.k)

    def st(self, name_or_ord):
        if isinstance(name_or_ord, int):
            return self.states[name_or_ord]
        return self.named_states[name_or_ord]

    # ---- clause helpers
    def emits(self, q, *ems):
        if not ems:
            return q.trace == self.trace0
        return q.trace == Concat(self.trace0, *[Unit(e) for e in ems])

    def emits_seq(self, q, *parts):
        """parts: Em terms or z3 Seq(Em) terms"""
        ps = [Unit(x) if x.sort() == Em else x for x in parts]
        if not ps:
            return q.trace == self.trace0
        return q.trace == Concat(self.trace0, *ps)

    def out(self, ev): return em(OUT, ev)
    def outer(self, ev): return em(OUTER, ev)

    def slot0(self, st, idx=None):
        idx = self.k0 if idx is None else idx
        return Select(self.m0[st.ord], idx), Select(self.v0[st.ord], idx)

    def slot(self, q, st, idx=None):
        idx = self.k0 if idx is None else idx
        return Select(q.store.marker[st.ord], idx), Select(q.store.value[st.ord], idx)

    def frame(self, q, st, *idxs):
        """no slot of this state other than idxs changed (whole-view frame condition)"""
        m, v = self.m0[st.ord], self.v0[st.ord]
        for i in idxs:
            m = Store(m, i, Select(q.store.marker[st.ord], i))
            v = Store(v, i, Select(q.store.value[st.ord], i))
        return And(q.store.marker[st.ord] == m, q.store.value[st.ord] == v)

    def slot_is(self, q, st, marker, value=None, idx=None):
        m, v = self.slot(q, st, idx)
        if value is None:
            return m == marker
        return And(m == marker, v == value)

    def calls(self, q):
        return q.calls

    def calls_are(self, q, expected):
        """expected: list of (fname, [arg terms]) ; compares the concrete call log of the path"""
        got = [c for c in q.calls]
        if len(got) != len(expected):
            return BoolVal(False)
        cs = []
        for g, e in zip(got, expected):
            if g[0] != e[0] or len(g[1]) != len(e[1]):
                return BoolVal(False)
            if g[0] == 'deepcopy':
                cs.append(self.eng.to_val(q, g[1][0]) == e[1][0])
                continue
            for a, b in zip(g[1], e[1]):
                cs.append(a == b)
        return And(*cs) if cs else BoolVal(True)

    def stores_forwarded(self, q):
        ok = all(s is self.store_host for (_, s) in q.ghost.get('stores_emitted', []))
        return BoolVal(ok)


class Report:
    def __init__(self, name):
        self.name = name
        self.obligations = []
        self.undecided = []          # (where, reason)
        self.functions = []          # dicts: qual, file, line, hash
        self.paths = 0
        self.symexec_s = 0.0
        self.solve_s = 0.0
        self.notes = []
        self.covers = []

    def ok(self):
        return all(o.result == 'proved' for o in self.obligations) and not self.undecided


def fn_info(world, clo):
    import hashlib
    mi = world.module(clo.module)
    seg = ast_segment(mi, clo.node)
    return {'qual': clo.qual, 'file': mi.path, 'line': clo.node.lineno,
            'sha1': hashlib.sha1(seg.encode()).hexdigest()[:12]}


def ast_segment(mi, node):
    import ast
    try:
        return ast.unparse(node)
    except Exception:
        return ''


class OperatorRun:
    """verify one mux operator contract (all configurations, all cases)"""

    def __init__(self, world, contract, timeout_ms=10000, property_id='C??'):
        self.world = world; self.contract = contract; self.timeout = timeout_ms; self.pid = property_id
        self.report = Report(contract.name)
        self.pending_lemma_obs = []

    def new_engine(self, where):
        eng = Engine(self.world)
        eng.where = where
        eng.loop_contracts = dict(getattr(self.contract, 'loop_contracts', {}) or {})
        eng.arith_hook = getattr(self.contract, 'arith_hook', None)
        return eng

    def build(self, eng, cfg):
        """-> list of (path, handlers dict, outer subject host or None, observer, source)"""
        c = self.contract
        p = Path()
        p.trace = Const('trace_build', Trace)
        f = self.world.closure_of(c.module, c.factory)
        self.report.functions.append(fn_info(self.world, f))
        p.pc.extend(cfg.get('assume', []))
        eng.prune_hyps = list(cfg.get('assume', []))
        if hasattr(c, 'make_operator'):
            res = c.make_operator(eng, p, f, cfg)
        else:
            res = eng.call(p, f, list(cfg.get('args', [])), dict(cfg.get('kws', {})))
        built = []
        for q, op in res:
            if q.exc is not None:
                built.append((q, None, None, None, None)); continue
            outer = None
            if isinstance(op, tuple):
                op, outer = op
            if isinstance(op, Host) and op.kind == 'pipe':
                raise Unsupported('factory returned a pipe (use PipeRun)')
            src = Host('source', is_mux=getattr(c, 'source_is_mux', True), name='source')
            for q2, obs in eng.call(q, op, [src], {}):
                if not isinstance(obs, Host) or obs.kind not in ('muxobservable', 'observable'):
                    raise Unsupported(f'operator returned {obs!r}')
                q2.ghost['result_kind'] = obs.kind
                observer = Host('observer', chan=OUT, name='observer')
                sched = Host('opaque', name='scheduler')
                t0 = q2.trace
                for q3, _ in eng.call(q2, obs.subscribe, [observer, sched], {}):
                    subs = [d for (o, d) in q3.ghost.get('subs', []) if o is src]
                    if len(subs) != 1:
                        raise Unsupported(f'operator subscribed {len(subs)} times to its source')
                    q3.ghost['subscribe_trace'] = (t0, q3.trace)
                    built.append((q3, subs[0], outer, observer, src))
        return built

    def run(self):
        c = self.contract
        t0 = time.time()
        for cfg in c.configs():
            where0 = f'{self.pid}/{c.name}[{cfg["name"]}]'
            try:
                self.run_cfg(cfg, where0)
            except Unsupported as u:
                self.report.undecided.append((where0, f'outside the verified subset: {u}'))
            except Exception as ex:  # checker bug: undecided, never a violation
                self.report.undecided.append((where0, f'checker error: {type(ex).__name__}: {ex}\n{traceback.format_exc(limit=6)}'))
        self.report.symexec_s = time.time() - t0
        seen = {}
        for ob in self.report.obligations:      # same loop reached on several paths: make the names unique
            k = seen.get(ob.name, 0); seen[ob.name] = k + 1
            if k:
                ob.name = f'{ob.name}#{k}'
        return self.report

    def run_cfg(self, cfg, where0):
        c = self.contract
        eng = self.new_engine(where0 + '/build')
        eng.arith_hook = None          # the factory itself runs on the real operators (R5 abstracts handlers only)
        built = self.build(eng, cfg)
        self.report.obligations.extend(eng.obligations); eng.obligations = []
        for bi, (pb, handlers, outer, observer, src) in enumerate(built):
            if handlers is None:
                # factory raised: contract may say when that is expected
                chk = getattr(c, 'factory_raises', None)
                if chk is None:
                    self.add_ob(eng, where0 + '/build/no_exception', pb.pc, BoolVal(False), pb)
                else:
                    self.add_ob(eng, where0 + '/build/raises_only_when_allowed', pb.pc, chk(cfg, pb), pb)
                continue
            bwhere = where0 + (f'/b{bi}' if len(built) > 1 else '')
            if outer is not None:
                outer.chan = OUTER
            if hasattr(c, 'accept_build') and not c.accept_build(pb, handlers):
                continue
            if hasattr(c, 'post_build'):
                for name, hyps, goal in c.post_build(eng, pb, handlers, cfg):
                    ob = Obligation(f'{bwhere}/{name}', list(hyps), goal, 'lemma', bwhere, path=pb)
                    self.report.obligations.append(ob)
            # wiring obligations
            self.check_wiring(eng, bwhere, cfg, pb, handlers, observer)
            on_next = handlers.get('on_next')
            if on_next is None:
                self.add_ob(eng, bwhere + '/wiring/on_next.present', pb.pc, BoolVal(False), pb); continue
            if isinstance(on_next, Closure):
                self.report.functions.append(fn_info(self.world, on_next))
            # --- Probe case first (assigns the state ids)
            topo = Host('topology', name='topology')
            store = Host('store', name='store')
            pp = pb.fork()
            pp.trace = Const('trace0', Trace)
            ctx = Ctx(eng, self.world, c, cfg, 'Probe'); ctx.trace0 = pp.trace; ctx.store_host = store; ctx.observer = observer
            ctx.outer = outer
            eng.where = bwhere + '/Probe'
            eng.base_hyps = list(pb.pc); eng.prune_hyps = list(pb.pc)
            ev = EventV('Probe', self.world.event_fields['Probe'], {'topology': topo})
            if getattr(c, 'has_probe', True):
                res = eng.call(pp, on_next, [ev], {})
                self.report.paths += len(res)
                if len(res) != 1:
                    raise Unsupported('Probe case forks')
                pprobe = res[0][0]
                self.probe_changed = {cid for cid, v in pprobe.cells.items() if pb.cells.get(cid, None) is not v}
                states = list(pprobe.ghost.get('states', []))
                ctx.states = states
                for name, goal in c.ensures_probe(ctx, pprobe):
                    self.add_ob(eng, f'{bwhere}/Probe/ensures.{name}', pprobe.pc, goal, pprobe)
            else:
                pprobe = pp; states = []; self.probe_changed = set()
            self.report.obligations.extend(eng.obligations); eng.obligations = []
            self.pending_lemma_obs = []
            # --- the event cases
            for case in getattr(c, 'cases', EVENT_CASES):
                self.run_case(cfg, bwhere, case, pprobe, on_next, states, store, observer, outer)
            # --- completion / error handlers of the plain observable protocol
            for hname in ('on_completed', 'on_error'):
                h = handlers.get(hname)
                self.run_terminal(cfg, bwhere, hname, h, pprobe, states, store, observer, outer)

    def add_ob(self, eng, name, hyps, goal, path, kind='ensures', opts=None):
        opts = opts or {}
        hyps = list(hyps) + list(opts.get('defs', []))
        hints = list(opts.get('hints', []))
        # forall-elimination done syntactically: (quantified formula, instance) -- accepted without a solver call when the
        # quantified formula is literally one of the hypotheses and the instance is its body at the given terms
        for (qf, terms) in opts.get('pc_instances', []):
            inst = z3.substitute_vars(qf.body(), *reversed(terms))
            if any(qf.eq(x) for x in list(hyps) + list(eng.base_hyps)):
                hyps = hyps + [inst]
            else:
                hints = [inst] + hints
        for hi, h in enumerate(hints):
            self.add_ob(eng, f'{name}.hint{hi}', hyps, h, path, kind, {'lemmas': opts.get('hint_lemmas'), 'lemma_instances': opts.get('hint_lemma_instances')})
        if hints:
            hyps = list(hyps) + hints
        if z3.is_expr(goal) and is_true(simplify(goal)):
            # still counts as an obligation (discharged by simplification)
            ob = Obligation(name, list(eng.base_hyps) + list(hyps), BoolVal(True), kind, name, path=path); ob.result = 'proved'; ob.backend = 'simplify'
            self.report.obligations.append(ob); return
        ob = Obligation(name, list(eng.base_hyps) + list(hyps), goal, kind, name, path=path)
        ob.extra['lemmas'] = opts.get('lemmas')
        ob.extra['lemma_instances'] = opts.get('lemma_instances')
        ob.extra['with_lemmas'] = True
        self.pending_lemma_obs.append(ob)
        self.report.obligations.append(ob)

    def check_wiring(self, eng, where, cfg, pb, handlers, observer):
        c = self.contract
        exp = getattr(c, 'wiring', {'on_completed': 'forward', 'on_error': 'forward'})
        for hname, mode in exp.items():
            h = handlers.get(hname)
            if mode == 'forward':
                ok = isinstance(h, Bound) and h.obj is observer and h.name == hname
                if not ok and isinstance(h, Closure):
                    continue     # a closure: verified by run_terminal against the same spec
                self.add_ob(eng, f'{where}/wiring/{hname}.forwarded', pb.pc, BoolVal(ok), pb)
        t0, t1 = pb.ghost['subscribe_trace']
        exp_sub = getattr(c, 'subscribe_emits', None)
        if exp_sub is None:
            self.add_ob(eng, f'{where}/wiring/subscribe.emits_nothing', pb.pc, t1 == t0, pb)
        else:
            self.add_ob(eng, f'{where}/wiring/subscribe.emits', pb.pc, t1 == Concat(t0, *[Unit(e) for e in exp_sub(cfg)]), pb)

    def fresh_prestate(self, q, states, tag=''):
        m0, v0 = {}, {}
        for st in states:
            m0[st.ord] = Array(f'm{st.ord}{tag}', IntSort(), IntSort())
            v0[st.ord] = Array(f'v{st.ord}{tag}', IntSort(), Val)
            q.store.marker[st.ord] = m0[st.ord]; q.store.value[st.ord] = v0[st.ord]
            if st.dtype == 'mapper':
                from .mapmodel import init_map_prestate
                init_map_prestate(q, st, tag)
        return m0, v0

    def run_case(self, cfg, bwhere, case, pprobe, on_next, states, store, observer, outer):
        c = self.contract
        eng = self.new_engine(f'{bwhere}/{case}')
        q = pprobe.fork()
        q.trace = Const('trace0', Trace); q.calls = []; q.ghost = dict(q.ghost); q.ghost['stores_emitted'] = []
        q.ghost['store_ops'] = []
        ctx = Ctx(eng, self.world, c, cfg, case); ctx.pid = self.pid
        ctx.trace0 = q.trace; ctx.store_host = store; ctx.states = states; ctx.observer = observer; ctx.outer = outer
        ctx.m0, ctx.v0 = self.fresh_prestate(q, states)
        ctx.maps0 = {k[1]: v for k, v in q.store.extra.items() if isinstance(k, tuple) and k[0] == 'map'}
        # state kept OUTSIDE the store: nonlocal variables the handler assigns (other than the state ids assigned by the Probe case)
        # persist from one call to the next, so their value at the start of a call is arbitrary unless the contract constrains it
        # (`closure_state_ok`).  Anything refuted under such a havoc is only a candidate (needs an end-to-end confirmation).
        ctx.closure_havoc = self.havoc_closure_state(q, on_next, getattr(self, 'probe_changed', set()), c)
        if hasattr(c, 'prestate'):
            c.prestate(ctx, q)
        ctx.k = Const('k', Key); ctx.x = Const('x', Val); ctx.err = Const('err', Val)
        import itertools as _it
        ctx.oid_start = next(eng.oid) + 1000; eng.oid = _it.count(ctx.oid_start)
        F = self.world.event_fields
        if case == 'Create': ev = EventV('Create', F['Create'], {'key': SKey(ctx.k), 'store': store})
        elif case == 'Next': ev = EventV('Next', F['Next'], {'key': SKey(ctx.k), 'item': self.item_value(ctx), 'store': store})
        elif case == 'Completed': ev = EventV('Completed', F['Completed'], {'key': SKey(ctx.k), 'store': store})
        elif case == 'Error': ev = EventV('Error', F['Error'], {'key': SKey(ctx.k), 'error': SVal(ctx.err), 'store': store})
        elif case == 'Item':
            ev = self.item_value(ctx)
        elif case == 'Probe':
            ev = EventV('Probe', F['Probe'], {'topology': Host('topology', name='topology2')})
        else:
            ev = Host('foreign', name='foreign_item'); ctx.foreign = ev
        req = list(c.requires(ctx))
        req_qf = [r for r in req if not has_quantifier(r)]
        base = ([] if getattr(c, 'drop_build_pc', False) else list(pprobe.pc)) + [Key.is_KK(ctx.k), Not(V.is_VSent(ctx.x))]
        eng.base_hyps = base + req
        eng.prune_hyps = base + req_qf
        q.pc = []
        # vacuity guard: the case's requires must be satisfiable
        s = z3.Solver(); s.set('timeout', 5000); s.add(*eng.prune_hyps)
        sat_r = s.check()
        self.report.covers.append((f'{bwhere}/{case}/requires.satisfiable', str(sat_r)))
        if sat_r == z3.unsat:
            self.report.undecided.append((f'{bwhere}/{case}', 'requires is unsatisfiable (vacuous contract)'))
            return
        try:
            res = eng.call(q, on_next, [ev], {})
        except Unsupported as u:
            self.report.undecided.append((f'{bwhere}/{case}', f'outside the verified subset: {u}'))
            for ob in eng.obligations:
                ob.hyps = list(eng.base_hyps) + ob.hyps
                self.pending_lemma_obs.append(ob)
            self.report.obligations.extend(eng.obligations)
            self.attach_lemmas(ctx)
            return
        self.report.paths += len(res)
        for pi, (qq, _) in enumerate(res):
            pw = f'{bwhere}/{case}/path{pi}'
            if qq.exc is not None:
                allowed = getattr(c, 'may_raise', None)
                goal = allowed(ctx, qq) if allowed else BoolVal(False)
                self.add_ob(eng, f'{pw}/no_exception_escapes', qq.pc, goal, qq, 'safety')
                if not allowed:
                    continue
            for ent in c.ensures(ctx, qq):
                name, goal = ent[0], ent[1]
                self.add_ob(eng, f'{pw}/ensures.{name}', qq.pc, goal, qq, opts=(ent[2] if len(ent) > 2 else None))
            if getattr(c, 'check_store_forwarding', True):
                self.add_ob(eng, f'{pw}/ensures.store_forwarded', qq.pc, ctx.stores_forwarded(qq), qq)
        for ob in eng.obligations:
            ob.hyps = list(eng.base_hyps) + ob.hyps
            self.pending_lemma_obs.append(ob)
        self.report.obligations.extend(eng.obligations)
        if ctx.closure_havoc:
            for ob in self.pending_lemma_obs:
                ob.extra['candidate_only'] = f'state outside the store ({", ".join(ctx.closure_havoc)}) was given an arbitrary value'
            self.report.notes.append(f'{bwhere}/{case}: closure variables {ctx.closure_havoc} persist across calls and were havocked')
        self.attach_lemmas(ctx)
        self.ctxs = getattr(self, 'ctxs', {}); self.ctxs[f'{bwhere}/{case}'] = ctx

    def havoc_closure_state(self, q, on_next, probe_changed, c):
        import ast as _ast
        if not isinstance(on_next, Closure) or isinstance(on_next.node, _ast.Lambda):
            return []
        allowed = set(getattr(c, 'closure_state_ok', ()))
        names = set()
        for n in _ast.walk(on_next.node):
            if isinstance(n, _ast.Nonlocal):
                names.update(n.names)
        assigned = {n.id for n in _ast.walk(on_next.node) if isinstance(n, _ast.Name) and isinstance(n.ctx, _ast.Store)}
        out = []
        for nm in sorted(names & assigned):
            cid = on_next.scope.lookup(nm)
            if cid is None or cid in probe_changed or nm in allowed:
                continue
            from .loops import havoc_value
            old = q.cells.get(cid)
            q.cells[cid] = SVal(fresh(f'closure_{nm}', Val)) if (old is None or not isinstance(old, SV)) else havoc_value(old, f'closure_{nm}')
            out.append(nm)
        return out

    def attach_lemmas(self, ctx):
        c = self.contract
        L = c.lemmas(ctx) if hasattr(c, 'lemmas') else {}
        refute = c.refute_instances(ctx) if hasattr(c, 'refute_instances') else None
        for ob in self.pending_lemma_obs:
            if refute:
                ob.extra['refute'] = refute
            names = ob.extra.get('lemmas')
            if names is None:
                names = list(L)
            ob.hyps = ob.hyps + [L[n] for n in names if n in L]
            # forall-elimination of contract lemmas at explicit terms (no solver involved)
            for (ln, terms) in (ob.extra.get('lemma_instances') or []):
                if ln in L and z3.is_quantifier(L[ln]):
                    ob.hyps.append(z3.substitute_vars(L[ln].body(), *reversed(terms)))
        self.pending_lemma_obs = []

    def item_value(self, ctx):
        mk = getattr(self.contract, 'item_value', None)
        return mk(ctx) if mk else SVal(ctx.x)

    def run_terminal(self, cfg, bwhere, hname, h, pprobe, states, store, observer, outer):
        c = self.contract
        if isinstance(h, Bound) and h.obj is observer:
            return      # covered by the wiring obligation
        if h is None:
            return
        eng = self.new_engine(f'{bwhere}/{hname}')
        q = pprobe.fork(); q.trace = Const('trace0', Trace); q.calls = []
        ctx = Ctx(eng, self.world, c, cfg, hname); ctx.trace0 = q.trace; ctx.states = states; ctx.store_host = store
        ctx.m0, ctx.v0 = self.fresh_prestate(q, states); ctx.err = Const('err', Val); ctx.outer = outer
        eng.base_hyps = list(pprobe.pc); eng.prune_hyps = list(pprobe.pc); q.pc = []
        args = [SVal(ctx.err)] if hname == 'on_error' else []
        try:
            res = eng.call(q, h, args, {})
        except Unsupported as u:
            self.report.undecided.append((f'{bwhere}/{hname}', f'outside the verified subset: {u}')); return
        spec = getattr(c, 'ensures_terminal', None)
        for pi, (qq, _) in enumerate(res):
            pw = f'{bwhere}/{hname}/path{pi}'
            if qq.exc is not None:
                okx = getattr(c, 'terminal_may_raise', False) and isinstance(qq.exc, ExcV) and qq.exc.origin not in (None, 'raise', 'constructed')
                self.add_ob(eng, f'{pw}/no_exception_escapes', qq.pc, BoolVal(bool(okx)), qq, 'safety'); continue
            if spec is not None:
                goals = spec(ctx, qq, hname)
            else:
                e = Ev.Done if hname == 'on_completed' else Ev.Err(ctx.err)
                goals = [('forwarded', And(ctx.emits(qq, em(OUT, e)), *[ctx.frame(qq, st) for st in states]))]
            for name, goal in goals:
                self.add_ob(eng, f'{pw}/ensures.{name}', qq.pc, goal, qq)
        for ob in eng.obligations:
            ob.hyps = list(eng.base_hyps) + ob.hyps
        self.report.obligations.extend(eng.obligations)
        self.pending_lemma_obs = []


def has_quantifier(e):
    seen = set()
    stack = [e]
    while stack:
        t = stack.pop()
        if t.get_id() in seen:
            continue
        seen.add(t.get_id())
        if z3.is_quantifier(t):
            return True
        stack.extend(t.children())
    return False


def discharge_all(report, timeout_ms=10000, canon=True, budget_s=None, recheck=False):
    """pass 1: every obligation once (half budget).  pass 2: the unknown ones with seeds / small-instance model search / cvc5;
    model search stops after the first refutation of the unit (one failing obligation is enough to report, the rest stay
    `unknown`), and the whole second pass respects a wall-clock budget."""
    ax = canon_axioms() if canon else []
    t0 = time.time()
    f = solve.speed_factor()
    timeout_ms = int(timeout_ms * f)
    report.notes.append(f'solver budgets scaled by {f:.1f} (reference query)')
    budget_s = budget_s or max(60.0, timeout_ms / 1000 * 12)
    def hy(ob):
        return ax if (canon and mentions_canon([ob.goal] + ob.hyps)) else []
    for ob in report.obligations:
        if ob.result is not None:
            continue
        solve.discharge(ob, extra_hyps=hy(ob), timeout_ms=(timeout_ms * 3 if ob.kind == 'lemma' else max(2000, int(timeout_ms * 0.4))))
    refuted = any(o.result == 'refuted' for o in report.obligations)
    t1 = time.time()
    for ob in report.obligations:
        if ob.result != 'unknown':
            continue
        if time.time() - t1 > budget_s:
            ob.extra['skipped'] = 'second-pass budget exhausted'
            continue
        if refuted:
            ob.extra['skipped'] = 'another obligation of this unit is already refuted'
            continue
        solve.second_pass(ob, extra_hyps=hy(ob), timeout_ms=timeout_ms, refute=True)
        if ob.result == 'refuted':
            refuted = True
    if recheck:
        # thorough tier: every obligation z3 proved is put to the second back end (cvc5) as well.  cvc5 `unsat` = two independent solvers
        # agree; `unknown` (frequent with quantifiers / recursive definitions) says nothing; `sat` is a disagreement between the back ends:
        # the obligation is then NOT counted as proved (undecided, never a violation) and the disagreement is reported.
        t2 = time.time()
        for ob in report.obligations:
            if ob.result != 'proved' or ob.backend != 'z3' or time.time() - t2 > 600:
                continue
            s2 = z3.Solver(); s2.add(*hy(ob)); s2.add(*ob.hyps); s2.add(z3.Not(ob.goal))
            res, dt = solve.cvc5_check(s2, 3000)
            ob.extra['recheck'] = {'unsat': 'agree', 'sat': 'DISAGREE'}.get(res, 'unknown')
            if res == 'sat':
                ob.result = 'unknown'; ob.backend = 'z3 proved, cvc5 reports a counter-model: back ends disagree'
    report.solve_s = time.time() - t0
    return report


def mentions_canon(exprs):
    from .sorts import canon as _canon
    seen = set()
    stack = list(exprs)
    while stack:
        t = stack.pop()
        if t.get_id() in seen:
            continue
        seen.add(t.get_id())
        if z3.is_app(t) and t.decl().eq(_canon):
            return True
        if z3.is_quantifier(t):
            stack.append(t.body())
        else:
            stack.extend(t.children())
    return False
