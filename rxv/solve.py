"""Discharging obligations: z3 first, cvc5 for what z3 leaves unknown (DESIGN R2).  unknown is never a violation."""
import os
import subprocess
import tempfile
import time
import z3
from z3 import Solver, Not, unsat, sat, unknown

CVC5 = '/usr/bin/cvc5'


def z3_check(hyps, goal, timeout_ms):
    s = Solver()
    s.set('timeout', timeout_ms)
    for h in hyps:
        s.add(h)
    s.add(Not(goal))
    t = time.time()
    r = s.check()
    return r, time.time() - t, s


def cvc5_check(solver, timeout_ms):
    """run the same query through the cvc5 CLI; returns 'unsat' | 'sat' | 'unknown'"""
    try:
        smt = solver.to_smt2()
    except Exception:
        return 'unknown', 0.0
    smt = '(set-logic ALL)\n' + smt
    t = time.time()
    with tempfile.NamedTemporaryFile('w', suffix='.smt2', delete=False, dir=os.environ.get('TMPDIR', '/tmp')) as f:
        f.write(smt); fn = f.name
    try:
        r = subprocess.run([CVC5, '--strings-exp', f'--tlimit={timeout_ms}', fn], capture_output=True, text=True,
                           timeout=timeout_ms / 1000 + 5)
        out = r.stdout.strip().splitlines()
        res = out[0] if out else 'unknown'
        if res not in ('unsat', 'sat'):
            res = 'unknown'
    except Exception:
        res = 'unknown'
    finally:
        try: os.unlink(fn)
        except OSError: pass
    return res, time.time() - t


def discharge(ob, extra_hyps=(), timeout_ms=10000, use_cvc5=True):
    """sets ob.result in {'proved','refuted','unknown'}, ob.backend, ob.time, ob.model"""
    hyps = list(extra_hyps) + list(ob.hyps)
    r, dt, s = z3_check(hyps, ob.goal, timeout_ms)
    ob.time = dt
    ob.backend = 'z3'
    if r == unsat:
        ob.result = 'proved'
    elif r == sat:
        ob.result = 'refuted'
        ob.model = s.model()
    else:
        ob.result = 'unknown'
        # R4: models are found on small instances -- bound every integer symbol and retry (sound for refutation only)
        for B in (2, 4, 8):
            r3, dt3, s3 = z3_check(hyps + small_bounds(hyps + [ob.goal], B), ob.goal, max(2000, timeout_ms // 4))
            ob.time += dt3
            if r3 == sat:
                ob.result = 'refuted'; ob.model = s3.model(); ob.backend = f'z3(bounded-ints<={B})'
                return ob
        if use_cvc5:
            res, dt2 = cvc5_check(s, timeout_ms)
            ob.time += dt2
            if res == 'unsat':
                ob.result = 'proved'; ob.backend = 'cvc5'
            elif res == 'sat':
                # cvc5 found a model but we cannot read it back here: retry z3 with a longer budget for a model
                r2, dt3, s2 = z3_check(hyps, ob.goal, timeout_ms * 3)
                ob.time += dt3
                if r2 == sat:
                    ob.result = 'refuted'; ob.model = s2.model(); ob.backend = 'z3'
                else:
                    ob.result = 'refuted'; ob.backend = 'cvc5'; ob.model = None
    return ob


def small_bounds(exprs, B):
    """|c| <= B for every uninterpreted integer constant occurring in exprs"""
    seen = set(); consts = {}
    stack = list(exprs)
    while stack:
        t = stack.pop()
        if t.get_id() in seen:
            continue
        seen.add(t.get_id())
        if z3.is_quantifier(t):
            stack.append(t.body()); continue
        if z3.is_const(t) and t.decl().kind() == z3.Z3_OP_UNINTERPRETED and z3.is_int(t):
            consts[t.get_id()] = t
        stack.extend(t.children())
    return [z3.And(c >= -B, c <= B) for c in consts.values()]
