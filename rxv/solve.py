"""Discharging obligations: z3 first, cvc5 for what z3 leaves unknown (DESIGN R2).  unknown is never a violation."""
import os
import subprocess
import tempfile
import time
import z3
from z3 import Solver, Not, unsat, sat, unknown

CVC5 = '/usr/bin/cvc5'


def z3_check(hyps, goal, timeout_ms, seed=0):
    s = Solver()
    s.set('timeout', timeout_ms)
    if seed:
        s.set('random_seed', seed)
        s.set('seed', seed) if False else None
    for h in hyps:
        s.add(h)
    s.add(Not(goal))
    t = time.time()
    r = s.check()
    return r, time.time() - t, s


def cvc5_check(solver, timeout_ms):
    """run the same query through the cvc5 CLI; returns 'unsat' | 'sat' | 'unknown'"""
    try:
        smt = solver.to_smt2()
    except Exception:
        return 'unknown', 0.0
    # z3 prints its internal in-bounds / out-of-bounds variants of seq.nth; both are instances of the total seq.nth
    smt = '(set-logic ALL)\n' + smt.replace('seq.nth_i', 'seq.nth').replace('seq.nth_u', 'seq.nth')
    t = time.time()
    with tempfile.NamedTemporaryFile('w', suffix='.smt2', delete=False, dir=os.environ.get('TMPDIR', '/tmp')) as f:
        f.write(smt); fn = f.name
    try:
        r = subprocess.run([CVC5, '--strings-exp', f'--tlimit={timeout_ms}', fn], capture_output=True, text=True,
                           timeout=timeout_ms / 1000 + 5)
        out = r.stdout.strip().splitlines()
        res = out[0] if out else 'unknown'
        if res not in ('unsat', 'sat'):
            res = 'unknown'
    except Exception:
        res = 'unknown'
    finally:
        try: os.unlink(fn)
        except OSError: pass
    return res, time.time() - t


def discharge(ob, extra_hyps=(), timeout_ms=10000, use_cvc5=True):
    """first pass: one z3 call.  sets ob.result in {'proved','refuted','unknown'}"""
    hyps = list(extra_hyps) + list(ob.hyps)
    dump = os.environ.get('RXV_DUMP')
    if dump and dump in ob.name:
        sd = Solver(); sd.add(*hyps); sd.add(Not(ob.goal))
        os.makedirs('/tmp/scratch/dump', exist_ok=True)
        import re
        open('/tmp/scratch/dump/' + re.sub(r'[^A-Za-z0-9_.-]+', '_', ob.name)[-120:] + '.smt2', 'w').write(sd.to_smt2())
    r, dt, s = z3_check(hyps, ob.goal, timeout_ms)
    ob.time = dt
    ob.backend = 'z3'
    if r == unsat:
        ob.result = 'proved'
    elif r == sat:
        ob.result = 'refuted'
        ob.model = s.model()
        # prefer a model with small keys / counters / parameters: cheaper and more readable native replay
        r2, dt2, s2 = z3_check(hyps + small_bounds(hyps + [ob.goal], 16), ob.goal, 1500)
        ob.time += dt2
        if r2 == sat:
            ob.model = s2.model()
    else:
        ob.result = 'unknown'
    return ob


def second_pass(ob, extra_hyps=(), timeout_ms=10000, refute=True, use_cvc5=True):
    """for an obligation the first pass left `unknown`: other seeds (quantifier instantiation is seed-sensitive), then -- if
    `refute` -- model search on small instances (R4), then cvc5.  unknown is never a violation."""
    hyps = list(extra_hyps) + list(ob.hyps)
    t_each = max(1500, timeout_ms // 4)
    if use_cvc5 and ob.time < 1.5:
        # z3 gave up at once (incomplete string / sequence reasoning): cvc5 is the better first choice (R2)
        sd = Solver(); sd.add(*hyps); sd.add(Not(ob.goal))
        res, dt2 = cvc5_check(sd, timeout_ms)
        ob.time += dt2
        if res == 'unsat':
            ob.result = 'proved'; ob.backend = 'cvc5'; return ob
        use_cvc5 = False
    if refute:
        # R4': ground instantiation of the universally quantified hypotheses over a small index range.  This WEAKENS the
        # hypotheses, so a model found here is only a candidate: it counts as a refutation only if the native replay of the
        # model on the real code reproduces the violation (ob.extra['needs_validation'])
        for inst in (list(ob.extra.get('refute') or []) or [None]):
            try:
                hy2, g2 = instantiate(hyps, ob.goal, inst) if inst else (hyps, ob.goal)
                hy3 = [z3.simplify(expand_foralls(h, -1, 8)) for h in hy2]
            except Exception:
                continue
            r6, dt6, s6 = z3_check(hy3, g2, t_each)
            ob.time += dt6
            if r6 == sat:
                ob.result = 'refuted'; ob.model = s6.model(); ob.extra['needs_validation'] = True
                ob.backend = f'z3(ground instances{", " + inst.get("name") if inst else ""})'
                return ob
    for seed in (7, 23):
        r4, dt4, s4 = z3_check(hyps, ob.goal, t_each * 2, seed=seed)
        ob.time += dt4
        if r4 == unsat:
            ob.result = 'proved'; ob.backend = f'z3(seed={seed})'; return ob
        if r4 == sat:
            ob.result = 'refuted'; ob.model = s4.model(); ob.backend = f'z3(seed={seed})'; return ob
    if refute:
        for inst in (ob.extra.get('refute') or []):
            try:
                hy2, g2 = instantiate(hyps, ob.goal, inst)
            except Exception:
                continue
            r5, dt5, s5 = z3_check(hy2 + small_bounds(hy2 + [g2], 12), g2, t_each)
            ob.time += dt5
            if r5 == sat:
                ob.result = 'refuted'; ob.model = s5.model(); ob.backend = f'z3(instance {inst.get("name")})'
                return ob
        for B in (2, 6):
            r3, dt3, s3 = z3_check(hyps + small_bounds(hyps + [ob.goal], B), ob.goal, t_each)
            ob.time += dt3
            if r3 == sat:
                ob.result = 'refuted'; ob.model = s3.model(); ob.backend = f'z3(bounded-ints<={B})'
                return ob
    if use_cvc5:
        sd = Solver(); sd.add(*hyps); sd.add(Not(ob.goal))
        res, dt2 = cvc5_check(sd, timeout_ms)
        ob.time += dt2
        if res == 'unsat':
            ob.result = 'proved'; ob.backend = 'cvc5'
        elif res == 'sat':
            ob.result = 'refuted'; ob.backend = 'cvc5'; ob.model = None
    return ob


def small_bounds(exprs, B):
    """|c| <= B for every uninterpreted integer constant occurring in exprs"""
    seen = set(); consts = {}
    stack = list(exprs)
    while stack:
        t = stack.pop()
        if t.get_id() in seen:
            continue
        seen.add(t.get_id())
        if z3.is_quantifier(t):
            stack.append(t.body()); continue
        if z3.is_const(t) and t.decl().kind() == z3.Z3_OP_UNINTERPRETED and z3.is_int(t):
            consts[t.get_id()] = t
        stack.extend(t.children())
    return [z3.And(c >= -B, c <= B) for c in consts.values()]


def instantiate(hyps, goal, inst):
    """inst: {'name', 'consts': [(const, value)], 'funs': [(decl, body over Var(i))]}: substitute and keep the equalities so that
    the model still talks about the original symbols"""
    funs = inst.get('funs', [])
    consts = [(c, v) for c, v in inst.get('consts', [])]
    def tr(e):
        if funs:
            e = z3.substitute_funs(e, *funs)
        if consts:
            e = z3.substitute(e, *consts)
        return e
    hy2 = [tr(h) for h in hyps] + [c == v for c, v in consts]
    return hy2, tr(goal)


def expand_foralls(e, lo, hi, maxvars=2):
    """positive-polarity expansion of universal quantifiers over Int variables into their instances on [lo, hi]; quantifiers that
    cannot be expanded (other sorts, too many variables) are dropped, which only weakens a hypothesis"""
    import itertools
    if z3.is_quantifier(e) and e.is_forall():
        n = e.num_vars()
        if all(e.var_sort(i) == z3.IntSort() for i in range(n)) and n <= maxvars:
            out = []
            for vals in itertools.product(range(lo, hi + 1), repeat=n):
                inst = z3.substitute_vars(e.body(), *[z3.IntVal(v) for v in reversed(vals)])
                out.append(expand_foralls(inst, lo, hi, maxvars))
            return z3.And(*out)
        return z3.BoolVal(True)
    if z3.is_and(e):
        return z3.And(*[expand_foralls(c, lo, hi, maxvars) for c in e.children()])
    if z3.is_implies(e):
        return z3.Implies(e.arg(0), expand_foralls(e.arg(1), lo, hi, maxvars))
    return e


_SPEED = None


def speed_factor():
    """how much slower than the development machine this process currently runs (>= 1): a fixed reference query is timed once per
    process, so that solver budgets scale with the load of the machine and verdicts do not flip under contention (R3)"""
    global _SPEED
    if _SPEED is None:
        w, s_, D, a, b = z3.Ints('cal_w cal_s cal_D cal_a cal_b')
        dens = [w >= 1, s_ >= 1, D >= 1, D * s_ >= w, (D - 1) * s_ < w]
        t = time.time()
        sv = Solver(); sv.set('timeout', 120000)
        sv.add(*dens); sv.add(a % s_ == 0, b % s_ == 0, 0 <= a, a < b, (a / s_) % D == (b / s_) % D, Not(b - a >= w))
        sv.check()
        dt = time.time() - t
        _SPEED = min(8.0, max(1.0, dt / 0.25))
    return _SPEED
