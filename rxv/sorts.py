"""z3 sorts shared by the whole verifier (DESIGN 3.2).

Key   nested mux keys  (idx, (k0, (0,)))            KK(h, t) | KNil
Val   universal python value                         None | sentinel | bool | int | real(float) | str | bytes
                                                     | opaque object | tuple (cons list) | heap reference
Ev    what a handler can push downstream             Create | Next | Completed | Error | Probe | Other
                                                     | Err (observer.on_error) | Done (observer.on_completed)
Em    one emission = (channel, Ev)                   channel 0 = observer, 1 = outer_observer, 2 = dead letter
"""
from z3 import (Datatype, DeclareSort, IntSort, BoolSort, RealSort, StringSort, SeqSort, BitVecSort,
                Function, Const, Consts, ForAll, And, Or, Not, Implies, If, Int, IntVal, BoolVal, RealVal,
                StringVal, Unit, Concat, Empty, Length, ToReal, is_true, is_false, simplify)

Key = Datatype('Key')
Key.declare('KNil')
Key.declare('KK', ('h', IntSort()), ('t', Key))
Key = Key.create()

U = DeclareSort('U')            # opaque python objects (identity)
Bytes = SeqSort(BitVecSort(8))

Val = Datatype('Val')
Val.declare('VNone')
Val.declare('VSent', ('sk', IntSort()))       # rxsci sentinels: 0 STATE_NOTSET 1 STATE_SET 2 STATE_CLEARED
Val.declare('VBool', ('b', BoolSort()))
Val.declare('VInt', ('i', IntSort()))
Val.declare('VReal', ('r', RealSort()))       # python float, treated as a real number (assumption A2f)
Val.declare('VStr', ('s', StringSort()))
Val.declare('VBytes', ('by', Bytes))
Val.declare('VObj', ('o', U))                 # any other object; == is a free equivalence on these (A3)
Val.declare('VNil')                           # ()   -- tuples are cons lists
Val.declare('VCons', ('hd', Val), ('tl', Val))
Val.declare('VRef', ('addr', IntSort()))      # mutable container living in the heap
Val.declare('VKey', ('vk', Key))              # a mux key used as a value
Val = Val.create()
V = Val

Ev = Datatype('Ev')
Ev.declare('Create', ('ck', Key))
Ev.declare('Next', ('nk', Key), ('item', Val))
Ev.declare('Completed', ('dk', Key))
Ev.declare('Error', ('ek', Key), ('err', Val))
Ev.declare('Probe')
Ev.declare('Other', ('ov', Val))
Ev.declare('Err', ('ee', Val))                # observer.on_error(e)
Ev.declare('Done')                            # observer.on_completed()
Ev.declare('Item', ('pv', Val))               # plain (non-mux) observable item
Ev = Ev.create()

Em = Datatype('Em')
Em.declare('Em', ('chan', IntSort()), ('ev', Ev))
Em = Em.create()

OUT, OUTER, DEAD = 0, 1, 2
Trace = SeqSort(Em)
ValSeq = SeqSort(Val)

SENT_NOTSET, SENT_SET, SENT_CLEARED = 0, 1, 2
M_NOTSET, M_SET, M_ABSENT = 0, 1, 2       # slot markers in the handler-level store view (2 = cleared / never added)

# ---- python equality (A3): py_eq(a, b) <=> canon(a) == canon(b)
# canon is a *recursive function definition* (not quantified axioms): interpreted on None / bool / int / float / str / bytes /
# tuples (component-wise), a free idempotent map on opaque objects.  Recursive definitions keep model finding decidable in
# practice (a refuted obligation comes back `sat` with a model instead of `unknown`).
from z3 import RecFunction, RecAddDefinition, IsInt, ToInt
canon = RecFunction('canon', Val, Val)
ocanon = Function('ocanon', U, U)
_cx = Const('cx_x', Val)
RecAddDefinition(canon, _cx,
                 If(V.is_VBool(_cx), V.VInt(If(V.b(_cx), 1, 0)),
                 If(V.is_VReal(_cx), If(IsInt(V.r(_cx)), V.VInt(ToInt(V.r(_cx))), _cx),
                 If(V.is_VObj(_cx), V.VObj(ocanon(V.o(_cx))),
                 If(V.is_VCons(_cx), V.VCons(canon(V.hd(_cx)), canon(V.tl(_cx))), _cx)))))


# python == is NOT reflexive on every value: float('nan') != float('nan'), and an object may define a non-reflexive __eq__.  A value
# flagged `selfne` compares unequal to everything, itself included (None / bool / int / str / bytes / tuples / sentinels never are).
# Without this, `a is b or a == b` and `a == b` would be indistinguishable (an "identity shortcut" refactoring would verify).
nan_r = Function('nan_r', RealSort(), BoolSort())
selfne_o = Function('selfne_o', U, BoolSort())


def selfne(x):
    return If(V.is_VReal(x), nan_r(V.r(x)), If(V.is_VObj(x), selfne_o(V.o(x)), BoolVal(False)))


def py_eq(a, b):
    return And(canon(a) == canon(b), Not(selfne(a)), Not(selfne(b)))


def canon_axioms():
    u = Const('cx_u', U)
    return [ForAll([u], ocanon(ocanon(u)) == ocanon(u), patterns=[ocanon(u)])]


obj_truthy = Function('obj_truthy', U, BoolSort())      # an opaque object may be falsy (empty dict / list, numpy.bool_(False), a class with __bool__)


def truthy(v):
    """python truthiness of a Val: interpreted on None / bool / numbers / strings / bytes / tuples, UNKNOWN (uninterpreted) on opaque objects --
    `if x` and `if x is not None` are different programs on `{}` or `[]`"""
    return If(V.is_VBool(v), V.b(v),
           If(V.is_VInt(v), V.i(v) != 0,
           If(V.is_VReal(v), V.r(v) != 0,
           If(V.is_VNone(v), BoolVal(False),
           If(V.is_VNil(v), BoolVal(False),
           If(V.is_VStr(v), Length(V.s(v)) > 0,
           If(V.is_VBytes(v), Length(V.by(v)) > 0,
           If(V.is_VObj(v), obj_truthy(V.o(v)), BoolVal(True)))))))))


def tup(*xs):
    t = V.VNil
    for x in reversed(xs):
        t = V.VCons(x, t)
    return t


def key_of(*idx):
    """python tuple (a, (b, (c,))) given as a, b, c  -> Key term"""
    k = Key.KNil
    for x in reversed(idx):
        k = Key.KK(x if not isinstance(x, int) else IntVal(x), k)
    return k


def em(chan, ev):
    return Em.Em(IntVal(chan), ev)


def seq_of(sort, *xs):
    if not xs:
        return Empty(SeqSort(sort))
    if len(xs) == 1:
        return Unit(xs[0])
    return Concat(*[Unit(x) for x in xs])
