"""Name resolution and *trusted* models of builtins / RxPY / stdlib objects (DESIGN 3.4).

Resolution: the real `rxsci` package is imported (from /repo) only to find out what a dotted name refers to;
semantics of functions defined under /repo always come from their AST, re-read on every run.
Every model in this file is an assumption and is listed in the evidence under trusted_base.
"""
import ast
import importlib
import inspect
import os
import sys
import types
import z3
from z3 import (And, Or, Not, Implies, If, IntVal, BoolVal, RealVal, StringVal, Int, Const, Concat, Unit, Length, Store,
                Select, K, IntSort, BoolSort, ArraySort, simplify, Empty, SeqSort, SubSeq, Function, ForAll, is_true,
                is_false)
from .sorts import *
from .values import *
from .engine import (Unsupported, Scope, Frame, Closure, fresh, is_concrete, loop_ordinals, local_names)

REPO = os.environ.get('RXV_REPO', '/repo')

TRUSTED_USED = set()


def trusted(name):
    TRUSTED_USED.add(name)


class ModuleInfo:
    def __init__(self, name, path, tree, real):
        self.name = name; self.path = path; self.tree = tree; self.real = real
        self.scope = Scope(None)
        self.functions = {}
        self.classes = {}
        for n in tree.body:
            self._collect(n)

    def _collect(self, n):
        if isinstance(n, ast.FunctionDef):
            self.functions[n.name] = n
        elif isinstance(n, ast.ClassDef):
            self.classes[n.name] = n
        elif isinstance(n, ast.Try):
            for c in n.body:
                self._collect(c)


class World:
    def __init__(self, repo=REPO):
        self.repo = repo
        if repo not in sys.path:
            sys.path.insert(0, repo)
        self.modules = {}
        self.closure_cache = {}
        self.extra_globals = {}      # (module, name) -> SV overrides (contracts may inject symbolic globals)
        import rxsci  # noqa
        self.rs = rxsci
        self.event_fields = {}
        for kind, cls in (('Create', rxsci.OnCreateMux), ('Next', rxsci.OnNextMux), ('Completed', rxsci.OnCompletedMux),
                          ('Error', rxsci.OnErrorMux)):
            self.event_fields[kind] = tuple(cls._fields)
        self.event_fields['Probe'] = tuple(rxsci.state.ProbeStateTopology._fields)
        self.evclass_by_id = {
            id(rxsci.OnCreateMux): 'Create', id(rxsci.OnNextMux): 'Next', id(rxsci.OnCompletedMux): 'Completed',
            id(rxsci.OnErrorMux): 'Error', id(rxsci.state.ProbeStateTopology): 'Probe'}
        m = rxsci.state.markers
        self.sentinel_by_id = {id(m.STATE_NOTSET): 0, id(m.STATE_SET): 1, id(m.STATE_CLEARED): 2}

    # ---------------------------------------------------------------- modules
    def module(self, name):
        if name not in self.modules:
            real = importlib.import_module(name)
            path = real.__file__
            if not os.path.realpath(path).startswith(os.path.realpath(self.repo)):
                raise Unsupported(f'module {name} is not under {self.repo}')
            src = open(path).read()
            self.modules[name] = ModuleInfo(name, path, ast.parse(src), real)
        return self.modules[name]

    def closure_of(self, modname, fname):
        key = (modname, fname)
        if key not in self.closure_cache:
            mi = self.module(modname)
            node = mi.functions[fname]
            clo = Closure(node, mi.scope, modname, f'{modname.split(".", 1)[-1] if "." in modname else modname}.{fname}')
            clo.qual = f'{modname}.{fname}'
            clo.defaults = [self.const_default(modname, d) for d in node.args.defaults]
            clo.kwdefaults = {a.arg: self.const_default(modname, d) for a, d in zip(node.args.kwonlyargs, node.args.kw_defaults) if d is not None}
            self.closure_cache[key] = clo
        return self.closure_cache[key]

    def const_default(self, modname, d):
        if isinstance(d, ast.Constant):
            return d.value
        if isinstance(d, ast.Name):
            return self.global_name(modname, d.id)
        if isinstance(d, ast.Lambda):
            mi = self.module(modname)
            c = Closure(d, mi.scope, modname, f'{modname}.<lambda>L{d.lineno}'); c.defaults = []; c.kwdefaults = {}
            return c
        if isinstance(d, ast.Call) or isinstance(d, ast.List):
            return Host('unevaluated_default', node=d, module=modname)
        raise Unsupported(f'default value {ast.dump(d)[:40]}')

    def global_name(self, modname, name):
        if (modname, name) in self.extra_globals:
            return self.extra_globals[(modname, name)]
        mi = self.module(modname)
        if name in mi.functions:
            return self.closure_of(modname, name)
        if hasattr(mi.real, name):
            return self.lift(getattr(mi.real, name))
        import builtins
        if hasattr(builtins, name):
            return self.lift(getattr(builtins, name))
        raise Unsupported(f'global {name} in {modname}')

    def class_method(self, cls, attr):
        """cls = (modname, classname)"""
        mi = self.module(cls[0])
        node = mi.classes[cls[1]]
        for n in node.body:
            if isinstance(n, ast.FunctionDef) and n.name == attr:
                c = Closure(n, mi.scope, cls[0], f'{cls[0]}.{cls[1]}.{attr}')
                c.defaults = [self.const_default(cls[0], d) for d in n.args.defaults]; c.kwdefaults = {}
                return c
        return None

    # ---------------------------------------------------------------- lifting real python objects
    def lift(self, obj):
        if obj is None or isinstance(obj, (bool, int, float, str, bytes)):
            return obj
        if id(obj) in self.evclass_by_id:
            k = self.evclass_by_id[id(obj)]
            return EvClass(k, self.event_fields[k])
        if id(obj) in self.sentinel_by_id:
            return Sentinel(self.sentinel_by_id[id(obj)])
        if isinstance(obj, types.ModuleType):
            return Host('module', obj=obj, name=obj.__name__)
        if isinstance(obj, types.FunctionType):
            mod = obj.__module__
            f = getattr(obj, '__code__', None)
            if f is not None and os.path.realpath(f.co_filename).startswith(os.path.realpath(self.repo)) and '<locals>' not in obj.__qualname__ and '.' not in obj.__qualname__:
                real_mod = inspect.getmodule(obj).__name__
                return self.closure_of(real_mod, obj.__name__)
            return Host('builtin', name=f'{mod}.{obj.__qualname__}', obj=obj)
        if isinstance(obj, type):
            if issubclass(obj, BaseException):
                return Host('excclass', name=obj.__name__)
            if obj in (int, bool, float, str, bytes, tuple, list, dict, set, type(None)):
                return PyType(obj.__name__)
            return Host('builtin', name=f'{obj.__module__}.{obj.__qualname__}', obj=obj)
        if isinstance(obj, (types.BuiltinFunctionType, types.BuiltinMethodType)):
            return Host('builtin', name=f'{getattr(obj, "__module__", "builtins")}.{obj.__qualname__}', obj=obj)
        if isinstance(obj, tuple):
            return tuple(self.lift(x) for x in obj)
        raise Unsupported(f'cannot lift {obj!r}')

    # ---------------------------------------------------------------- hosts
    def host_attr(self, eng, p, h, attr):
        k = h.kind
        if k in ('observer', 'subject') and attr in ('on_next', 'on_error', 'on_completed'):
            return Bound(h, attr)
        if k in ('source', 'subject', 'observable', 'muxobservable', 'connectable') and attr in ('subscribe', 'subscribe_', 'pipe', 'connect'):
            return Bound(h, attr)
        if k == 'store':
            return Bound(h, attr)
        if k == 'topology':
            return Bound(h, attr)
        if k == 'builtin':
            # attribute of a real class / function object (e.g. zlib.MAX_WBITS handled through module)
            return self.lift(getattr(h.obj, attr))
        if k == 'opaque' and attr in ('eof',):
            # boolean attribute of a library object: an uninterpreted function of the object and of how many calls it has received
            from z3 import Function, BoolSort, IntSort, IntVal
            n = len([c for c in p.calls if c[0].startswith(h.name + '.')])
            return SBool(Function(f'lib_attr_{attr}', Val, IntSort(), BoolSort())(eng.to_val(p, h), IntVal(n)))
        if k in ('opaque', 'disposable'):
            return Bound(h, attr)
        if k == 'immediate_scheduler' and attr == 'schedule':
            return Bound(h, attr)
        raise Unsupported(f'attribute {attr} of host {h.kind}')

    def emit(self, eng, p, chan, ev):
        p.trace = Concat(p.trace, Unit(Em.Em(IntVal(chan), ev)))

    def event_term(self, eng, p, x):
        """python value pushed through on_next -> Ev term (mux events keep their constructor)"""
        if isinstance(x, EventV):
            st = x.vals.get('store')
            if x.kind != 'Probe':
                p.ghost.setdefault('stores_emitted', []).append((x.kind, st))
            if x.kind == 'Create': return Ev.Create(eng.to_key(p, x.vals['key']))
            if x.kind == 'Next': return Ev.Next(eng.to_key(p, x.vals['key']), eng.to_val(p, x.vals['item']))
            if x.kind == 'Completed': return Ev.Completed(eng.to_key(p, x.vals['key']))
            if x.kind == 'Error': return Ev.Error(eng.to_key(p, x.vals['key']), eng.to_val(p, x.vals['error']))
            if x.kind == 'Probe': return Ev.Probe
        if isinstance(x, Host) and x.kind == 'foreign':
            return Ev.Other(eng.to_val(p, x))
        return Ev.Item(eng.to_val(p, x))

    def call_bound(self, eng, p, f, args, kws):
        o, name = f.obj, f.name
        if isinstance(o, EventV) and name == '_replace':
            if args: raise Unsupported('_replace positional')
            for k in kws:
                if k not in o.fields: raise Unsupported(f'_replace unknown field {k}')
            return [(p, o.replace(**kws))]
        if isinstance(o, Host):
            k = o.kind
            if k in ('observer', 'subject'):
                if name == 'on_next':
                    self.emit(eng, p, o.chan, self.event_term(eng, p, args[0])); return [(p, None)]
                if name == 'on_error':
                    self.emit(eng, p, o.chan, Ev.Err(eng.to_val(p, args[0]))); return [(p, None)]
                if name == 'on_completed':
                    self.emit(eng, p, o.chan, Ev.Done); return [(p, None)]
            if k in ('source', 'subject', 'observable', 'muxobservable', 'connectable'):
                if name in ('subscribe', 'subscribe_'):
                    trusted('rx.Observable.subscribe: registers the handlers, delivers nothing by itself')
                    names = ['on_next', 'on_error', 'on_completed', 'scheduler'] if name == 'subscribe_' else ['observer', 'on_error', 'on_completed', 'on_next', 'scheduler']
                    d = dict(zip(names, args)); d.update(kws)
                    if 'observer' in d and d['observer'] is not None and 'on_next' not in d:
                        ob = d.pop('observer')
                        if isinstance(ob, Host) and ob.kind == 'observer':
                            d['on_next'] = Bound(ob, 'on_next'); d.setdefault('on_error', Bound(ob, 'on_error')); d.setdefault('on_completed', Bound(ob, 'on_completed'))
                        else:
                            d['on_next'] = ob
                    p.ghost.setdefault('subs', [])
                    p.ghost['subs'] = p.ghost['subs'] + [(o, d)]
                    return [(p, Host('disposable'))]
                if name == 'pipe':
                    cur = [(p, o)]
                    for fn in args:
                        nxt = []
                        for q, src in cur:
                            nxt.extend(eng.call(q, fn, [src], {}))
                        cur = nxt
                    return cur
                if name == 'connect':
                    p.ghost['subs'] = p.ghost.get('subs', []) + [(o, {'connect': True})]
                    return [(p, Host('disposable'))]
            if k == 'disposable':
                return [(p, None)]
            if k == 'immediate_scheduler' and name == 'schedule':
                # only contracts of *sources* (io.file.read) pass this scheduler: the action runs when scheduled (CurrentThreadScheduler at
                # top level; trampolining of nested subscriptions is not modelled)
                trusted('scheduler.schedule(action): the action is run once, synchronously, with (scheduler, state)')
                out = []
                for q, _ in eng.call(p, args[0], [o, args[1] if len(args) > 1 else None], {}):
                    out.append((q, Host('disposable')))
                return out
            if k == 'store':
                from . import storemodel
                return storemodel.store_call(eng, p, o, name, args, kws)
            if k == 'topology':
                from . import storemodel
                return storemodel.topology_call(eng, p, o, name, args, kws)
        from . import pymodels
        return pymodels.call_bound(self, eng, p, f, args, kws)

    def call_host(self, eng, p, h, args, kws):
        if h.kind == 'builtin':
            from . import pymodels
            return pymodels.call_builtin(self, eng, p, h, args, kws)
        if h.kind == 'pipe':
            cur = [(p, args[0])]
            for fn in h.fns:
                nxt = []
                for q, src in cur:
                    if not q.live:
                        nxt.append((q, None)); continue
                    nxt.extend(eng.call(q, fn, [src], {}))
                cur = nxt
            return cur
        if h.kind == 'excclass':
            return [(p, ExcV(h.name, tuple(args), origin='constructed'))]
        if h.kind == 'opaque':
            from . import libmodels
            return libmodels.call_object(self, eng, p, h, args, kws)
        if h.kind == 'rxop':
            return [(p, Host('observable', subscribe=None, rxop=h, source=args[0], name=f'rx.{h.name}(...)'))]
        raise Unsupported(f'call of host {h.kind} {getattr(h, "name", "")}')

    def call_type(self, eng, p, t, args, kws):
        from . import pymodels
        return pymodels.call_type(self, eng, p, t, args, kws)

    def slice_of(self, eng, p, base, sl):
        from . import pymodels
        return pymodels.slice_of(self, eng, p, base, sl)

    def heap_getitem(self, eng, p, base, idx):
        from . import pymodels
        return pymodels.heap_getitem(self, eng, p, base, idx)

    def heap_setitem(self, eng, p, base, idx, v):
        from . import pymodels
        return pymodels.heap_setitem(self, eng, p, base, idx, v)

    def seq_getitem(self, eng, p, base, idx):
        from . import pymodels
        return pymodels.seq_getitem(self, eng, p, base, idx)

    def symbolic_comprehension(self, eng, p, e, itv, fr):
        import ast as _ast
        from z3 import Function
        g = e.generators[0]
        if isinstance(itv, Bound) and isinstance(itv.obj, SVal):
            itv = SVal(Function(f'attr_{itv.name}', Val, Val)(itv.obj.t))
        if isinstance(itv, SVal) and isinstance(e.elt, _ast.Name) and isinstance(g.target, _ast.Name) and e.elt.id == g.target.id:
            # [x for x in iterable]: the items of the iterable, in order
            return SSeq(Function('items_of', Val, ValSeq)(itv.t), 'val')
        raise Unsupported('comprehension over symbolic sequence')
