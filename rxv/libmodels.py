"""Assumed contracts of third-party streaming objects (zlib, zstandard, codecs, json/orjson): the objects are opaque,
every call on them is logged in order (so the wrapper obligations can state exactly which calls are made, on which
object, with which arguments) and returns an uninterpreted result."""
import z3
from z3 import Function, IntSort, Const, IntVal
from .sorts import *
from .values import *
from .engine import Unsupported, fresh
from .world import trusted


def opaque_result(eng, p, tag, args):
    k = p.ghost.get('n_libcalls', 0); p.ghost['n_libcalls'] = k + 1
    targs = [eng.to_val(p, a) for a in args]
    f = Function(f'lib_{tag}', *([Val] * len(targs)), IntSort(), Val)
    return f(*targs, IntVal(k)) if False else Function(f'lib_{tag}', *([Val] * len(targs)), Val)(*targs)


def call(world, eng, p, h, args, kws):
    n = h.name
    trusted(f'{n}: opaque library call (assumed contract, DESIGN 3.4)')
    allargs = list(args) + [v for _, v in sorted(kws.items())]
    p.calls.append((n, tuple(eng.to_val(p, a) for a in allargs), tuple(sorted(kws))))
    short = n.split('.')[-1]
    if short in ('compressobj', 'decompressobj', 'ZstdCompressor', 'ZstdDecompressor', 'getincrementalencoder', 'getincrementaldecoder', 'ParquetWriter', 'ParquetFile'):
        k = p.ghost.get('n_libobjs', 0); p.ghost['n_libobjs'] = k + 1
        return [(p, Host('opaque', name=f'{short}#{k}', lib=n, created_by=(n, tuple(allargs), dict(kws))))]
    return [(p, SVal(opaque_result(eng, p, n.replace('.', '_'), allargs)))]


def method(world, eng, p, o, name, args, kws):
    allargs = list(args) + [v for _, v in sorted(kws.items())]
    if name in ('compressobj', 'decompressobj') or getattr(o, 'factory_like', False):
        k = p.ghost.get('n_libobjs', 0); p.ghost['n_libobjs'] = k + 1
        p.calls.append((f'{o.name}.{name}', tuple(eng.to_val(p, a) for a in allargs)))
        return [(p, Host('opaque', name=f'{o.name}.{name}#{k}', lib=getattr(o, 'lib', ''), parent=o))]
    if o.name == 'scheduler':
        raise Unsupported('scheduler use')
    targs = tuple(eng.to_val(p, a) for a in allargs)
    idx = len([c for c in p.calls if c[0].startswith(o.name + '.')])
    p.calls.append((f'{o.name}.{name}', targs, tuple(sorted(kws))))
    q = p.fork()
    rz = Function(f'libraises_{name}', Val, IntSort(), z3.BoolSort())
    me = eng.to_val(p, o)
    out = []
    q.pc.append(rz(me, IntVal(idx)))
    if eng.feasible(q.pc):
        q.exc = ExcV('LibError', (), origin=f'{o.name}.{name}', term=Function('lib_exc', Val, IntSort(), Val)(me, IntVal(idx)))
        out.append((q, None))
    p.pc.append(z3.Not(rz(me, IntVal(idx))))
    res = Function(f'libres_{name}', Val, IntSort(), Val)(me, IntVal(idx))
    p.ghost['lib_results'] = list(p.ghost.get('lib_results', [])) + [res]       # what each library call of this path returned, in call order
    if eng.feasible(p.pc):
        out.append((p, SVal(res)))
    return out


def str_codec(eng, p, o, name, args, kws):
    trusted(f'str.encode / bytes.decode: one-shot codec')
    targs = [eng.to_val(p, o)] + [eng.to_val(p, a) for a in args]
    p.calls.append((f'oneshot.{name}', tuple(targs)))
    if name == 'decode':
        from z3 import StringSort
        return [(p, SStr(Function('oneshot_decode', *([Val] * len(targs)), StringSort())(*targs)))]
    return [(p, SBytes(Function('oneshot_encode', *([Val] * len(targs)), Bytes)(*targs)))]


def call_object(world, eng, p, h, args, kws):
    """calling a library factory object (e.g. codecs.getincrementalencoder(enc)()) yields a new opaque object"""
    k = p.ghost.get('n_libobjs', 0); p.ghost['n_libobjs'] = k + 1
    allargs = list(args) + [v for _, v in sorted(kws.items())]
    p.calls.append((f'{h.name}()', tuple(eng.to_val(p, a) for a in allargs)))
    return [(p, Host('opaque', name=f'{h.name}()#{k}', lib=getattr(h, 'lib', ''), parent=h))]
