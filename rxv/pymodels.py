"""Trusted models (contracts) of python builtins, stdlib and RxPY objects used by rxsci (DESIGN 3.4).
Each model that is exercised registers itself through world.trusted(...) so the evidence lists it."""
import z3
from z3 import (And, Or, Not, Implies, If, IntVal, BoolVal, RealVal, StringVal, Int, Const, Concat, Unit, Length, Store,
                Select, K, IntSort, BoolSort, ArraySort, simplify, Empty, SeqSort, SubSeq, Function, ForAll, is_true,
                is_false, ToReal, is_int_value)
from .sorts import *
from .values import *
from .engine import Unsupported, fresh, is_concrete
from .world import trusted

copy_of = Function('copy_of', Val, IntSort(), Val)          # deepcopy(x) #n  (fresh object, equal to x)
is_callable = Function('is_callable', Val, BoolSort())


def bname(h):
    return h.name


def call_builtin(world, eng, p, h, args, kws):
    n = h.name
    short = n.split('.')[-1]
    # ---- rx / rxsci plumbing
    if n in ('rxsci.mux.muxobservable.MuxObservable',):
        return [(p, Host('muxobservable', subscribe=args[0]))]
    if n in ('rxsci.mux.muxconnectable.MuxConnectableProxy',):
        return [(p, Host('muxobservable', subscribe=args[1], connectable=args[0]))]
    if n in ('rx.create', 'rx.core.observable.observable.Observable') or (short == 'create' and n.startswith('rx.')):
        fn = args[0] if args else kws.get('subscribe')
        return [(p, Host('observable', subscribe=fn))]
    if short == 'pipe' and n.startswith('rx.'):
        trusted('rx.pipe: left-to-right function composition')
        return [(p, Host('pipe', fns=list(args)))]
    if n.endswith('subject.Subject') or n.endswith('.Subject'):
        trusted('rx.subject.Subject: synchronous fan-out to subscribers in subscription order')
        k = p.ghost.get('n_subjects', 0); p.ghost['n_subjects'] = k + 1
        return [(p, Host('subject', chan=OUTER + 10 * k, name=f'subject{k}'))]
    if isinstance(getattr(h, 'obj', None), type) and issubclass(h.obj, tuple) and hasattr(h.obj, '_fields'):
        # namedtuple class defined by the repository (e.g. StateDef): a plain tuple of its fields
        fields = list(h.obj._fields)
        vals = dict(zip(fields, args)); vals.update(kws)
        return [(p, tuple(vals.get(f) for f in fields))]
    if n == 'rxsci.state.state_topology.StateTopology':
        return [(p, Host('topology', name='topology_new'))]
    if n.startswith('rx.core.operators.') or n.startswith('rx.operators.'):
        trusted(f'RxPY plain operator {short}: documented list semantics (assumed, DESIGN 3.4)')
        return [(p, Host('rxop', name=short, args=list(args), kws=dict(kws)))]
    if short == 'CompositeDisposable':
        return [(p, Host('disposable', items=list(args)))]
    if short == 'Disposable':
        return [(p, Host('disposable'))]
    if n == 'functools.partial':
        return [(p, Partial(args[0], args[1:], kws))]
    # ---- python builtins
    if n == 'builtins.isinstance':
        x, c = args
        if isinstance(c, tuple):
            rs_ = []
            for ci in c:
                (_, r), = call_builtin(world, eng, p, h, [x, ci], {})
                rs_.append(r)
            if any(r is True for r in rs_): return [(p, True)]
            sym = [r for r in rs_ if r is not False]
            return [(p, SBool(Or(*[r.t for r in sym])) if sym else False)]
        if isinstance(c, Host) and c.kind == 'builtin' and c.name.split('.')[-1] in ('MuxConnectableProxy', 'ConnectableObservable'):
            if isinstance(x, Host):
                return [(p, bool(getattr(x, 'is_connectable', False)))]
        if isinstance(c, EvClass):
            return [(p, isinstance(x, EventV) and x.kind == c.kind)]
        if isinstance(c, Host) and c.kind == 'builtin' and c.name == 'rxsci.mux.muxobservable.MuxObservable':
            if isinstance(x, Host) and x.kind in ('source', 'muxobservable', 'observable', 'connectable'):
                return [(p, bool(getattr(x, 'is_mux', x.kind == 'muxobservable')))]
        if isinstance(c, PyType):
            if isinstance(x, SVal) and c.name == 'int':
                return [(p, SBool(Or(V.is_VInt(x.t), V.is_VBool(x.t))))]          # bool is a subclass of int
            r = eng.type_is(p, SType(x), c) if isinstance(x, SVal) else static_isinstance(x, c.name)
            if r is None: raise Unsupported(f'isinstance({x!r}, {c})')
            return [(p, r if isinstance(r, bool) else SBool(r))]
        if isinstance(c, Host) and c.kind == 'builtin' and isinstance(getattr(c, 'obj', None), type) and c.obj.__module__ in ('builtins', 'collections', 'decimal', 'fractions', 'datetime', 'array'):
            # a builtin / stdlib class that is none of the value kinds modelled explicitly: only an opaque object can be an instance of it
            if isinstance(x, SVal):
                f = Function(f'isinstance_{c.obj.__name__}', Val, BoolSort())
                p.pc.append(Implies(f(x.t), V.is_VObj(x.t) if c.obj.__name__ not in ('frozenset', 'deque', 'list', 'dict', 'set') else Or(V.is_VObj(x.t), V.is_VRef(x.t))))
                return [(p, SBool(f(x.t)))]
            return [(p, False)]
        raise Unsupported(f'isinstance({x!r}, {c!r})')
    if n == 'builtins.type':
        x = args[0]
        if isinstance(x, EventV): return [(p, EvClass(x.kind, x.fields))]
        if isinstance(x, SVal): return [(p, SType(x))]
        if isinstance(x, Host) and x.kind == 'foreign': return [(p, PyType('foreign'))]
        if isinstance(x, Host) and x.kind == 'opaque': return [(p, PyType('opaque_object'))]
        if isinstance(x, Host) and x.kind in ('pipe', 'rxop'): return [(p, PyType('function'))]
        t = static_type(p, x)
        if t is None: raise Unsupported(f'type({x!r})')
        return [(p, PyType(t))]
    if n == 'builtins.callable':
        x = args[0]
        if isinstance(x, (Closure, UserFn, Partial, Bound)) or (isinstance(x, Host) and x.kind in ('builtin', 'pipe')) or isinstance(x, PyType):
            return [(p, True)]
        if isinstance(x, SVal):
            return [(p, SBool(is_callable(x.t)))]
        return [(p, False)]
    if n == 'builtins.len':
        return [(p, length_of(eng, p, args[0]))]
    if n == 'builtins.range':
        if len(args) != 1: raise Unsupported('range with start/step')
        a = args[0]
        return [(p, Host('range', n=a if isinstance(a, int) else eng.to_int(p, a)))]
    if n == 'builtins.enumerate':
        return [(p, Host('enumerate', it=args[0]))]
    if n == 'builtins.tuple':
        x = args[0]
        items = eng.concrete_items(p, x)
        if items is not None: return [(p, tuple(items))]
        if isinstance(x, Ref):
            c = p.heap[x.oid]
            if c[0] == 'slist': return [(p, SSeq(c[1], c[2]))]
        if isinstance(x, SSeq): return [(p, x)]
        if isinstance(x, Host) and x.kind == 'arrslice':
            from .heapmodels import arrslice_items
            its = arrslice_items(eng, x)
            if its is not None: return [(p, tuple(its))]
        raise Unsupported(f'tuple({x!r})')
    if n == 'builtins.list':
        if not args:
            return [(p, eng.new_list(p, []))]
        x = args[0]
        items = eng.concrete_items(p, x)
        if items is not None: return [(p, eng.new_list(p, items))]
        raise Unsupported(f'list({x!r})')
    if n == 'builtins.all':
        x = args[0]
        items = eng.concrete_items(p, x)
        if items is not None:
            cs = [eng.truth(p, i) for i in items]
            if any(c is False for c in cs): return [(p, False)]
            cs = [c for c in cs if c is not True]
            return [(p, SBool(And(*cs)) if cs else True)]
        from . import heapmodels
        return heapmodels.all_of(eng, p, x)
    if n == 'builtins.bool':
        c = eng.truth(p, args[0]); return [(p, c if isinstance(c, bool) else SBool(c))]
    if n == 'builtins.int':
        x = args[0]
        if isinstance(x, (int, SInt)): return [(p, x)]
        if isinstance(x, SBool): return [(p, SInt(If(x.t, 1, 0)))]
        from . import strmodels
        return strmodels.int_of(eng, p, x)
    if n == 'builtins.float':
        x = args[0]
        if isinstance(x, (int, SInt, SReal, float, SBool, bool)): return [(p, SReal(eng.to_real(p, x)))]
        from . import strmodels
        return strmodels.float_of(eng, p, x)
    if n == 'builtins.str':
        from . import strmodels
        return strmodels.str_of(eng, p, args[0])
    if n in ('builtins.min', 'builtins.max'):
        if len(args) == 2:
            a, b = args
            ints = (int, SInt)
            if isinstance(a, ints) and isinstance(b, ints):
                x, y = eng.to_int(p, a), eng.to_int(p, b)
                return [(p, SInt(If(x <= y, x, y) if short == 'min' else If(x >= y, x, y)))]
            x, y = eng.to_real(p, a), eng.to_real(p, b)
            # python returns the first argument on ties; as numbers they are equal
            return [(p, SReal(If(y < x, y, x) if short == 'min' else If(y > x, y, x)))]
        raise Unsupported(f'{short} arity')
    if n == 'copy.deepcopy':
        trusted('copy.deepcopy: returns an equal value reachable from no other reference')
        x = args[0]
        k = p.ghost.get('n_copies', 0); p.ghost['n_copies'] = k + 1
        if is_concrete(x) and not isinstance(x, tuple):
            r = x          # immutable scalar: a copy is indistinguishable
        elif isinstance(x, tuple) or isinstance(x, Ref):
            from . import heapmodels
            r = heapmodels.deepcopy(eng, p, x)
        else:
            r = SVal(copy_of(eng.to_val(p, x), IntVal(k)))
            p.pc.append(Not(V.is_VSent(r.t)))
        p.calls.append(('deepcopy', (x,), r))
        return [(p, r)]
    if n in ('collections.deque', 'builtins.set', 'array.array', 'io.BytesIO', '_io.BytesIO', 'builtins.dict'):
        from . import heapmodels
        return heapmodels.construct(eng, p, n, args, kws)
    if n == 'builtins.sum':
        from . import heapmodels
        return heapmodels.sum_of(eng, p, args[0])
    if n == 'builtins.sorted':
        from . import heapmodels
        return heapmodels.sorted_of(eng, p, args, kws)
    if n == 'builtins.zip' or n == 'builtins.getattr' or n == 'builtins.hasattr':
        raise Unsupported(n)
    if n.startswith('pyarrow') or n.startswith('zlib.') or n.startswith('zstandard.') or n.startswith('codecs.') or 'orjson' in n or n.startswith('json.') or n.startswith('_codecs') or n.startswith('zstd') or 'backend_c' in n:
        from . import libmodels
        return libmodels.call(world, eng, p, h, args, kws)
    if n == 'math.sqrt':
        trusted('math.sqrt: non-negative real square root')
        x = eng.to_real(p, args[0])
        eng.oblige(p, 'sqrt.domain', x >= 0, 'type')
        r = fresh('sqrt', z3.RealSort()); p.pc.append(And(r >= 0, r * r == x))
        return [(p, SReal(r))]
    if n.endswith('int.to_bytes') or n.endswith('int.from_bytes'):
        from . import strmodels
        return strmodels.int_bytes(eng, p, short, args, kws)
    raise Unsupported(f'builtin {n}')


def static_type(p, x):
    if x is None: return 'NoneType'
    if isinstance(x, bool) or isinstance(x, SBool): return 'bool'
    if isinstance(x, (int, SInt)): return 'int'
    if isinstance(x, (float, SReal)): return 'float'
    if isinstance(x, (str, SStr)): return 'str'
    if isinstance(x, (bytes, SBytes)): return 'bytes'
    if isinstance(x, tuple) or isinstance(x, SKey): return 'tuple'
    if isinstance(x, Closure) or isinstance(x, UserFn): return 'function'
    if isinstance(x, PyType): return 'type'
    if isinstance(x, Ref): return {'list': 'list', 'slist': 'list', 'deque': 'deque', 'set': 'set', 'dict': 'dict', 'arr': 'list', 'chunkfile': 'file', 'bytesio': 'BytesIO'}.get(p.heap[x.oid][0])
    return None


def static_isinstance(x, name):
    t = static_type(None, x) if not isinstance(x, Ref) else None
    if t is None: return None
    if name == 'int' and t == 'bool': return True
    return t == name


def length_of(eng, p, x):
    if isinstance(x, (tuple, str, bytes)): return len(x)
    if isinstance(x, SStr) or isinstance(x, SBytes) or isinstance(x, SSeq): return SInt(Length(x.t))
    if isinstance(x, Ref):
        c = p.heap[x.oid]
        if c[0] == 'list': return len(c[1])
        if c[0] in ('slist', 'deque'): return SInt(Length(c[1]))
        if c[0] == 'arr': return SInt(c[2])
        if c[0] == 'bytesio_buffer': return SInt(Length(c[1]))
    if isinstance(x, SVal):
        from . import heapmodels
        return heapmodels.len_dyn(eng, p, x)
    raise Unsupported(f'len({x!r})')


def call_type(world, eng, p, t, args, kws):
    h = Host('builtin', name=f'builtins.{t.name}')
    return call_builtin(world, eng, p, h, args, kws)


def call_bound(world, eng, p, f, args, kws):
    o, name = f.obj, f.name
    if isinstance(o, Ref):
        from . import heapmodels
        return heapmodels.method(eng, p, o, name, args, kws)
    if isinstance(o, (str, SStr, bytes, SBytes)):
        from . import strmodels
        return strmodels.method(eng, p, o, name, args, kws)
    if isinstance(o, Sentinel) and name == 'value':
        return [(p, o.k)]
    if isinstance(o, Host) and o.kind == 'opaque':
        from . import libmodels
        return libmodels.method(world, eng, p, o, name, args, kws)
    if isinstance(o, SVal):
        from . import heapmodels
        return heapmodels.dyn_method(eng, p, o, name, args, kws)
    if isinstance(o, (int, SInt)) and name == 'to_bytes':
        from . import strmodels
        return strmodels.int_bytes(eng, p, 'to_bytes', [o] + list(args), kws)
    raise Unsupported(f'method {name} of {o!r}')


def slice_of(world, eng, p, base, sl):
    _, lo, hi, step = sl
    if step is not None: raise Unsupported('slice step')
    if isinstance(base, tuple) and (lo is None or isinstance(lo, int)) and (hi is None or isinstance(hi, int)):
        return base[lo:hi]
    from . import heapmodels
    return heapmodels.slice_of(eng, p, base, lo, hi)


def heap_getitem(world, eng, p, base, idx):
    from . import heapmodels
    return heapmodels.getitem(eng, p, base, idx)


def heap_setitem(world, eng, p, base, idx, v):
    from . import heapmodels
    return heapmodels.setitem(eng, p, base, idx, v)


def seq_getitem(world, eng, p, base, idx):
    from . import heapmodels
    return heapmodels.seq_getitem(eng, p, base, idx)
