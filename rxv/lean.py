"""Glue lemmas over the contracts, checked by Lean 4 (core only, no Mathlib): DESIGN section 5."""
import os
import re
import subprocess
import time

HERE = os.path.dirname(os.path.dirname(os.path.abspath(__file__)))


def unit_lean(opts):
    t0 = time.time()
    obs = []; undec = []
    for name in opts.get('files', []):
        path = os.path.join(HERE, 'lemmas', name + '.lean')
        src = open(path).read()
        thms = re.findall(r'^\s*theorem\s+([A-Za-z0-9_\.]+)', src, re.M)
        sorry = len(re.findall(r'\bsorry\b|\badmit\b|\baxiom\b', src))
        try:
            r = subprocess.run(['lean', path], capture_output=True, text=True, timeout=300, env=dict(os.environ, LEAN_PATH=os.environ.get('LEAN_PATH', '')))
            ok = r.returncode == 0 and 'error' not in (r.stdout + r.stderr)
            msg = (r.stdout + r.stderr)[-600:]
        except Exception as ex:
            ok = False; msg = f'{type(ex).__name__}: {ex}'
        for t in thms:
            obs.append({'name': f'lean/{name}/{t}', 'result': 'proved' if (ok and sorry == 0) else 'unknown', 'backend': 'lean4', 'time': round((time.time() - t0) / max(1, len(thms)), 3), 'kind': 'lemma'})
        if not ok or sorry:
            undec.append({'where': f'lean/{name}', 'reason': f'lean did not accept the file ({sorry} sorry/axiom): {msg}'})
    return {'unit': 'lean:' + ','.join(opts.get('files', [])), 'kind': 'lean', 'functions': [], 'obligations': obs, 'undecided': undec, 'covers': [], 'violations': [],
            'trusted': ['Lean 4 kernel'], 'stats': {}}
