"""vcheck: run the check of one property (DESIGN section 6).

exit 0  property held on everything explored (KNOWN-FINDING lines allowed)
exit 1  violation: a line `VIOLATION property=<id> replay=<path>` per unlisted violation
exit 3  checker crash (never reported as a violation)
"""
import argparse
import hashlib
import json
import multiprocessing as mp
import os
import re
import sys
import time

HERE = os.path.dirname(os.path.dirname(os.path.abspath(__file__)))


def sanitize(s):
    return re.sub(r'[^A-Za-z0-9_.=-]+', '_', s)[:150]


def load_known():
    p = os.path.join(HERE, 'known_findings.json')
    if not os.path.exists(p):
        return {'findings': [], 'fixed': []}
    return json.load(open(p))


def main(argv=None):
    ap = argparse.ArgumentParser()
    ap.add_argument('prop')
    ap.add_argument('--tier', default=os.environ.get('VERIF_TIER', 'quick'), choices=['quick', 'thorough'])
    ap.add_argument('--jobs', type=int, default=min(16, os.cpu_count() or 4))
    ap.add_argument('--replay')
    ap.add_argument('--verbose', '-v', action='store_true')
    a = ap.parse_args(argv)
    seed = int(os.environ.get('VERIF_SEED', '0') or 0)
    t0 = time.time()
    sys.path.insert(0, HERE)
    from rxv import props, units
    if a.prop not in props.PROPS:
        print(f'unknown or unclaimed property {a.prop}', file=sys.stderr)
        return 3
    P = props.PROPS[a.prop]
    if a.replay:
        return replay_file(a, P, seed)
    specs = list(P['units']) + (list(P['thorough_extra']) if a.tier == 'thorough' else [])
    specs = [(k, m, n, dict(o, pid=a.prop, tier=a.tier, seed=seed, timeout_ms=(60000 if a.tier == 'thorough' else 10000)))
             for (k, m, n, o) in specs]
    ctx = mp.get_context('fork')
    with ctx.Pool(min(a.jobs, max(1, len(specs))), maxtasksperchild=1) as pool:   # a fresh z3 context per unit
        results = pool.map(units.run_unit, specs, chunksize=1)
    return finish(a, P, results, seed, t0)


def replay_file(a, P, seed):
    """./vcheck Cxx --replay <replay file>: re-decides the obligation (or re-runs the end-to-end case) named in the file against the
    CURRENT tree, with the counter-model replayed on the real code again.  Exit 1 + VIOLATION line if it still fails, 0 if it no longer
    does, 3 if the file cannot be related to a unit of this property.  Writes no evidence and touches no replay file."""
    from rxv import units
    path = a.replay if os.path.isabs(a.replay) else os.path.join(HERE, a.replay)
    try:
        doc = json.load(open(path))
    except Exception as ex:
        print(f'cannot read replay file {a.replay}: {ex}', file=sys.stderr); return 3
    want = doc.get('obligation', ''); unit = doc.get('unit')
    specs = [(k, m, n, dict(o, pid=a.prop, tier=a.tier, seed=seed, timeout_ms=10000)) for (k, m, n, o) in P['units']]
    ctx = mp.get_context('fork')
    with ctx.Pool(min(a.jobs, max(1, len(specs))), maxtasksperchild=1) as pool:
        results = pool.map(units.run_unit, specs, chunksize=1)
    hits = []; seen_unit = False
    for r in results:
        if r.get('unit') != unit: continue
        seen_unit = True
        if r.get('kind') == 'bounded':
            hits += [{'obligation': f'{r["unit"]}#{k}', 'replay': {'status': 'reproduced', 'failing_case': f}} for k, f in enumerate(r.get('failures', []))][:1]
        else:
            also = set(doc.get('other_failed_obligations_of_this_case', []))
            hits += [v for v in r.get('violations', []) if v['obligation'] == want or v['obligation'] in also]
    if not seen_unit:
        print(f'replay file names unit {unit!r}, which is not a unit of {a.prop}', file=sys.stderr); return 3
    if not hits:
        print(f'{a.prop}: {want} no longer fails on the current tree'); return 0
    for v in hits[:3]:
        print(f'   still fails: {v["obligation"]} ({(v.get("replay") or {}).get("status")})')
        rp = v.get('replay') or {}
        for k_ in ('event', 'pre_state', 'emitted', 'failed_clauses', 'failing_case', 'end_to_end'):
            if rp.get(k_) is not None: print(f'      {k_}: {str(rp[k_])[:400]}')
    suffix = '' if any((v.get('replay') or {}).get('status') == 'reproduced' for v in hits) else ' no-failing-input-found'
    print(f'VIOLATION property={a.prop} replay={a.replay}{suffix}')
    return 1


def finish(a, P, results, seed, t0):
    pid = a.prop
    known = load_known()
    crashes = [r for r in results if r.get('crash')]
    obligations = [dict(o, unit=r['unit']) for r in results for o in r.get('obligations', [])]
    undecided = [dict(u, unit=r['unit']) for r in results for u in r.get('undecided', [])]
    violations = [dict(v, unit=r['unit']) for r in results for v in r.get('violations', [])]
    bounded = [r for r in results if r.get('kind') == 'bounded']
    for r in bounded:          # a failing real input found by the bounded tier is a violation with a native replay
        for k, f in enumerate(r.get('failures', [])):
            # a failing case may carry a stable id (scenario + input) so that known_findings.json can name exactly that case
            violations.append({'obligation': f'{r["unit"]}#{f.get("case_id", k) if isinstance(f, dict) else k}', 'unit': r['unit'], 'model': None,
                               'replay': {'status': 'reproduced', 'kind': 'end-to-end input on the real code', 'failing_case': f}})
    trusted = sorted({t for r in results for t in r.get('trusted', [])})
    functions = [f for r in results for f in r.get('functions', [])]
    # known findings: match by property + obligation pattern
    kf = [k for k in known.get('findings', []) if k['property'] == pid]
    printed = set()
    unlisted = []
    for v in violations:
        hit = None
        for k in kf:
            if re.search(k['obligation_pattern'], v['obligation']):
                hit = k; break
        if hit is not None:
            if hit['id'] not in printed:
                print(f"KNOWN-FINDING: property={pid} {hit['what']}")
                printed.add(hit['id'])
            v['known'] = hit['id']
        else:
            unlisted.append(v)
    rc = 0
    rdir = os.path.join(HERE, 'replays', pid)
    os.makedirs(rdir, exist_ok=True)
    for old_f in os.listdir(rdir):          # replay files of earlier runs of this property are stale
        try: os.unlink(os.path.join(rdir, old_f))
        except OSError: pass
    # one VIOLATION line per (unit, handler case): the obligation whose counter-model reproduced natively is preferred; the other
    # failed obligations of the same case are listed inside its replay file
    groups = {}
    for v in unlisted:
        case = re.split(r'/path\d+|/loop\d+|/pre\.|/type\.|#', v['obligation'])[0]
        groups.setdefault((v['unit'], case), []).append(v)
    reported = []
    for (unit, case), vs in groups.items():
        vs.sort(key=lambda v: 0 if (v.get('replay') or {}).get('status') == 'reproduced' else 1)
        head = dict(vs[0]); head['also_failed'] = [x['obligation'] for x in vs[1:]]
        reported.append(head)
    for v in reported:
        rp = v.get('replay') or {}
        path = os.path.join('replays', pid, sanitize(v['obligation']) + '.json')
        doc = {'property': pid, 'obligation': v['obligation'], 'unit': v['unit'], 'verifier_output': v.get('model'),
               'replay': rp, 'tier': a.tier, 'other_failed_obligations_of_this_case': v.get('also_failed', [])}
        json.dump(doc, open(os.path.join(HERE, path), 'w'), indent=1, default=str)
        suffix = '' if rp.get('status') == 'reproduced' else ' no-failing-input-found'
        print(f'VIOLATION property={pid} replay={path}{suffix}')
        rc = 1
    for r in crashes:
        print(f'CHECKER-CRASH unit={r["unit"]}: {r["crash"]}', file=sys.stderr)
    cross = [r['crosscheck'] for r in results if r.get('crosscheck')]
    n_dis = sum(len(c['disagreements']) for c in cross)
    for r in results:
        for d in (r.get('crosscheck') or {}).get('disagreements', []):
            print(f'CHECKER-DISAGREEMENT unit={r["unit"]} path={d["path"]}: proved clauses are false on the real code: {d["replay"].get("failed_clauses")}', file=sys.stderr)
    n_ob = len(obligations)
    n_ok = sum(1 for o in obligations if o['result'] == 'proved')
    known_names = {v['obligation'] for v in violations if v.get('known')}
    n_known_ref = sum(1 for o in obligations if o['result'] == 'refuted' and o['name'] in known_names)
    # every obligation is either discharged or refuted by a listed known finding (reported as such), nothing undecided
    all_ok = (n_ob > 0 and n_ok + n_known_ref == n_ob and not undecided and not crashes)
    known_hit = sorted({v['known'] for v in violations if v.get('known')})
    # a listed known finding is a counterexample to the property as stated: the discharged obligations then hold under the stated assumptions
    # only, and the run must not be labelled a proof of the property
    proof = all_ok and P.get('level', 'proof') == 'proof' and not known_hit
    solver_time = round(sum(o.get('time', 0) for o in obligations), 3)
    by_backend = {}
    for o in obligations:
        by_backend[o.get('backend') or 'none'] = by_backend.get(o.get('backend') or 'none', 0) + 1
    samples = [o['name'] for o in obligations[:: max(1, n_ob // 12)]][:12] if obligations else []
    cov = {
        'obligations': n_ob, 'discharged': n_ok,
        'checker_cmd': f'./vcheck {pid} --tier {a.tier}',
        'trusted_base': trusted,
        'samples': samples,
        'functions_under_contract': functions,
        'by_backend': by_backend, 'solver_time_s': solver_time,
        'second_backend_recheck': ({k: sum(1 for o in obligations if o.get('recheck') == k) for k in ('agree', 'unknown', 'DISAGREE')}
                                   if any(o.get('recheck') for o in obligations) else None),
        'undecided': undecided[:50],
        'refuted': [{'obligation': v['obligation'], 'known': v.get('known'), 'replay_status': (v.get('replay') or {}).get('status')} for v in violations],
        'bounded': [{k: r.get(k) for k in ('unit', 'scope', 'evaluations', 'distinct_nontrivial', 'failures', 'exhaustive', 'wall_s')} for r in bounded],
        'vacuity_covers': sum(len(r.get('covers', [])) for r in results),
        'engine_vs_cpython_crosscheck': {'paths_checked': sum(c['paths_checked'] for c in cross), 'agree': sum(c['agree'] for c in cross),
                                         'disagreements': n_dis, 'skipped': sum(c['skipped'] for c in cross)} if cross else None,
        'units': [{'unit': r['unit'], 'kind': r.get('kind'), 'wall_s': r.get('wall_s'), 'stats': r.get('stats')} for r in results],
    }
    if not proof:
        cov['evaluations'] = max(1, n_ob + sum(r.get('evaluations', 0) for r in bounded))
        cov['distinct_nontrivial'] = max(2, n_ok)
        cov['rule'] = 'obligations generated from the AST of the functions under contract; distinct = distinct obligation names discharged'
        if all_ok and known_hit:
            kf_txt = '; '.join(f"{k['id']}: {k['what'][:220]}" for k in kf if k['id'] in known_hit)
            cov['explanation'] = ((P.get('level_why') + ' -- ' if P.get('level_why') else '') + f'{n_ok} of {n_ob} obligations generated from the contracts are discharged' + (f', the other {n_known_ref} are refuted and belong to a listed known finding' if n_known_ref else '') +
                                  ': the property does NOT hold for all inputs -- known finding(s) reproduced on this run '
                                  f'(listed in known_findings.json, outside the assumptions under which the contracts were written) -- {kf_txt}')
            cov['known_findings_reproduced'] = known_hit
        elif all_ok:
            cov['explanation'] = P.get('level_why', '') + f' -- deductive part: {n_ok}/{n_ob} obligations discharged; bounded part: see coverage.bounded'
        else:
            cov['explanation'] = ('not every obligation was discharged: ' +
                                  f'{n_ob - n_ok} open, {len(undecided)} undecided, {len(crashes)} crashed units; see undecided/refuted')
    ev = {
        'property_id': pid, 'tier': a.tier, 'seed': seed,
        'level': 'proof' if proof else 'other',
        'coverage': cov,
        'assumptions': P['assumptions'] + [f'trusted: {t}' for t in trusted],
        'wall_s': round(time.time() - t0, 2),
        'violations': len(unlisted),
    }
    os.makedirs(os.path.join(HERE, 'evidence'), exist_ok=True)
    json.dump(ev, open(os.path.join(HERE, 'evidence', f'{pid}.json'), 'w'), indent=1, default=str)
    shown = 0
    for o in obligations:
        if o['result'] != 'proved' and (a.verbose or shown < 12):
            print('  ', o['result'], o['name'], o.get('backend')); shown += 1
    for u in undecided[: (len(undecided) if a.verbose else 12)]:
        print('   UNDECIDED', u['where'], u['reason'][:300 if a.verbose else 120].replace('\n', ' '))
    print(f'{pid}: {n_ok}/{n_ob} obligations discharged, {len(undecided)} undecided, {len(violations)} refuted '
          f'({len(unlisted)} unlisted), {len(functions)} functions, {ev["wall_s"]}s')
    if (crashes or n_dis) and rc == 0:
        return 3
    return rc


if __name__ == '__main__':
    sys.exit(main())
