"""Operators defined as rx.pipe(...) of other rxsci operators (batch, distinct_until_changed, count, sum, mean, min, max, variance,
stddev, formal.*, to_list, to_array, identity, starmap ...).

The real factory is evaluated symbolically to a *pipeline term* (which operators, with which helper closures / seeds / flags);
obligations: (1) the term has the documented shape, (2) every in-repo helper closure handed to scan / filter / map meets its
contract (pure mappers and predicates, accumulators that only touch their first argument), with ghost histories so that the
per-step contract is the inductive form of the list semantics of C09 / C10 / C12.  The scan / filter / map operators themselves
are proved in scalar.py (mux) and plainops.py (plain); composition is lemma L2."""
from .base import *
from ..fnharness import FnCase, run_cases
from ..loops import InvLoop
from ..engine import Path
from z3 import Real, Reals, RealSort, ToReal, RealVal

X_ = Const('x', Val)


def eval_factory(eng, p, module, factory, args=(), kws=None):
    f = eng.world.closure_of(module, factory)
    res = eng.call(p, f, list(args), dict(kws or {}))
    assert len(res) == 1, 'factory forks'
    return res[0]


def pipe_parts(p, term):
    """-> list of (operator name, {closure variable: value}) for a pipe of scan/filter/map closures"""
    fns = term.fns if isinstance(term, Host) and term.kind == 'pipe' else [term]
    out = []
    for f in fns:
        if not isinstance(f, Closure):
            out.append((repr(f), {})); continue
        env = {}
        sc = f.scope
        for name, cid in sc.cells.items():
            if cid in p.cells:
                env[name] = p.cells[cid]
        out.append((f.qual, env))
    return out


class TermCase(FnCase):
    """the factory evaluates to the expected pipeline term"""
    internal_representation = True

    def __init__(self, name, module, factory, args, kws, expect):
        self.name = f'{name}/term'; self.module = module; self.factory = factory; self.args = args; self.kws = kws; self.expect = expect

    def setup(self, eng, p):
        self.eng = eng
        q, term = eval_factory(eng, p, self.module, self.factory, self.args, self.kws)
        self.parts = pipe_parts(q, term)
        self.path = q
        return Closure(ast_lambda_none(), None, self.module, 'noop'), [], {}

    def ensures(self, q, ret):
        return self.expect(self, q, self.parts)


def ast_lambda_none():
    import ast
    return ast.parse('lambda: None', mode='eval').body


def part_is(parts, i, qual_suffix):
    return len(parts) > i and parts[i][0].endswith(qual_suffix)


class HelperCase(FnCase):
    """one helper closure of a pipeline term against its contract"""
    internal_representation = True

    def __init__(self, name, module, factory, fargs, fkws, pick, args_fn, requires_fn, ensures_fn, loop_contracts=None, on_exc=None):
        self.name = name; self.module = module; self.factory = factory; self.fargs = fargs; self.fkws = fkws
        self.pick = pick; self.args_fn = args_fn; self.requires_fn = requires_fn; self.ensures_fn = ensures_fn
        self.loop_contracts = loop_contracts or {}; self.on_exc = on_exc

    def setup(self, eng, p):
        self.eng = eng
        q, term = eval_factory(eng, p, self.module, self.factory, self.fargs, self.fkws)
        parts = pipe_parts(q, term)
        fn = self.pick(parts)
        self.path = q
        q.calls = []
        args = self.args_fn(self, eng, q)
        self.heap0 = dict(q.heap)
        return fn, args, {}

    def requires(self):
        return self.requires_fn(self)

    def ensures(self, q, ret):
        return self.ensures_fn(self, q, ret)

    def on_exception(self, q):
        return self.on_exc(self, q) if self.on_exc else BoolVal(False)


def lst(eng, p, name, kind='val'):
    sort = {'val': ValSeq, 'real': SeqSort(RealSort())}[kind]
    t = Const(name, sort)
    return eng.new_obj(p, 'slist', ('slist', t, kind)), t


def content(q, ref):
    c = q.heap[ref.oid]
    if c[0] == 'list':
        from ..engine import Engine
        vals = [_to_val(x) for x in c[1]]
        return Empty(ValSeq) if not vals else (Unit(vals[0]) if len(vals) == 1 else Concat(*[Unit(v) for v in vals]))
    return c[1]


def _to_val(x):
    from ..engine import Engine
    return Engine(None).to_val(Path(), x)


def val_of(eng, q, v):
    return eng.to_val(q, v)


# ================================================================================================ batch (C10, C20)
def batch_cases():
    n = Int('batch_size')
    M, F = 'rxsci.data.batch', 'batch'
    fa = [SInt(n)]

    def term(self, q, parts):
        ok = len(parts) == 3 and part_is(parts, 0, 'scan.scan._scan') and part_is(parts, 1, 'filter.filter._filter') and part_is(parts, 2, 'map.map._map')
        if not ok:
            return [('shape', BoolVal(False))]
        env = parts[0][1]
        seed = env.get('seed')
        seed_ok = isinstance(seed, tuple) and len(seed) == 2 and isinstance(seed[0], Ref) and q.heap[seed[0].oid] == ('list', ()) and seed[1] is False
        return [('shape', BoolVal(True)), ('seed_is_empty_pending_batch', BoolVal(seed_ok)), ('streaming_scan', BoolVal(env.get('reduce') is False)),
                ('terminator_given', BoolVal(isinstance(env.get('terminator'), Closure)))]

    pend = Const('pend', ValSeq)       # ghost: items received since the last emitted batch
    b0 = Const('b0', ValSeq); f0 = Bool('f0')

    def inv(b, f, pend_):
        return Or(And(f, Length(pend_) == 0, Length(b) == n), And(Not(f), b == pend_, Length(pend_) < n))

    def args_batch(self, eng, q):
        self.b, _ = lst(eng, q, 'b0')
        return [(self.b, SBool(f0)), SVal(X_)]

    def ens_batch(self, q, ret):
        eng = self.eng
        ok = isinstance(ret, tuple) and len(ret) == 2 and isinstance(ret[0], Ref)
        if not ok:
            return [('returns_pair', BoolVal(False))]
        rb = content(q, ret[0]); rf = eng.as_z3_bool(ret[1] if isinstance(ret[1], bool) else ret[1].t)
        p1 = Concat(pend, Unit(X_))
        full = Length(p1) == n
        return [
            # a chunk is flagged for emission exactly with the item that fills it, and holds exactly the n items since the last one
            ('flag_iff_full', rf == full),
            ('chunk_is_items_since_last_emission', rb == p1),
            ('inv.preserved', inv(rb, rf, If(full, Empty(ValSeq), p1))),
            ('emitted_batch_not_mutated', Implies(f0, content(q, self.b) == b0)),
        ]

    def args_term(self, eng, q):
        self.b, _ = lst(eng, q, 'b0')
        return [(self.b, SBool(f0))]

    def ens_term(self, q, ret):
        eng = self.eng
        if not (isinstance(ret, tuple) and len(ret) == 2):
            return [('returns_pair', BoolVal(False))]
        rf = eng.as_z3_bool(ret[1] if isinstance(ret[1], bool) else ret[1].t)
        rb = content(q, ret[0]) if isinstance(ret[0], Ref) else None
        return [('final_batch_iff_pending_items', rf == (Length(pend) > 0)),       # no duplicate of an emitted batch, no empty batch
                ('final_batch_is_pending', Implies(Length(pend) > 0, rb == pend) if rb is not None else BoolVal(False))]

    def args_pair(self, eng, q):
        self.b, _ = lst(eng, q, 'b0')
        return [(self.b, SBool(f0))]

    req = lambda self: [n >= 1, inv(b0, f0, pend)]
    return [
        TermCase('batch', M, F, fa, {}, term),
        HelperCase('batch/_batch', M, F, fa, {}, lambda ps: ps[0][1]['accumulator'], args_batch, req, ens_batch),
        HelperCase('batch/_terminate', M, F, fa, {}, lambda ps: ps[0][1]['terminator'], args_term, req, ens_term),
        HelperCase('batch/filter_predicate', M, F, fa, {}, lambda ps: ps[1][1]['predicate'], args_pair, lambda self: [],
                   lambda self, q, ret: [('keeps_flagged_only', self.eng.as_z3_bool(self.eng.truth(q, ret)) == f0)]),
        HelperCase('batch/map_mapper', M, F, fa, {}, lambda ps: ps[2][1]['mapper'], args_pair, lambda self: [],
                   lambda self, q, ret: [('yields_the_batch', BoolVal(ret is self.b or (isinstance(ret, Ref) and ret.oid == self.b.oid)))]),
    ]


# ================================================================================================ distinct_until_changed (C10)
def duc_cases():
    M, F = 'rxsci.operators.distinct_until_changed', 'distinct_until_changed'
    out = []
    for km in (False, True):
        fa = [UserFn('key_mapper')] if km else [None]
        tag = 'key_mapper' if km else 'identity'
        e0, h0 = Bool('e0'), Bool('has0')
        it0, k0 = Consts('item0 key0', Val)
        key = (lambda x: ufn('key_mapper')(x)) if km else (lambda x: x)

        def term(self, q, parts):
            ok = len(parts) == 3 and part_is(parts, 0, 'scan.scan._scan') and part_is(parts, 1, 'filter.filter._filter') and part_is(parts, 2, 'map.map._map')
            if not ok:
                return [('shape', BoolVal(False))]
            seed = parts[0][1].get('seed')
            return [('shape', BoolVal(True)),
                    ('seed_marks_no_previous_item', BoolVal(isinstance(seed, tuple) and len(seed) == 4 and seed[0] is False and seed[3] is False)),
                    ('streaming_scan', BoolVal(parts[0][1].get('reduce') is False and parts[0][1].get('terminator') is None))]

        def args(self, eng, q):
            return [(SBool(e0), SVal(it0), SVal(k0), SBool(h0)), SVal(X_)]

        def ens(self, q, ret, key=key):
            eng = self.eng
            if not (isinstance(ret, tuple) and len(ret) == 4):
                return [('returns_state', BoolVal(False))]
            k = key(X_)
            emit = Or(Not(h0), Not(py_eq(k, k0)))      # first item of the key, or key differs (by !=) from the previous item's
            return [('emit_iff_first_or_changed', eng.as_z3_bool(ret[0] if isinstance(ret[0], bool) else ret[0].t) == emit),
                    ('carries_item', val_of(eng, q, ret[1]) == X_), ('remembers_key', val_of(eng, q, ret[2]) == k),
                    ('has_previous', eng.as_z3_bool(ret[3] if isinstance(ret[3], bool) else ret[3].t) == BoolVal(True))]

        def args4(self, eng, q):
            return [(SBool(e0), SVal(it0), SVal(k0), SBool(h0))]
        on_exc = (lambda self, q: BoolVal(isinstance(q.exc, ExcV) and q.exc.origin == 'key_mapper'))
        out += [
            TermCase(f'distinct_until_changed[{tag}]', M, F, fa, {}, term),
            HelperCase(f'distinct_until_changed[{tag}]/_distinct', M, F, fa, {}, lambda ps: ps[0][1]['accumulator'], args, lambda self: [], ens, on_exc=on_exc),
            HelperCase(f'distinct_until_changed[{tag}]/filter_predicate', M, F, fa, {}, lambda ps: ps[1][1]['predicate'], args4, lambda self: [],
                       lambda self, q, ret: [('keeps_flagged_only', self.eng.as_z3_bool(self.eng.truth(q, ret)) == e0)]),
            HelperCase(f'distinct_until_changed[{tag}]/map_mapper', M, F, fa, {}, lambda ps: ps[2][1]['mapper'], args4, lambda self: [],
                       lambda self, q, ret: [('yields_the_item', val_of(self.eng, q, ret) == it0)]),
        ]
    return out


# ================================================================================================ math aggregates (C12, C09)
def real_item():
    return SReal(V.r(X_))


def math_cases():
    out = []
    red = Bool('reduce')
    km_cfgs = [('default', {}), ('key_mapper', {'key_mapper': UserFn('key_mapper', ret='real')})]
    on_exc = (lambda self, q: BoolVal(isinstance(q.exc, ExcV) and q.exc.origin == 'key_mapper'))

    def kmv(tag):
        return V.r(ufn('key_mapper')(V.VReal(V.r(X_)))) if tag == 'key_mapper' else V.r(X_)

    def scan_term(expect_seed, nparts):
        def term(self, q, parts):
            ok = len(parts) == nparts and part_is(parts, 0, 'scan.scan._scan')
            if not ok:
                return [('shape', BoolVal(False))]
            env = parts[0][1]
            r = env.get('reduce')
            return [('shape', BoolVal(True)), ('seed', BoolVal(expect_seed(env.get('seed')))),
                    ('reduce_flag_passed_through', BoolVal(isinstance(r, SBool) and r.t.eq(red))), ('no_terminator', BoolVal(env.get('terminator') is None))]
        return term

    S = Real('S')            # ghost: exact sum of the mapped items so far
    for tag, kws in km_cfgs:
        kw = dict(kws, reduce=SBool(red))
        # ---- sum
        out += [TermCase(f'sum[{tag}]', 'rxsci.math.sum', 'sum', [], kw, scan_term(lambda s: s == 0.0 and isinstance(s, float), 1)),
                HelperCase(f'sum[{tag}]/accumulate', 'rxsci.math.sum', 'sum', [], kw, lambda ps: ps[0][1]['accumulator'],
                           lambda self, eng, q: [SReal(S), real_item()], lambda self: [],
                           lambda self, q, ret, tag=tag: [('sum_of_items', self.eng.to_real(q, ret) == S + kmv(tag))], on_exc=on_exc)]
        # ---- mean
        cnt = Int('count')
        out += [TermCase(f'mean[{tag}]', 'rxsci.math.mean', 'mean', [], kw, scan_term(lambda s: s == (0, 0), 2)),
                HelperCase(f'mean[{tag}]/accumulate', 'rxsci.math.mean', 'mean', [], kw, lambda ps: ps[0][1]['accumulator'],
                           lambda self, eng, q: [(SReal(S), SInt(cnt)), real_item()], lambda self: [cnt >= 0],
                           lambda self, q, ret, tag=tag: [('sum_and_count', And(BoolVal(isinstance(ret, tuple) and len(ret) == 2),
                                                                                 self.eng.to_real(q, ret[0]) == S + kmv(tag), self.eng.to_int(q, ret[1]) == cnt + 1))], on_exc=on_exc),
                HelperCase(f'mean[{tag}]/map_mapper', 'rxsci.math.mean', 'mean', [], kw, lambda ps: ps[1][1]['mapper'],
                           lambda self, eng, q: [(SReal(S), SInt(cnt))], lambda self: [cnt >= 1],
                           lambda self, q, ret: [('mean_is_sum_over_count', self.eng.to_real(q, ret) == S / ToReal(cnt))])]
        # ---- min / max
        for nm, better in (('min', lambda a, b: a < b), ('max', lambda a, b: a > b)):
            cur = Real('cur'); has = Bool('has_cur')
            def args_mm(self, eng, q):
                return [SVal(If(has, V.VReal(cur), V.VNone)), real_item()]
            def ens_mm(self, q, ret, tag=tag, better=better):
                x = kmv(tag)
                exp = If(Or(Not(has), better(x, cur)), x, cur)
                return [('extremum_of_items_so_far', self.eng.to_real(q, ret) == exp)]
            out += [TermCase(f'{nm}[{tag}]', f'rxsci.math.{nm}', nm, [], kw, scan_term(lambda s: s is None, 1)),
                    HelperCase(f'{nm}[{tag}]/accumulate', f'rxsci.math.{nm}', nm, [], kw, lambda ps: ps[0][1]['accumulator'], args_mm, lambda self: [], ens_mm, on_exc=on_exc)]
        # ---- variance (Welford).  ghost: k items, S1 = sum x, S2 = sum x^2 ;  m = S1/k,  s = S2 - S1^2/k  (sum of squared deviations)
        k = Int('k'); S1, S2, m, s = Reals('S1 S2 m s')
        def args_var(self, eng, q):
            return [(SVal(If(k == 0, V.VNone, V.VReal(m))), SReal(s), SInt(k)), real_item()]
        def req_var(self):
            return [k >= 0, Implies(k == 0, And(s == 0, S1 == 0, S2 == 0)), Implies(k >= 1, And(m * ToReal(k) == S1, s == S2 - S1 * S1 / ToReal(k)))]
        def ens_var(self, q, ret, tag=tag):
            x = kmv(tag)
            if not (isinstance(ret, tuple) and len(ret) == 3):
                return [('returns_state', BoolVal(False))]
            m1, s1, k1 = self.eng.to_real(q, ret[0]), self.eng.to_real(q, ret[1]), self.eng.to_int(q, ret[2])
            kk = ToReal(k + 1)
            return [('count', k1 == k + 1), ('mean_exact', m1 * kk == S1 + x),
                    ('sum_of_squared_deviations_exact', s1 == (S2 + x * x) - (S1 + x) * (S1 + x) / kk)]
        out += [TermCase(f'variance[{tag}]', 'rxsci.math.variance', 'variance', [], kw, scan_term(lambda sd: isinstance(sd, tuple) and sd == (None, 0, 0), 2)),
                HelperCase(f'variance[{tag}]/accumulate', 'rxsci.math.variance', 'variance', [], kw, lambda ps: ps[0][1]['accumulator'], args_var, req_var, ens_var, on_exc=on_exc),
                HelperCase(f'variance[{tag}]/map_mapper', 'rxsci.math.variance', 'variance', [], kw, lambda ps: ps[1][1]['mapper'],
                           lambda self, eng, q: [(SVal(If(k == 0, V.VNone, V.VReal(m))), SReal(s), SInt(k))], lambda self: [k >= 0],
                           lambda self, q, ret: [('sample_variance_or_zero', self.eng.to_real(q, ret) == If(k < 2, RealVal(0), s / ToReal(k - 1)))])]
    # ---- count
    c0 = Int('c0')
    out += [TermCase('count', 'rxsci.operators.count', 'count', [], {'reduce': SBool(red)},
                     lambda self, q, parts: [('is_scan', BoolVal(len(parts) == 1 and part_is(parts, 0, 'scan.scan._scan'))),
                                             ('seed_zero', BoolVal(parts[0][1].get('seed') == 0 and isinstance(parts[0][1].get('seed'), int))),
                                             ('reduce_flag_passed_through', BoolVal(isinstance(parts[0][1].get('reduce'), SBool) and parts[0][1]['reduce'].t.eq(red)))]),
            HelperCase('count/accumulator', 'rxsci.operators.count', 'count', [], {'reduce': SBool(red)}, lambda ps: ps[0][1]['accumulator'],
                       lambda self, eng, q: [SInt(c0), SVal(X_)], lambda self: [],
                       lambda self, q, ret: [('counts_items', self.eng.to_int(q, ret) == c0 + 1)])]
    return out


# ================================================================================================ formal variance (C12)
powmap = Function('powmap', SeqSort(RealSort()), RealSort(), IntSort(), SeqSort(RealSort()))   # [(x-c)**n for x in xs]
seqsum = Function('seqsum', SeqSort(RealSort()), RealSort())


def formal_cases():
    out = []
    red = Bool('reduce')
    RS = SeqSort(RealSort())
    xs = Const('xs', RS); c = Real('c')
    MOM = 'rxsci.math.formal'
    for n in (1, 2):
        def inv(L, q, j, n=n):
            mref = q.cells[L.extra['m_cid']]
            return [('m_is_powers_of_prefix', q.heap[mref.oid][1] == powmap(SubSeq(xs, 0, j), c, IntVal(n))),
                    ('x_untouched', q.heap[L.extra['x_oid']][1] == xs)]
        def lemmas(L, q, j, n=n):
            e = xs[j] - c
            pw = e if n == 1 else e * e
            return [powmap(SubSeq(xs, 0, 0), c, IntVal(n)) == Empty(RS),
                    Implies(And(j >= 0, j < Length(xs)), powmap(SubSeq(xs, 0, j + 1), c, IntVal(n)) == Concat(powmap(SubSeq(xs, 0, j), c, IntVal(n)), Unit(pw))),
                    SubSeq(xs, 0, Length(xs)) == xs]
        lc = InvLoop(inv, modifies=('heap', 'locals'), lemmas=lemmas); lc.list_kinds = {'m': 'real'}

        class MomentCase(FnCase):
            name = f'formal._moment[n={n}]'
            loop_contracts = {(f'{MOM}._moment', 0): lc}
            def setup(self, eng, p, n=n, lc=lc):
                self.eng = eng
                f = eng.world.closure_of(MOM, '_moment')
                self.x = eng.new_obj(p, 'slist', ('slist', xs, 'real'))
                lc.extra['x_oid'] = self.x.oid
                # the loop contract needs the cell of the local `m`: resolved lazily through the frame scope
                orig = lc.inv
                def inv2(L, q, j):
                    if 'm_cid' not in L.extra:
                        L.extra['m_cid'] = L.scope_lookup('m')
                    return orig(L, q, j)
                lc.inv = inv2
                return f, [self.x, SReal(c), n], {}
            def requires(self, n=n):
                return [powmap(SubSeq(xs, 0, 0), c, IntVal(n)) == Empty(RS), SubSeq(xs, 0, Length(xs)) == xs]
            def ensures(self, q, ret, n=n):
                out = [('argument_not_mutated', q.heap[self.x.oid][1] == xs)]
                if ret is None:
                    out.append(('none_only_when_empty', Length(xs) == 0))
                else:
                    out.append(('moment', And(Length(xs) > 0, self.eng.to_real(q, ret) == seqsum(powmap(xs, c, IntVal(n))) / ToReal(Length(xs)))))
                return out
        out.append(MomentCase())
    # ---- variance term + helpers
    on_exc = (lambda self, q: BoolVal(isinstance(q.exc, ExcV) and q.exc.origin == 'key_mapper'))
    kw = {'reduce': SBool(red)}
    M, F = 'rxsci.math.formal.variance', 'variance'
    def term(self, q, parts):
        ok = len(parts) == 2 and part_is(parts, 0, 'scan.scan._scan') and part_is(parts, 1, 'map.map._map')
        if not ok:
            return [('shape', BoolVal(False))]
        env = parts[0][1]; seed = env.get('seed')
        return [('shape', BoolVal(True)), ('seed_is_empty_list', BoolVal(isinstance(seed, Ref) and q.heap[seed.oid] == ('list', ()))),
                ('reduce_flag_passed_through', BoolVal(isinstance(env.get('reduce'), SBool) and env['reduce'].t.eq(red)))]
    def args_acc(self, eng, q):
        self.l = eng.new_obj(q, 'slist', ('slist', xs, 'real'))
        return [self.l, real_item()]
    def ens_acc(self, q, ret):
        return [('returns_same_list', BoolVal(isinstance(ret, Ref) and ret.oid == self.l.oid)),
                ('appends_the_item', q.heap[self.l.oid][1] == Concat(xs, Unit(V.r(X_))))]
    moment = Function('moment', RS, RealSort(), IntSort(), RealSort())
    def moment_contract(eng, p, f, args, kws):
        # callee contract of _moment (proved above): pure; returns seqsum(powmap(x, c, n)) / len(x) for non-empty x
        x, cc, nn = args
        seq = p.heap[x.oid][1]
        p.calls.append(('_moment', (seq, eng.to_real(p, cc), nn)))
        q = p.fork()
        q.pc.append(Length(seq) == 0); p.pc.append(Length(seq) > 0)
        out = []
        if eng.feasible(q.pc): out.append((q, None))
        if eng.feasible(p.pc): out.append((p, SReal(seqsum(powmap(seq, eng.to_real(p, cc), IntVal(nn))) / ToReal(Length(seq)))))
        return out
    def args_var(self, eng, q):
        self.l = eng.new_obj(q, 'slist', ('slist', xs, 'real'))
        return [self.l]
    def ens_var(self, q, ret):
        mean = seqsum(powmap(xs, RealVal(0), IntVal(1))) / ToReal(Length(xs))
        return [
            # C12 "mapper purity": the list handed to the mapper IS the scan state of the key -- it must not be modified
            ('argument_not_mutated', q.heap[self.l.oid][1] == xs),
            ('population_variance', self.eng.to_real(q, ret) == If(Length(xs) == 0, RealVal(0), seqsum(powmap(xs, mean, IntVal(2))) / ToReal(Length(xs)))),
        ]
    hv = HelperCase('formal.variance/_variance', M, F, [], kw, lambda ps: ps[1][1]['mapper'], args_var, lambda self: [], ens_var)
    hv.callee_contracts = {f'{MOM}._moment': moment_contract}
    out += [TermCase('formal.variance', M, F, [], kw, term),
            HelperCase('formal.variance/accumulate', M, F, [], kw, lambda ps: ps[0][1]['accumulator'], args_acc, lambda self: [], ens_acc, on_exc=on_exc),
            hv]
    return out


# ================================================================================================ to_list / to_array / identity / starmap
def misc_cases():
    out = []
    xs = Const('xs', ValSeq)
    def args_push(self, eng, q):
        self.l = eng.new_obj(q, 'slist', ('slist', xs, 'val'))
        return [self.l, SVal(X_)]
    def ens_push(self, q, ret):
        return [('returns_same_list', BoolVal(isinstance(ret, Ref) and ret.oid == self.l.oid)), ('appends_the_item', q.heap[self.l.oid][1] == Concat(xs, Unit(X_)))]
    def tl_term(self, q, parts):
        ok = len(parts) == 1 and part_is(parts, 0, 'scan.scan._scan')
        env = parts[0][1] if ok else {}
        return [('is_reducing_scan', BoolVal(ok and env.get('reduce') is True and env.get('terminator') is None)),
                ('seed_is_a_factory', BoolVal(ok and isinstance(env.get('seed'), (PyType, Closure))))]
    out += [TermCase('to_list_mux', 'rxsci.data.to_list', 'to_list_mux', [], {}, tl_term),
            HelperCase('to_list_mux/push_to_list', 'rxsci.data.to_list', 'to_list_mux', [], {}, lambda ps: ps[0][1]['accumulator'], args_push, lambda self: [], ens_push)]
    # identity
    out += [TermCase('identity', 'rxsci.operators.identity', 'identity', [], {},
                     lambda self, q, parts: [('is_map', BoolVal(len(parts) == 1 and part_is(parts, 0, 'map.map._map')))]),
            HelperCase('identity/mapper', 'rxsci.operators.identity', 'identity', [], {}, lambda ps: ps[0][1]['mapper'],
                       lambda self, eng, q: [SVal(X_)], lambda self: [], lambda self, q, ret: [('returns_item', val_of(self.eng, q, ret) == X_)])]
    # starmap: map(lambda i: mapper(*i))
    a, b = Consts('sa sb', Val)
    out += [HelperCase('starmap/mapper', 'rxsci.operators.starmap', 'starmap', [UserFn('mapper')], {}, lambda ps: ps[0][1]['mapper'],
                       lambda self, eng, q: [(SVal(a), SVal(b))], lambda self: [],
                       lambda self, q, ret: [('applies_mapper_to_unpacked_item', val_of(self.eng, q, ret) == ufn('mapper', 2)(a, b))],
                       on_exc=lambda self, q: BoolVal(isinstance(q.exc, ExcV) and q.exc.origin == 'mapper'))]
    # progress: scan(_progress, seed=None) ; map(lambda i: i[0]) -- the accumulator passes the item through, from the very first item
    thr = Int('threshold'); cnt = Int('pg_counter'); cd = Int('pg_countdown'); prev = Const('pg_prev', Val)
    pg_args = [SStr(z3.String('pg_name')), SInt(thr)]
    def pg_first(self, eng, q): return [None, SVal(X_)]
    def pg_later(self, eng, q): return [(SVal(Const('pg_item0', Val)), SInt(cnt), SInt(cd), SVal(prev)), SVal(X_)]
    def pg_ens(first):
        def ens(self, q, ret):
            ok = isinstance(ret, tuple) and len(ret) == 4
            c0 = IntVal(0) if first else cnt
            return [('state_has_four_fields', BoolVal(ok)),
                    ('item_passed_through', (val_of(self.eng, q, ret[0]) == X_) if ok else BoolVal(False)),
                    ('counts_the_item', (self.eng.to_int(q, ret[1]) == c0 + 1) if ok else BoolVal(False))]
        return ens
    for tag, argf, first in (('first_item', pg_first, True), ('later_item', pg_later, False)):
        out.append(HelperCase(f'progress/_progress[{tag}]', 'rxsci.operators.progress', 'progress', pg_args, {'measure_throughput': False},
                              lambda ps: ps[0][1]['accumulator'], argf, lambda self: [thr >= 1], pg_ens(first)))
    out.append(HelperCase('progress/map_mapper', 'rxsci.operators.progress', 'progress', pg_args, {'measure_throughput': False}, lambda ps: ps[1][1]['mapper'],
                          lambda self, eng, q: [(SVal(X_), SInt(cnt), SInt(cd), SVal(prev))], lambda self: [],
                          lambda self, q, ret: [('emits_the_item', val_of(self.eng, q, ret) == X_)]))
    return out


def unit_helpers(opts):
    which = opts.get('which', 'all')
    groups = {'batch': batch_cases, 'distinct_until_changed': duc_cases, 'math': math_cases, 'formal': formal_cases, 'misc': misc_cases}
    cases = []
    for k, f in groups.items():
        if which in ('all', k):
            cases += f()
    return run_cases(f'helpers.{which}', cases, opts)


# ---------------------------------------------------------------- end-to-end confirmation of helper refutations (real operators, small scopes)
_E2E_CACHE = {}


def _e2e(group):
    def run():
        if group in _E2E_CACHE:
            return _E2E_CACHE[group]
        import itertools
        import rxsci as rs
        from ..specs import run_mux, run_plain, batch_spec, distinct_until_changed_spec
        found = None
        if group == 'batch':
            for n in (1, 2, 3):
                for L in range(0, 8):
                    items = list(range(L))
                    for mode, run_ in (('mux', run_mux), ('plain', run_plain)):
                        got = run_(items, rs.data.batch(n))
                        if got != batch_spec(items, n) and not found:
                            found = {'pipeline': f'batch({n}) [{mode}]', 'input': items, 'expected': batch_spec(items, n), 'got': got}
        elif group == 'distinct_until_changed':
            for L in range(0, 5):
                for items in itertools.product((0, 1, None, (1,), 'big'), repeat=L):
                    items = [(int('1' + '0' * 20) if x == 'big' else x) for x in items]       # equal-but-not-identical big ints
                    for key in (None, lambda i: i if not isinstance(i, tuple) else i[0]):
                        got = run_mux(items, rs.ops.distinct_until_changed(key))
                        exp = distinct_until_changed_spec(items, key or (lambda i: i))
                        if got != exp and not found:
                            found = {'pipeline': f'distinct_until_changed({"key_mapper" if key else ""})', 'input': items, 'expected': exp, 'got': got}
        elif group in ('math', 'formal'):
            from ..bounded.mux import check_c12
            r = check_c12({'tier': 'quick', 'seed': 0})
            from ..bounded.mux import first_new_failure
            found = first_new_failure(r)
        elif group == 'misc':
            got = run_mux([1, 2, 3], rs.data.to_list())
            if got != [[1, 2, 3]]: found = {'pipeline': 'to_list', 'input': [1, 2, 3], 'expected': [[1, 2, 3]], 'got': got}
            got = run_mux([(1, 2), (3, 4)], rs.ops.starmap(lambda a, b: a + b))
            if got != [3, 7] and not found: found = {'pipeline': 'starmap(add)', 'input': [(1, 2), (3, 4)], 'expected': [3, 7], 'got': got}
            for mode, run_ in (('mux', run_mux), ('plain', run_plain)):
                got = run_([5, 6, 7], rs.ops.progress('helpers', 2, measure_throughput=False))
                if got != [5, 6, 7] and not found: found = {'pipeline': f'progress(threshold=2) [{mode}]', 'input': [5, 6, 7], 'expected': [5, 6, 7], 'got': got}
        _E2E_CACHE[group] = found
        return found
    return run


_orig_unit_helpers = unit_helpers


def unit_helpers(opts):
    which = opts.get('which', 'all')
    groups = {'batch': batch_cases, 'distinct_until_changed': duc_cases, 'math': math_cases, 'formal': formal_cases, 'misc': misc_cases}
    cases = []
    for k, f in groups.items():
        if which in ('all', k):
            cs = f()
            for c in cs:
                if getattr(c, 'internal_representation', False):
                    c.e2e = _e2e(k)
            cases += cs
    return run_cases(f'helpers.{which}', cases, opts)
