"""C05: roll.  The slot ring of `_roll` is verified with symbolic window / stride / density (DESIGN R5):

nonlinear terms of the real code (x % stride, x // stride, (..) % density, key*density) are abstracted into the
uninterpreted functions umod / udiv / umul while the handler is executed; what the proof needs about them is a small set of
arithmetic lemmas, each discharged separately in pure nonlinear integer arithmetic against the real operators and the real
`density` computation of roll_mux (obligations `arith/...`)."""
import ast
from .base import *
from .spawners import Spawner, inner
from ..loops import InvLoop
from ..engine import Path
from z3 import is_int_value

umod = Function('umod', IntSort(), IntSort(), IntSort())
udiv = Function('udiv', IntSort(), IntSort(), IntSort())
umul = Function('umul', IntSort(), IntSort(), IntSort())
w, s, D = Ints('window stride density')
HQ = 'rxsci.data.roll.roll_mux._roll.subscribe.on_next'
HQC = 'rxsci.data.roll.roll_mux._roll_count.subscribe.on_next'


def mods(x): return umod(x, s)
def divs(x): return udiv(x, s)
def cellof(a): return umod(udiv(a, s), D)


def arith_hook(eng, p, op, l, r):
    def sym(v): return isinstance(v, SInt) and not is_int_value(z3.simplify(v.t))
    if isinstance(op, (ast.Mod, ast.FloorDiv)) and sym(r) and isinstance(l, (SInt, int)):
        f = umod if isinstance(op, ast.Mod) else udiv
        return SInt(f(eng.to_int(p, l), r.t))
    if isinstance(op, ast.Mult) and sym(l) and sym(r):
        return SInt(umul(l.t, r.t))
    return None


def lemmas_abstract():
    """the arithmetic facts, over the abstraction -- hypotheses of the handler VCs"""
    a, b, t1, t2, p_, q_, x, n = Ints('la lb lt1 lt2 lp lq lx ln')
    Q = lambda n_: udiv(n_ + s - 1, s)
    opn = lambda a_, n_: And(0 <= a_, a_ < n_, mods(a_) == 0, a_ + w > n_)
    return {
        'mul_nonneg': ForAll([p_], Implies(p_ >= 0, umul(p_, D) >= 0), patterns=[umul(p_, D)]),
        'range': ForAll([x], And(0 <= umod(x, D), umod(x, D) < D), patterns=[umod(x, D)]),
        'apart': ForAll([a, b], Implies(And(mods(a) == 0, mods(b) == 0, 0 <= a, a < b, cellof(a) == cellof(b)), b - a >= w)),
        'disjoint': ForAll([p_, q_], Implies(p_ != q_, Or(umul(p_, D) - umul(q_, D) >= D, umul(q_, D) - umul(p_, D) >= D)), patterns=[z3.MultiPattern(umul(p_, D), umul(q_, D))]),
        'cyclic_injective': ForAll([t1, t2], Implies(And(t1 < t2, t2 - t1 < D), umod(t1, D) != umod(t2, D)), patterns=[z3.MultiPattern(umod(t1, D), umod(t2, D))]),
        'flush_visits_open': ForAll([n, a], Implies(And(n >= 0, opn(a, n)),
                                                    And(0 <= divs(a) - Q(n) + D, divs(a) - Q(n) + D < D, umod(Q(n) + (divs(a) - Q(n) + D), D) == cellof(a)))),
        'flush_order': ForAll([n, a, b, t1, t2], Implies(And(n >= 0, opn(a, n), opn(b, n), 0 <= t1, t1 < t2, t2 < D, cellof(a) == umod(Q(n) + t1, D),
                                                             cellof(b) == umod(Q(n) + t2, D)), a < b)),
    }


def lemmas_real(dens):
    """the same facts with the real operators: the obligations `arith/...`"""
    a, b, t1, t2, p_, q_, x, n = Ints('la lb lt1 lt2 lp lq lx ln')
    cell = lambda a_: (a_ / s) % D
    Q = (n + s - 1) / s
    opn = lambda a_: And(0 <= a_, a_ < n, a_ % s == 0, a_ + w > n)
    return {
        'mul_nonneg': (dens + [p_ >= 0], p_ * D >= 0),
        'range': (dens, And(0 <= x % D, x % D < D)),
        'apart': (dens + [a % s == 0, b % s == 0, 0 <= a, a < b, cell(a) == cell(b)], b - a >= w),
        'disjoint': (dens + [p_ != q_], Or(p_ * D - q_ * D >= D, q_ * D - p_ * D >= D)),
        'cyclic_injective': (dens + [t1 < t2, t2 - t1 < D], t1 % D != t2 % D),
        'flush_visits_open': (dens + [n >= 0, opn(a)], And(0 <= a / s - Q + D, a / s - Q + D < D, (Q + (a / s - Q + D)) % D == cell(a))),
        # flush_order, split into fast and stable steps (a single NIA query took 1-7 s and was load-sensitive):
        'flush_order.window_range': (dens + [n >= 0, opn(a)], And(Q - D <= a / s, a / s < Q)),
        'flush_order.plus_density': (dens, (x + D) % D == x % D),
        'flush_order': (dens + [n >= 0, opn(a), opn(b), 0 <= t1, t1 < t2, t2 < D, cell(a) == (Q + t1) % D, cell(b) == (Q + t2) % D,
                                # instances of the three facts above and of cyclic_injective
                                And(Q - D <= a / s, a / s < Q), And(Q - D <= b / s, b / s < Q), (a / s + D) % D == (a / s) % D, (b / s + D) % D == (b / s) % D]
                        + [Implies(And(u < v, v - u < D), u % D != v % D) for (u, v) in ((Q + t1, a / s + D), (a / s + D, Q + t1), (Q + t2, b / s + D), (b / s + D, Q + t2))],
                        a < b),
    }


# names of the pre-state symbols created by the harness
K_ = Const('k', Key); X_ = Const('x', Val); K0_ = Key.h(K_)
mN, vN = Array('m0', IntSort(), IntSort()), Array('v0', IntSort(), Val)
mW, vW = Array('m1', IntSort(), IntSort()), Array('v1', IntSort(), Val)
T0 = Const('trace0', Trace)
BASE = umul(K0_, D)
N_ = V.i(Select(vN, K0_))


def cell(vw, o): return V.i(Select(vw, BASE + o))
def ikey(o): return Key.KK(BASE + o, K_)


def ring_inv(vw, n):
    o, a = Ints('ro ra')
    sound = ForAll([o], Implies(And(0 <= o, o < D), Or(cell(vw, o) == -1,
                   And(cell(vw, o) >= 0, cell(vw, o) < n, mods(cell(vw, o)) == 0, cellof(cell(vw, o)) == o, cell(vw, o) + w > n))))
    complete = ForAll([a], Implies(And(a >= 0, a < n, mods(a) == 0, a + w > n), cell(vw, cellof(a)) == a))
    return sound, complete


rollF = Function('rollF', IntSort(), Trace)      # emissions of the delivery loop of one Next call, cells 0..j-1
rollG = Function('rollG', IntSort(), Trace)      # emissions of the flush loop, steps 0..j-1


class RollMux(Spawner):
    name = 'roll_mux'; module = 'rxsci.data.roll'; factory = 'roll_mux'
    properties = ('C05', 'C02', 'C03', 'C11')
    arith_hook = staticmethod(arith_hook)
    drop_build_pc = True        # the factory's path condition (real `window % stride`) is only needed by the arith/ lemmas

    def __init__(self):
        import ast

        def calls(node):
            out = set()
            for n_ in ast.walk(node):
                if isinstance(n_, ast.Call):
                    f_ = n_.func
                    out.add(f_.attr if isinstance(f_, ast.Attribute) else getattr(f_, 'id', ''))
            return out

        def shape(pred):
            return lambda fn, node: fn.startswith('rxsci.data.roll.roll_mux._roll.') and fn != HQ and isinstance(node, ast.For) and pred(calls(node))
        nxt = InvLoop(self.next_inv, modifies=('store', 'trace', 'locals'), lemmas=self.next_lemmas)
        cre = InvLoop(self.create_inv, modifies=('store',))
        flu = InvLoop(self.flush_inv, modifies=('store', 'trace', 'locals'), lemmas=self.flush_lemmas)
        self.loop_contracts = {
            (HQ, 0): nxt, (HQ, 1): cre, (HQ, 2): flu,
            # the same loops when a refactoring moved them into a local helper of _roll (recognised by what their body calls):
            # delivery loop: completes full windows; creation loop: add_key; flush loop: set_state without a completion event built here
            ('match', shape(lambda c: 'OnCompletedMux' in c and 'get_state' in c)): nxt,
            ('match', shape(lambda c: 'add_key' in c and 'get_state' not in c)): cre,
            ('match', shape(lambda c: 'set_state' in c and 'get_state' in c and 'OnCompletedMux' not in c and 'add_key' not in c)): flu,
        }

    def configs(self):
        yield {'name': 'window,stride', 'args': [SInt(w), SInt(s)], 'kws': {}, 'symbols': {}, 'assume': [w >= 1, s >= 1]}

    def states_decl_for(self, c):
        return [('uint', 0), ('int', -1)]

    def accept_build(self, pb, handlers):
        h = handlers.get('on_next')
        return isinstance(h, Closure) and '._roll.' in h.qual

    def post_build(self, eng, pb, handlers, cfg):
        h = handlers['on_next']
        cid = h.scope.lookup('density')
        old = pb.cells[cid]
        dterm = eng.to_int(pb, old)
        pb.cells[cid] = SInt(D)
        dens = [w >= 1, s >= 1, D >= 1, D * s >= w, (D - 1) * s < w]
        obs = [('arith/density.is_ceil_of_window_over_stride', list(pb.pc) + [D == dterm], And(*dens))]
        for name, (hyps, goal) in lemmas_real(dens).items():
            obs.append((f'arith/{name}', hyps, goal))
        return obs

    # ------------------------------------------------------------------ requires
    def requires(self, c):
        r = [c.k0 >= 0, w >= 1, s >= 1, D >= 1]
        if c.case in ('Next', 'Completed'):
            o = Int('qo')
            snd, cmp_ = ring_inv(vW, N_)
            r += [Select(mN, K0_) == M_SET, N_ >= 0, ForAll([o], Implies(And(0 <= o, o < D), Select(mW, BASE + o) == M_SET)), snd, cmp_]
        if c.case == 'Next':
            r += [rollF(IntVal(0)) == Empty(Trace)]
        if c.case == 'Completed':
            r += [rollG(IntVal(0)) == Empty(Trace)]
        return r

    def lemmas(self, c):
        return lemmas_abstract()

    def refute_instances(self, c):
        """R4: a failing VC is looked for on concrete (window, stride) pairs with the real operators put back"""
        from z3 import Var
        a, b = Var(0, IntSort()), Var(1, IntSort())
        funs = [(umod, a % b), (udiv, a / b), (umul, a * b)]
        out = []
        for (wv, sv) in ((5, 2), (3, 2), (2, 3), (4, 1), (7, 3)):
            dv = -(-wv // sv)
            out.append({'name': f'window={wv},stride={sv}', 'funs': funs,
                        'consts': [(w, IntVal(wv)), (s, IntVal(sv)), (D, IntVal(dv))]})
        return out

    # ------------------------------------------------------------------ Create
    def create_inv(self, L, q, j):
        o, i = Ints('co ci')
        mw, vw = q.store.marker[1], q.store.value[1]
        pm, pv = L.pre.store.marker[1], L.pre.store.value[1]
        B = {'lemmas': ['mul_nonneg', 'range']}
        return [('cells_initialised', ForAll([o], Implies(And(0 <= o, o < j), And(Select(mw, BASE + o) == M_SET, cell(vw, o) == -1))), B),
                ('frame', ForAll([i], Implies(Or(i < BASE, i >= BASE + j), And(Select(mw, i) == Select(pm, i), Select(vw, i) == Select(pv, i)))), B),
                ('state_n_untouched', And(q.store.marker[0] == L.pre.store.marker[0], q.store.value[0] == L.pre.store.value[0]), B),
                ('bounds', And(j >= 0, j <= D), B)]

    def on_create(self, c, q):
        o, i = Ints('eo ei')
        sn, sw = c.states
        mw, vw = q.store.marker[1], q.store.value[1]
        return [('emits.outer_only', c.emits(q, em(OUTER, Ev.Create(c.k)))),
                ('count.reset', c.slot_is(q, sn, M_SET, vint(0))), ('count.frame', c.frame(q, sn, c.k0)),
                ('ring.reset', ForAll([o], Implies(And(0 <= o, o < D), And(Select(mw, BASE + o) == M_SET, cell(vw, o) == -1)))),
                ('ring.frame', ForAll([i], Implies(Or(i < BASE, i >= BASE + D), And(Select(mw, i) == Select(mW, i), Select(vw, i) == Select(vW, i)))))]

    # ------------------------------------------------------------------ Next
    def next_terms(self):
        ostar = cellof(N_)
        opens = mods(N_) == 0
        vW1 = If(opens, Store(vW, BASE + ostar, V.VInt(N_)), vW)
        T1 = If(opens, Concat(T0, Unit(em(OUT, Ev.Create(ikey(ostar))))), T0)
        open1 = lambda o: cell(vW1, o) != -1
        full1 = lambda o: And(open1(o), N_ - cell(vW1, o) + 1 == w)
        delta = lambda o: Concat(If(open1(o), Unit(em(OUT, Ev.Next(ikey(o), X_))), Empty(Trace)),
                                 If(full1(o), Unit(em(OUT, Ev.Completed(ikey(o)))), Empty(Trace)))
        return ostar, opens, vW1, T1, open1, full1, delta

    def next_inv(self, L, q, j):
        ostar, opens, vW1, T1, open1, full1, delta = self.next_terms()
        o, i = Ints('no ni')
        mw, vw = q.store.marker[1], q.store.value[1]
        return [('cells', ForAll([o], Implies(And(0 <= o, o < D), cell(vw, o) == If(And(o < j, full1(o)), -1, cell(vW1, o))))),
                ('marks', ForAll([o], Implies(And(0 <= o, o < D), Select(mw, BASE + o) == M_SET))),
                ('frame.ring', ForAll([i], Implies(Or(i < BASE, i >= BASE + D), And(Select(mw, i) == Select(mW, i), Select(vw, i) == Select(vW, i))))),
                ('frame.count', And(q.store.marker[0] == mN, q.store.value[0] == vN)),
                ('trace', q.trace == Concat(T1, rollF(j))),
                ('bounds', And(j >= 0, j <= D))]

    def next_lemmas(self, L, q, j):
        ostar, opens, vW1, T1, open1, full1, delta = self.next_terms()
        return [Implies(j >= 0, rollF(j + 1) == Concat(rollF(j), delta(j)))]      # definition of the spec fold (R1)

    def on_next(self, c, q):
        ostar, opens, vW1, T1, open1, full1, delta = self.next_terms()
        sn, sw = c.states
        o, o2, a, i = Ints('eo eo2 ea ei')
        vw, mw = q.store.value[1], q.store.marker[1]
        snd = Implies(And(0 <= o, o < D), Or(cell(vw, o) == -1, And(cell(vw, o) >= 0, cell(vw, o) < N_ + 1, mods(cell(vw, o)) == 0,
                                                                   cellof(cell(vw, o)) == o, cell(vw, o) + w > N_ + 1)))
        cmp_ = Implies(And(a >= 0, a < N_ + 1, mods(a) == 0, a + w > N_ + 1), cell(vw, cellof(a)) == a)
        return [
            # a window opens at every stride-th item; every open window receives the item; a window closes with its w-th item
            ('emits', q.trace == Concat(T1, rollF(D))),
            ('ring.sound', ForAll([o], snd)), ('ring.complete', ForAll([a], cmp_)),
            ('ring.marks', ForAll([o], Implies(And(0 <= o, o < D), Select(mw, BASE + o) == M_SET))),
            ('ring.frame', ForAll([i], Implies(Or(i < BASE, i >= BASE + D), And(Select(mw, i) == Select(mW, i), Select(vw, i) == Select(vW, i))))),
            ('count', And(c.slot_is(q, sn, M_SET, V.VInt(N_ + 1)), c.frame(q, sn, c.k0))),
            ('slot_reuse.free_when_opened', Implies(opens, cell(vW, ostar) == -1)),
            ('close.oldest_first', ForAll([o, o2], Implies(And(0 <= o, o < D, 0 <= o2, o2 < D, o != o2, full1(o), open1(o2)), cell(vW1, o2) > cell(vW1, o)))),
        ]

    # ------------------------------------------------------------------ Completed (flush)
    def flush_terms(self):
        Q = udiv(N_ + s - 1, s)
        pos = lambda t: umod(Q + t, D)
        gdelta = lambda t: If(cell(vW, pos(t)) != -1, Unit(em(OUT, Ev.Completed(ikey(pos(t))))), Empty(Trace))
        return Q, pos, gdelta

    def flush_inv(self, L, q, j):
        Q, pos, gdelta = self.flush_terms()
        t, o, i = Ints('ft fo fi')
        mw, vw = q.store.marker[1], q.store.value[1]
        B = {'lemmas': ['mul_nonneg', 'range']}
        return [('visited_closed', ForAll([t], Implies(And(0 <= t, t < j), cell(vw, pos(t)) == -1)), {'prove': self.visited_skolem}),
                ('unvisited_unchanged', ForAll([t], Implies(And(j <= t, t < D), cell(vw, pos(t)) == cell(vW, pos(t)))), {'prove': self.unvisited_skolem}),
                ('only_closing', ForAll([o], Implies(And(0 <= o, o < D), Or(cell(vw, o) == cell(vW, o), cell(vw, o) == -1))), B),
                ('marks', ForAll([o], Implies(And(0 <= o, o < D), Select(mw, BASE + o) == M_SET)), B),
                ('frame.ring', ForAll([i], Implies(Or(i < BASE, i >= BASE + D), And(Select(mw, i) == Select(mW, i), Select(vw, i) == Select(vW, i)))), B),
                ('frame.count', And(q.store.marker[0] == L.pre.store.marker[0], q.store.value[0] == L.pre.store.value[0]), B),
                ('trace', q.trace == Concat(T0, rollG(j)), B),
                ('bounds', And(j >= 0, j <= D), B)]

    def visited_skolem(self, L, q, jn):
        """`visited_closed` for an arbitrary step tsk < jn; the invariant assumed at the loop head is instantiated at tsk syntactically"""
        Q, pos, gdelta = self.flush_terms()
        vw = q.store.value[1]
        tsk = Int('t_sk'); t = Int('ft')
        goal = Implies(And(0 <= tsk, tsk < jn), cell(vw, pos(tsk)) == -1)
        j0 = jn - 1
        insts = []
        for f in q.pc:
            # the assumed invariant (same shape, over the havocked arrays): find it by shape and instantiate it at tsk
            if z3.is_quantifier(f) and f.is_forall() and f.num_vars() == 1 and f.var_name(0) == 'ft' and '== -1' in str(f.body())[-12:] + ' ':
                insts.append((f, [tsk]))
        return goal, {'pc_instances': insts, 'lemmas': ['range', 'mul_nonneg']}

    def unvisited_skolem(self, L, q, jn):
        """the clause for an arbitrary step tsk >= jn, with the instance of `cyclic_injective` it needs as a hint"""
        Q, pos, gdelta = self.flush_terms()
        vw = q.store.value[1]
        tsk = Int('t_sk')
        goal = Implies(And(jn <= tsk, tsk < D), cell(vw, pos(tsk)) == cell(vW, pos(tsk)))
        hint = Implies(And(0 <= jn - 1, jn - 1 < tsk, tsk < D), pos(jn - 1) != pos(tsk))
        return goal, {'hints': [hint], 'lemmas': ['range', 'mul_nonneg'], 'hint_lemmas': ['cyclic_injective']}

    def flush_lemmas(self, L, q, j):
        Q, pos, gdelta = self.flush_terms()
        return [Implies(j >= 0, rollG(j + 1) == Concat(rollG(j), gdelta(j)))]

    def on_completed(self, c, q):
        Q, pos, gdelta = self.flush_terms()
        sn, sw = c.states
        o, i, t1, t2 = Ints('eo ei et1 et2')
        vw, mw = q.store.value[1], q.store.marker[1]
        return [
            ('emits', q.trace == Concat(T0, rollG(D), Unit(em(OUTER, Ev.Completed(c.k))))),
            self.all_closed_clause(c, q),
            ('ring.frame', ForAll([i], Implies(Or(i < BASE, i >= BASE + D), And(Select(mw, i) == Select(mW, i), Select(vw, i) == Select(vW, i))))),
            ('count.reset', And(c.slot_is(q, sn, M_SET, vint(0)), c.frame(q, sn, c.k0))),
            # spec-level lemma: the flush order (cyclic from the cell after the youngest window) is the opening order
            self.opening_order_clause(c, q),
        ]

    def opening_order_clause(self, c, q):
        """spec-level lemma: the flush order (cyclic, from the cell after the youngest window) is the opening order.
        Stated for two arbitrary steps t1 < t2; hints = the ring invariant at the two visited cells"""
        Q, pos, gdelta = self.flush_terms()
        t1, t2 = Ints('t1_sk t2_sk')
        a1, a2 = cell(vW, pos(t1)), cell(vW, pos(t2))
        opn = lambda a_: And(0 <= a_, a_ < N_, mods(a_) == 0, a_ + w > N_)
        hA = Implies(And(0 <= t1, t1 < D, a1 != -1), And(opn(a1), cellof(a1) == pos(t1)))
        hB = Implies(And(0 <= t2, t2 < D, a2 != -1), And(opn(a2), cellof(a2) == pos(t2)))
        goal = Implies(And(0 <= t1, t1 < t2, t2 < D, a1 != -1, a2 != -1), a1 < a2)
        snd, _ = ring_inv(vW, N_)
        return ('close.in_opening_order', goal, {'hints': [hA, hB], 'pc_instances': [(snd, [pos(t1)]), (snd, [pos(t2)])], 'lemmas': [],
                                                 'lemma_instances': [('flush_order', [N_, a1, a2, t1, t2])], 'hint_lemmas': ['range']})

    def all_closed_clause(self, c, q):
        """every cell of the ring is free after the flush; proved for an arbitrary cell `osk` with two explicit instances as hints
        (each hint is itself an obligation): L_visit at the cell's start, and the loop-exit invariant at the step that visits it"""
        Q, pos, gdelta = self.flush_terms()
        vw, mw = q.store.value[1], q.store.marker[1]
        osk, tstar = Ints('o_sk tstar_sk')
        a = cell(vW, osk)
        inrange = And(0 <= osk, osk < D)
        h1 = Implies(And(inrange, a != -1), And(0 <= tstar, tstar < D, pos(tstar) == osk))
        h3 = Implies(inrange, Or(cell(vw, osk) == a, cell(vw, osk) == -1))
        goal = Implies(inrange, And(cell(vw, osk) == -1, Select(mw, BASE + osk) == M_SET))
        t = Int('ft')
        exit_inv = ForAll([t], Implies(And(0 <= t, t < If(D > 0, D, 0)), cell(vw, pos(t)) == -1))    # `visited_closed` at loop exit
        snd, _ = ring_inv(vW, N_)
        return ('ring.all_closed', goal, {'defs': [tstar == divs(a) - Q + D], 'hints': [h1, h3], 'pc_instances': [(exit_inv, [tstar]), (snd, [osk])],
                                          'lemmas': ['range'], 'hint_lemmas': ['range', 'mul_nonneg'],
                                          'hint_lemma_instances': [('flush_visits_open', [N_, a])]})

    def on_other(self, c, q):
        return [('emits', c.emits(q, em(OUT, Ev.Other(c.eng.to_val(q, c.foreign)))))] + [(f'slot{st.ord}.untouched', c.frame(q, st)) for st in c.states]

    def replay_indices(self, c, conc):
        k0 = conc.ev(c.k0).as_long(); d = conc.ev(D).as_long()
        return {0: [k0], 1: [k0 * d + o for o in range(max(d, 0))]}

    def e2e_confirm(self, c, conc):
        """end-to-end confirmation of a counter-model: the real roll(window, stride) against the executable spec of C05"""
        return roll_e2e(conc.ev(w).as_long(), conc.ev(s).as_long())


class RollCount(Spawner):
    """window == stride: tumbling windows, a plain counter per key"""
    name = 'roll_count'; module = 'rxsci.data.roll'; factory = 'roll_mux'
    properties = ('C05', 'C02', 'C03', 'C11')
    frees_on_completed = True

    def configs(self):
        yield {'name': 'window=stride', 'args': [SInt(w), SInt(s)], 'kws': {}, 'symbols': {}, 'assume': [w >= 1, s >= 1]}

    def states_decl_for(self, c):
        return [('uint', 0)]

    def accept_build(self, pb, handlers):
        h = handlers.get('on_next')
        return isinstance(h, Closure) and '._roll_count.' in h.qual

    def post_build(self, eng, pb, handlers, cfg):
        return [('dispatch/count_variant_only_when_window_equals_stride', list(pb.pc), w == s)]

    def hist(self, c):
        return Const('hist_window', ValSeq)        # items of the currently open window of this key

    def inv(self, c, slots, hist):
        (m, v), = slots
        return And(m == M_SET, v == V.VInt(Length(hist)), Length(hist) < w)

    def extra_requires(self, c):
        return [w >= 1]

    def on_next(self, c, q):
        st = c.states[0]; h = self.hist(c); n = Length(h)
        ik = inner(c.k)
        cr, nx, cp = Unit(em(OUT, Ev.Create(ik))), Unit(em(OUT, Ev.Next(ik, c.x))), Unit(em(OUT, Ev.Completed(ik)))
        pre = If(n == 0, Concat(c.trace0, cr), c.trace0)
        full = n + 1 == w
        return [('emits', q.trace == If(full, Concat(pre, nx, cp), Concat(pre, nx))),
                ('inv.preserved', self.inv(c, [c.slot(q, st)], If(full, Empty(ValSeq), Concat(h, Unit(c.x))))),
                ('frame', c.frame(q, st, c.k0))]

    def on_completed(self, c, q):
        st = c.states[0]; h = self.hist(c)
        ik = inner(c.k)
        spec = If(Length(h) > 0, Concat(c.trace0, Unit(em(OUT, Ev.Completed(ik))), Unit(em(OUTER, Ev.Completed(c.k)))),
                  Concat(c.trace0, Unit(em(OUTER, Ev.Completed(c.k)))))
        return [('emits', q.trace == spec), ('slot.freed', c.slot_is(q, st, M_ABSENT)), ('frame', c.frame(q, st, c.k0))]


ALL = [RollMux(), RollCount()]
for _c in ALL:
    globals()['U_' + _c.name] = _c


def roll_e2e(wv, sv, max_len=None):
    import rxsci as rs
    from ..specs import run_mux, roll_spec
    if wv < 1 or sv < 1:
        return None
    for n in range(0, (max_len or (3 * wv + 2 * sv + 2)) + 1):
        items = list(range(n))
        got = run_mux(items, rs.data.roll(wv, sv, [rs.data.to_list()]))
        exp = [x for x in roll_spec(items, wv, sv)]
        if got != exp:
            return {'pipeline': f'roll(window={wv}, stride={sv}, [to_list()])', 'input': items, 'expected': exp, 'got': got}
    return None
