"""Contracts of the per-key sequence operators (C10/C02/C03/C11), item-level error handlers (C13), multiplexing
plumbing (C01/C03) and with_store."""
from .base import *
from ..loops import InvLoop
from ..engine import Path
from ..heapmodels import dyn_arrays


def last_ev_is_err(c, q):
    n = Length(q.trace)
    last = q.trace[n - 1]
    return And(n == Length(c.trace0) + 1, SubSeq(q.trace, 0, n - 1) == c.trace0, Em.chan(last) == OUT, Ev.is_Err(Em.ev(last)))


def one_next(c, item):
    return Concat(c.trace0, Unit(em(OUT, Ev.Next(c.k, item))))


# ------------------------------------------------------------------------------------------------ lag
class Lag1(KT):
    name = 'lag1'; module = 'rxsci.data.lag'; factory = 'lag'
    properties = ('C10', 'C02', 'C03', 'C11')
    states_decl = [('obj', None)]

    def configs(self):
        yield {'name': 'size=1', 'args': [1], 'kws': {}, 'symbols': {}}

    def inv(self, c, slots, hist):
        (m, v), = slots
        n = Length(hist)
        return And((m == M_NOTSET) == (n == 0), Implies(m == M_SET, v == hist[n - 1]))

    def on_next(self, c, q):
        st = c.states[0]; h = self.hist(c); n = Length(h)
        prev = If(n == 0, c.x, h[n - 1])            # "item 1 step back, or the first item"
        return [('emits', q.trace == one_next(c, tup(prev, c.x))),
                ('inv.preserved', self.inv(c, [c.slot(q, st)], Concat(h, Unit(c.x)))),
                ('frame', c.frame(q, st, c.k0))]


class LagN(KT):
    name = 'lag'; module = 'rxsci.data.lag'; factory = 'lag'
    replayable = False          # pre-state holds a deque object: not driven natively by the generic replay
    properties = ('C10', 'C02', 'C03', 'C11')
    states_decl = [('obj', None)]

    def configs(self):
        n = Int('size')
        yield {'name': 'size', 'args': [SInt(n)], 'kws': {}, 'symbols': {'size': n}, 'assume': [n >= 0, n != 1]}

    def content(self, c, q_or_none, v):
        ds = (q_or_none.store.extra['dyn_seq'] if q_or_none is not None else c.extra['dyn_seq0'])
        return Select(ds, V.addr(v))

    def prestate(self, c, q):
        ds, dset = dyn_arrays(q)
        c.extra['dyn_seq0'] = ds

    def window(self, c, hist):
        n = Length(hist); size = c.params['size']
        w = If(n < size, n, size)
        return SubSeq(hist, n - w, w)

    def inv(self, c, slots, hist, q=None):
        (m, v), = slots
        return And(m == M_SET, V.is_VRef(v), self.content(c, q, v) == self.window(c, hist))

    def requires(self, c):
        r = [c.k0 >= 0]
        if c.case in ('Next', 'Completed', 'Error'):
            r.append(self.inv(c, [c.slot0(c.states[0])], self.hist(c)))
        return r

    def on_create(self, c, q):
        st = c.states[0]
        m, v = c.slot(q, st)
        return [('emits', c.emits(q, em(OUT, Ev.Create(c.k)))),
                ('slot.fresh_empty_deque', And(m == M_SET, V.is_VRef(v), V.addr(v) >= c.oid_start,
                                               Select(q.store.extra['dyn_seq'], V.addr(v)) == Empty(ValSeq))),
                ('frame', c.frame(q, st, c.k0))]

    def on_next(self, c, q):
        st = c.states[0]; h = self.hist(c); n = Length(h); size = c.params['size']
        h1 = Concat(h, Unit(c.x))
        back = If(n >= size, h1[n - size], h1[0])       # item `size` steps back, or the first item
        m0, v0 = c.slot0(st)
        a = Int('addr')
        return [('emits', q.trace == one_next(c, tup(back, c.x))),
                ('inv.preserved', self.inv(c, [c.slot(q, st)], h1, q)),
                ('frame', c.frame(q, st, c.k0)),
                ('frame.other_containers', ForAll([a], Implies(a != V.addr(v0), Select(q.store.extra['dyn_seq'], a) == Select(c.extra['dyn_seq0'], a))))]


# ------------------------------------------------------------------------------------------------ padding
class PadStart(KT):
    name = 'pad_start_mux'; module = 'rxsci.data.pad'; factory = 'pad_start_mux'
    properties = ('C10', 'C02', 'C03', 'C11')
    states_decl = [('bool', None)]

    def __init__(self):
        self.loop_contracts = {('rxsci.data.pad.pad_start_mux._pad_start_mux.on_subscribe.on_next', 0):
                               InvLoop(self.loop_inv, modifies=('trace',), lemmas=self.loop_lemmas)}

    def configs(self):
        n = Int('size'); v = Const('value', Val)
        yield {'name': 'size,value', 'args': [SInt(n), SVal(v)], 'kws': {}, 'symbols': {'size': n, 'value': v}, 'assume': [n >= 0, Not(V.is_VSent(v))]}

    def pad_event(self, c_k, c_x, value):
        return em(OUT, Ev.Next(c_k, If(V.is_VNone(value), c_x, value)))

    def loop_inv(self, L, q, j):
        e = self.pad_event(Const('k', Key), Const('x', Val), Const('value', Val))
        return [('emitted_j_copies', q.trace == Concat(L.pre.trace, rep(e, j)))]

    def loop_lemmas(self, L, q, j):
        e = self.pad_event(Const('k', Key), Const('x', Val), Const('value', Val))
        return rep_def(e, j)

    def extra_requires(self, c):
        e = self.pad_event(Const('k', Key), Const('x', Val), Const('value', Val))
        return [rep(e, IntVal(0)) == Empty(Trace)]

    def inv(self, c, slots, hist):
        (m, v), = slots
        return (m == M_NOTSET) == (Length(hist) == 0)

    def on_next(self, c, q):
        st = c.states[0]; h = self.hist(c)
        e = self.pad_event(c.k, c.x, c.params['value'])
        me = em(OUT, Ev.Next(c.k, c.x))
        return [('emits', q.trace == If(Length(h) == 0, Concat(c.trace0, rep(e, c.params['size']), Unit(me)), Concat(c.trace0, Unit(me)))),
                ('inv.preserved', self.inv(c, [c.slot(q, st)], Concat(h, Unit(c.x)))),
                ('frame', c.frame(q, st, c.k0))]


class PadEnd(KT):
    name = 'pad_end_mux'; module = 'rxsci.data.pad'; factory = 'pad_end_mux'
    properties = ('C10', 'C02', 'C03', 'C11')
    states_decl = [('obj', None)]

    def __init__(self):
        self.loop_contracts = {('rxsci.data.pad.pad_end_mux._pad_end_mux.on_subscribe.on_next', 0):
                               InvLoop(self.loop_inv, modifies=('trace',), lemmas=self.loop_lemmas)}

    def configs(self):
        n = Int('size'); v = Const('value', Val)
        yield {'name': 'size,value', 'args': [SInt(n), SVal(v)], 'kws': {}, 'symbols': {'size': n, 'value': v}, 'assume': [n >= 0, Not(V.is_VSent(v))]}

    def pad_event(self, k, last, value):
        return em(OUT, Ev.Next(k, If(V.is_VNone(value), last, value)))

    def the_event(self):
        v0 = Select(Array('v0', IntSort(), Val), Key.h(Const('k', Key)))
        return self.pad_event(Const('k', Key), v0, Const('value', Val))

    def loop_inv(self, L, q, j):
        return [('emitted_j_copies', q.trace == Concat(L.pre.trace, rep(self.the_event(), j)))]

    def loop_lemmas(self, L, q, j):
        return rep_def(self.the_event(), j)

    def extra_requires(self, c):
        return [rep(self.the_event(), IntVal(0)) == Empty(Trace)]

    def inv(self, c, slots, hist):
        (m, v), = slots
        n = Length(hist)
        return And((m == M_NOTSET) == (n == 0), Implies(m == M_SET, v == hist[n - 1]))

    def on_next(self, c, q):
        st = c.states[0]; h = self.hist(c)
        return [('emits', q.trace == one_next(c, c.x)),
                ('inv.preserved', self.inv(c, [c.slot(q, st)], Concat(h, Unit(c.x)))),
                ('frame', c.frame(q, st, c.k0))]

    def on_completed(self, c, q):
        st = c.states[0]; h = self.hist(c); n = Length(h)
        e = self.pad_event(c.k, h[n - 1], c.params['value'])
        done = Unit(em(OUT, Ev.Completed(c.k)))
        return [('emits', q.trace == If(n > 0, Concat(c.trace0, rep(e, c.params['size']), done), Concat(c.trace0, done))),
                ('slot.freed', c.slot_is(q, st, M_ABSENT)), ('frame', c.frame(q, st, c.k0))]


class StartWith(KT):
    name = 'start_with'; module = 'rxsci.operators.start_with'; factory = 'start_with'
    properties = ('C10', 'C02', 'C03', 'C11')
    states_decl = [('bool', None)]

    def __init__(self):
        self.loop_contracts = {('rxsci.operators.start_with.start_with._start_with.on_subscribe.on_next', 0):
                               InvLoop(self.loop_inv, modifies=('trace',), lemmas=self.loop_lemmas)}

    def configs(self):
        pad = Const('padding', ValSeq)
        yield {'name': 'padding', 'args': [SSeq(pad, 'val')], 'kws': {}, 'symbols': {'padding': pad}}

    def loop_inv(self, L, q, j):
        return [('emitted_prefix', q.trace == Concat(L.pre.trace, nexts(Const('k', Key), SubSeq(Const('padding', ValSeq), 0, j))))]

    def loop_lemmas(self, L, q, j):
        return nexts_def(Const('k', Key), Const('padding', ValSeq), j)

    def extra_requires(self, c):
        return nexts_def(c.k, c.params['padding'], IntVal(0))[:2] + [SubSeq(c.params['padding'], 0, Length(c.params['padding'])) == c.params['padding']]

    def inv(self, c, slots, hist):
        (m, v), = slots
        return (m == M_NOTSET) == (Length(hist) == 0)

    def on_next(self, c, q):
        st = c.states[0]; h = self.hist(c)
        me = Unit(em(OUT, Ev.Next(c.k, c.x)))
        return [('emits', q.trace == If(Length(h) == 0, Concat(c.trace0, nexts(c.k, c.params['padding']), me), Concat(c.trace0, me))),
                ('inv.preserved', self.inv(c, [c.slot(q, st)], Concat(h, Unit(c.x)))),
                ('frame', c.frame(q, st, c.k0))]


# ------------------------------------------------------------------------------------------------ distinct
class Distinct(KT):
    name = 'distinct'; module = 'rxsci.operators.distinct'; factory = 'distinct'
    properties = ('C10', 'C02', 'C03', 'C11')
    states_decl = [('set', None)]

    def configs(self):
        yield {'name': 'key_mapper', 'args': [UserFn('key_mapper')], 'kws': {}, 'symbols': {'km': True}}
        yield {'name': 'no_key_mapper', 'args': [None], 'kws': {}, 'symbols': {'km': False}}

    def prestate(self, c, q):
        ds, dset = dyn_arrays(q)
        c.extra['dyn_set0'] = dset

    def seen(self, c):
        return Const('seen', z3.ArraySort(Val, BoolSort()))     # ghost: canonical keys seen in this lifetime

    def requires(self, c):
        r = [c.k0 >= 0]
        if c.case in ('Next', 'Completed', 'Error'):
            m, v = c.slot0(c.states[0])
            r += [m == M_SET, V.is_VRef(v), Select(c.extra['dyn_set0'], V.addr(v)) == self.seen(c)]
        return r

    def on_create(self, c, q):
        st = c.states[0]; m, v = c.slot(q, st)
        return [('emits', c.emits(q, em(OUT, Ev.Create(c.k)))),
                ('slot.fresh_empty_set', And(m == M_SET, V.is_VRef(v), V.addr(v) >= c.oid_start,
                                             Select(q.store.extra['dyn_set'], V.addr(v)) == K(Val, BoolVal(False)))),
                ('frame', c.frame(q, st, c.k0))]

    def on_next(self, c, q):
        st = c.states[0]; m0, v0 = c.slot0(st)
        km = c.params['km']
        key = ufn('key_mapper')(c.x) if km else c.x
        ck = canon(key)
        seen = self.seen(c)
        a = Int('addr')
        post_set = Select(q.store.extra['dyn_set'], V.addr(v0))
        body = [('emits', q.trace == If(Select(seen, ck), c.trace0, one_next(c, c.x))),
                ('seen.updated', post_set == Store(seen, ck, BoolVal(True))),
                ('slot.unchanged', c.frame(q, st)),
                ('frame.other_sets', ForAll([a], Implies(a != V.addr(v0), Select(q.store.extra['dyn_set'], a) == Select(c.extra['dyn_set0'], a))))]
        if km:
            rz = uraises('key_mapper')(c.x)
            # a failing key_mapper ends the stream with on_error (plain RxPY behaviour), nothing else happens
            return [(n, If(rz, BoolVal(True), g)) for n, g in body] + \
                   [('key_mapper_error', Implies(rz, And(last_ev_is_err(c, q), c.frame(q, st))))]
        return body

    def on_completed(self, c, q):
        st = c.states[0]
        return [('emits', c.emits(q, em(OUT, Ev.Completed(c.k)))), ('slot.freed', c.slot_is(q, st, M_ABSENT)), ('frame', c.frame(q, st, c.k0))]


# ------------------------------------------------------------------------------------------------ asserts / do_action / flat_map
class AssertMux(KT):
    name = 'assert_mux'; module = 'rxsci.operators.assert_'; factory = 'assert_mux'
    properties = ('C01', 'C03', 'C11')

    def configs(self):
        yield {'name': 'predicate', 'args': [UserFn('predicate')], 'kws': {}, 'symbols': {}}

    def on_next(self, c, q):
        f, rz = ufn('predicate'), uraises('predicate')
        ok = And(Not(rz(c.x)), f(c.x) == V.VBool(BoolVal(True)))
        return [('emits', If(ok, q.trace == one_next(c, c.x), last_ev_is_err(c, q))),
                ('calls', c.calls_are(q, [('predicate', [c.x])]))]


class Assert1Mux(KT):
    name = 'assert_1_mux'; module = 'rxsci.operators.assert_'; factory = 'assert_1'
    properties = ('C01', 'C02', 'C03', 'C11')
    states_decl = [('obj', None)]

    def configs(self):
        yield {'name': 'predicate', 'args': [UserFn('predicate')], 'kws': {}, 'symbols': {}}

    def inv(self, c, slots, hist):
        (m, v), = slots
        n = Length(hist)
        return And((m == M_NOTSET) == (n == 0), Implies(m == M_SET, v == hist[n - 1]))

    def may_raise(self, c, q):
        # a raising predicate is not caught by assert_1 (same in the plain variant): it propagates to the source
        return BoolVal(isinstance(q.exc, ExcV) and q.exc.origin == 'predicate')

    def on_next(self, c, q):
        st = c.states[0]; h = self.hist(c); n = Length(h)
        if q.exc is not None:
            return [('nothing_emitted', c.emits(q)), ('slot.unchanged', c.frame(q, st))]
        f, rz = ufn('predicate', 2), uraises('predicate', 2)
        prev = h[n - 1]
        ok = Or(n == 0, And(Not(rz(prev, c.x)), f(prev, c.x) == V.VBool(BoolVal(True))))
        return [('emits', If(ok, q.trace == one_next(c, c.x), last_ev_is_err(c, q))),
                ('inv.preserved', Implies(ok, self.inv(c, [c.slot(q, st)], Concat(h, Unit(c.x))))),
                ('frame', c.frame(q, st, c.k0))]


class DoActionMux(KT):
    name = 'do_action_mux'; module = 'rxsci.operators.do_action'; factory = 'do_action_mux'
    properties = ('C01', 'C03', 'C11')

    def configs(self):
        yield {'name': 'all_callbacks', 'args': [UserFn('on_next_cb'), UserFn('on_error_cb'), UserFn('on_completed_cb'), UserFn('on_create_cb')], 'kws': {}, 'symbols': {'cb': True}}
        yield {'name': 'no_callbacks', 'args': [None, None, None, None], 'kws': {}, 'symbols': {'cb': False}}

    def may_raise(self, c, q):
        return BoolVal(isinstance(q.exc, ExcV) and q.exc.origin in ('on_next_cb', 'on_error_cb', 'on_completed_cb', 'on_create_cb'))

    def fwd(self, c, q, ev, call):
        if q.exc is not None:
            return [('callback_raised_nothing_emitted', c.emits(q))]
        out = [('emits', c.emits(q, em(OUT, ev)))]
        out.append(('calls', c.calls_are(q, [call] if c.params['cb'] else [])))
        return out

    def on_next(self, c, q): return self.fwd(c, q, Ev.Next(c.k, c.x), ('on_next_cb', [c.x]))
    def on_create(self, c, q): return self.fwd(c, q, Ev.Create(c.k), ('on_create_cb', [V.VKey(c.k)]))
    def on_completed(self, c, q): return self.fwd(c, q, Ev.Completed(c.k), ('on_completed_cb', [V.VKey(c.k)]))
    def on_error(self, c, q): return self.fwd(c, q, Ev.Error(c.k, c.err), ('on_error_cb', [c.err]))

    def ensures_terminal(self, c, q, hname):
        e = Ev.Done if hname == 'on_completed' else Ev.Err(c.err)
        return [('forwarded', c.emits(q, em(OUT, e)))]

    terminal_may_raise = True


class FlatMapMux(KT):
    name = 'flat_map_mux'; module = 'rxsci.operators.flat_map'; factory = 'flat_map_mux'
    replayable = False          # items are iterables: the generic replay only builds scalar / opaque items
    properties = ('C01', 'C03', 'C11')

    def __init__(self):
        lc = InvLoop(self.loop_inv, modifies=('trace',), lemmas=self.loop_lemmas)
        lc.iter_as_seq = lambda L, p, itv: items_of(itv.t)
        self.loop_contracts = {('rxsci.operators.flat_map.flat_map_mux._flat_map.on_subscribe.on_next', 0): lc}

    def loop_inv(self, L, q, j):
        return [('emitted_prefix', q.trace == Concat(L.pre.trace, nexts(Const('k', Key), SubSeq(items_of(Const('x', Val)), 0, j))))]

    def loop_lemmas(self, L, q, j):
        return nexts_def(Const('k', Key), items_of(Const('x', Val)), j)

    def extra_requires(self, c):
        xs = items_of(c.x)
        return nexts_def(c.k, xs, IntVal(0))[:2] + [SubSeq(xs, 0, Length(xs)) == xs]

    def on_next(self, c, q):
        return [('emits', q.trace == Concat(c.trace0, nexts(c.k, items_of(c.x))))]


# ------------------------------------------------------------------------------------------------ item-level errors (C13)
class ErrorIgnore(KT):
    name = 'error_ignore'; module = 'rxsci.error.ignore'; factory = 'ignore'
    properties = ('C13', 'C03')

    def on_next(self, c, q): return [('emits', q.trace == one_next(c, c.x))]
    def on_error(self, c, q): return [('dropped', c.emits(q))]


class ErrorMap(KT):
    name = 'error_map'; module = 'rxsci.error.map'; factory = 'map'
    properties = ('C13', 'C03')

    def configs(self):
        yield {'name': 'mapper', 'args': [UserFn('mapper')], 'kws': {}, 'symbols': {}}

    def on_next(self, c, q): return [('emits', q.trace == one_next(c, c.x))]

    def on_error(self, c, q):
        f, rz = ufn('mapper'), uraises('mapper')
        return [('replaced_in_place', If(rz(c.err), last_ev_is_err(c, q), q.trace == Concat(c.trace0, Unit(em(OUT, Ev.Next(c.k, f(c.err)))))))]


class ErrorRouter(KT):
    name = 'error_router'; module = 'rxsci.error.router'; factory = 'create_error_router'
    properties = ('C13', 'C03')

    def configs(self):
        yield {'name': 'dead_letter_subscribed', 'args': [], 'kws': {}, 'symbols': {'sub': True}}
        yield {'name': 'dead_letter_not_subscribed', 'args': [], 'kws': {}, 'symbols': {'sub': False}}

    def make_operator(self, eng, p, f, cfg):
        out = []
        for q, r in eng.call(p, f, [], {}):
            dead_obs, factory = r
            if cfg['symbols']['sub']:
                dl = Host('observer', chan=DEAD, name='dead_letter')
                for q2, _ in eng.call(q, dead_obs.subscribe, [dl, Host('opaque', name='scheduler')], {}):
                    out.extend(eng.call(q2, factory, [], {}))
            else:
                out.extend(eng.call(q, factory, [], {}))
        return out

    def on_next(self, c, q): return [('emits', q.trace == one_next(c, c.x))]

    def on_error(self, c, q):
        if c.params['sub']:
            return [('routed_to_dead_letter', c.emits(q, em(DEAD, Ev.Item(c.err))))]
        return [('forwarded', c.emits(q, em(OUT, Ev.Error(c.k, c.err))))]

    def ensures_terminal(self, c, q, hname):
        if hname == 'on_completed':
            exp = ([em(DEAD, Ev.Done)] if c.params['sub'] else []) + [em(OUT, Ev.Done)]
        else:
            exp = ([em(DEAD, Ev.Item(c.err)), em(DEAD, Ev.Done)] if c.params['sub'] else []) + [em(OUT, Ev.Err(c.err))]
        return [('dead_letter_completes_with_stream', c.emits(q, *exp))]


# ------------------------------------------------------------------------------------------------ multiplex plumbing
class MuxObservable(KT):
    name = 'mux_observable'; module = 'rxsci.operators.multiplex'; factory = 'mux_observable'
    properties = ('C01', 'C03', 'C11')
    source_is_mux = False
    cases = ('Item',)
    check_store_forwarding = False
    has_probe = False
    ROOT = key_of(0)

    def subscribe_emits(self, cfg):
        return [em(OUT, Ev.Create(self.ROOT))]

    def requires(self, c): return []

    def ensures_probe(self, c, q):
        # a plain item that happens to be a probe object is an item like any other
        return [('treated_as_item', BoolVal(True))]

    def on_item(self, c, q):
        return [('emits', c.emits(q, em(OUT, Ev.Next(self.ROOT, c.x))))]

    def ensures_terminal(self, c, q, hname):
        if hname == 'on_completed':
            return [('root_completed_then_done', c.emits(q, em(OUT, Ev.Completed(self.ROOT)), em(OUT, Ev.Done)))]
        return [('forwarded', c.emits(q, em(OUT, Ev.Err(c.err))))]


class DemuxObservable(KT):
    name = 'demux_observable'; module = 'rxsci.operators.multiplex'; factory = 'demux_observable'
    properties = ('C01', 'C03', 'C11', 'C13')

    def ensures_probe(self, c, q): return [('dropped', c.emits(q))]
    def on_create(self, c, q): return [('dropped', c.emits(q))]
    def on_completed(self, c, q): return [('dropped', c.emits(q))]
    def on_other(self, c, q): return [('dropped', c.emits(q))]
    def on_next(self, c, q): return [('emits_plain_item', c.emits(q, em(OUT, Ev.Item(c.x))))]
    def on_error(self, c, q): return [('unhandled_error_surfaces', c.emits(q, em(OUT, Ev.Err(c.err))))]


class DemuxMuxObservable(KT):
    name = 'demux_mux_observable'; module = 'rxsci.operators.multiplex'; factory = 'demux_mux_observable'
    properties = ('C01', 'C03', 'C11', 'C13')

    def configs(self):
        yield {'name': 'outer', 'args': [Host('subject', chan=99, name='outer_group')], 'kws': {}, 'symbols': {}}

    def extra_requires(self, c):
        return [Key.is_KK(Key.t(c.k))] if c.case in ('Next', 'Error', 'Create', 'Completed') else []

    def ensures_probe(self, c, q): return [('dropped', c.emits(q))]
    def on_create(self, c, q): return [('inner_lifecycle_dropped', c.emits(q))]
    def on_completed(self, c, q): return [('inner_lifecycle_dropped', c.emits(q))]
    def on_other(self, c, q): return [('dropped', c.emits(q))]
    def on_next(self, c, q): return [('emits_with_parent_key', c.emits(q, em(OUT, Ev.Next(Key.t(c.k), c.x))))]
    def on_error(self, c, q): return [('unhandled_error_surfaces', c.emits(q, em(OUT, Ev.Err(c.err))))]


class DropProbe(KT):
    name = 'drop_probe_state_topology'; module = 'rxsci.state.with_store'; factory = 'drop_probe_state_topology'
    properties = ('C01', 'C03')

    def ensures_probe(self, c, q): return [('dropped', c.emits(q))]
    def on_next(self, c, q): return [('emits', q.trace == one_next(c, c.x))]


class WithStoreMux(KT):
    name = 'with_store_mux'; module = 'rxsci.state.with_store'; factory = 'with_store_mux'
    properties = ('C01', 'C03', 'C11')
    check_store_forwarding = False
    has_probe = False

    def configs(self):
        self.the_store = Host('store', name='the_store')
        yield {'name': 'store', 'args': [self.the_store, Host('pipe', fns=[])], 'kws': {}, 'symbols': {}}

    def subscribe_emits(self, cfg):
        return [em(OUT, Ev.Probe)]

    def stores_set(self, q):
        return BoolVal(all(s is self.the_store for (_, s) in q.ghost.get('stores_emitted', [])) and len(q.ghost.get('stores_emitted', [])) == 1)

    def ensures_probe(self, c, q): return [('forwarded', c.emits(q, em(OUT, Ev.Probe)))]
    def on_next(self, c, q): return [('emits', q.trace == one_next(c, c.x)), ('store_attached', self.stores_set(q))]
    def on_create(self, c, q): return [('emits', c.emits(q, em(OUT, Ev.Create(c.k)))), ('store_attached', self.stores_set(q))]
    def on_completed(self, c, q): return [('emits', c.emits(q, em(OUT, Ev.Completed(c.k)))), ('store_attached', self.stores_set(q))]
    def on_error(self, c, q): return [('emits', c.emits(q, em(OUT, Ev.Error(c.k, c.err)))), ('store_attached', self.stores_set(q))]
    cases = ('Create', 'Next', 'Completed', 'Error')


ALL = [Lag1(), LagN(), PadStart(), PadEnd(), StartWith(), Distinct(), AssertMux(), Assert1Mux(), DoActionMux(), FlatMapMux(),
       ErrorIgnore(), ErrorMap(), ErrorRouter(), MuxObservable(), DemuxObservable(), DemuxMuxObservable(), DropProbe(), WithStoreMux()]
for _c in ALL:
    globals()['U_' + _c.name] = _c
