"""Contract vocabulary shared by the operator contracts (DESIGN 3.3).

A contract is a python object; its clauses are z3 formulas over the pre-state symbols held by the Ctx and the
post-state of one symbolic path.  Top-level postconditions are written from the property statements; the frame
is always over the whole view (every other slot of every state unchanged)."""
import z3
from z3 import (And, Or, Not, Implies, If, IntVal, BoolVal, RealVal, Const, Consts, Concat, Unit, Select, Store, Length,
                Empty, Function, ForAll, Exists, IntSort, BoolSort, Int, Ints, Bool, SeqSort, SubSeq, Array, K, ArraySort)
from ..sorts import *
from ..values import *


def ufn(name, arity=1):
    return Function(f'u_{name}', *([Val] * arity), Val)


def uraises(name, arity=1):
    return Function(f'raises_{name}', *([Val] * arity), BoolSort())


def uexc(name, arity=1):
    return Function(f'exc_{name}', *([Val] * arity), Val)


def seq1(*xs):
    xs = list(xs)
    if not xs:
        return Empty(ValSeq)
    return Concat(*[Unit(x) for x in xs]) if len(xs) > 1 else Unit(xs[0])


def present(m):
    return Or(m == M_NOTSET, m == M_SET)


def vint(t):
    return V.VInt(t if not isinstance(t, int) else IntVal(t))


def vbool(t):
    return V.VBool(t if not isinstance(t, bool) else BoolVal(t))


class KT:
    """keyed-transducer contract skeleton: Create allocates + forwards, Next steps, Completed flushes + frees,
    Error / Probe / foreign events are forwarded.  Subclasses override what differs."""
    source_is_mux = True
    cases = ('Create', 'Next', 'Completed', 'Error', 'Other')
    states_decl = []            # [(dtype, default)] expected from the Probe case, in order
    frees_on_completed = True
    frees_on_error = None       # None: unconstrained (safety only, DESIGN A5')
    properties = ()

    def configs(self):
        yield {'name': 'default', 'args': [], 'kws': {}, 'symbols': {}}

    # ---- ghost history of the current lifetime of key k
    def hist(self, c):
        return Const('hist', ValSeq)

    def inv(self, c, slots, hist):
        """slots: list of (marker, value) for the event key, one per state"""
        return BoolVal(True)

    def requires(self, c):
        r = [c.k0 >= 0]
        if c.case in ('Next', 'Completed', 'Error'):
            slots = [c.slot0(st) for st in c.states]
            for (m, v) in slots:
                r.append(present(m))
                r.append(Implies(m == M_SET, Not(V.is_VSent(v))))
            r.append(self.inv(c, slots, self.hist(c)))
        r.extend(self.extra_requires(c))
        return r

    def extra_requires(self, c):
        return []

    # ---- Probe
    def ensures_probe(self, c, q):
        out = []
        decl = [(s.dtype, s.default) for s in c.states]
        exp = list(self.states_decl_for(c))
        ok = len(decl) == len(exp)
        conds = []
        if ok:
            for (d, dv), (ed, edv) in zip(decl, exp):
                if d != ed:
                    ok = False
                if z3.is_expr(edv):
                    conds.append(c.eng.to_val(q, dv) == edv)
                elif not (dv is edv or dv == edv):
                    ok = False
        out.append(('states_declared', And(BoolVal(ok), *conds)))
        ems = [em(OUT, Ev.Probe)]
        if c.outer is not None:
            ems.append(em(OUTER, Ev.Probe))
        out.append(('probe_forwarded', c.emits(q, *ems)))
        return out

    def states_decl_for(self, c):
        return self.states_decl

    # ---- dispatch
    def ensures(self, c, q):
        return getattr(self, 'on_' + c.case.lower())(c, q)

    def init_slot(self, c, q, st):
        """expected slot of a freshly created key"""
        if st.default is None:
            return c.slot_is(q, st, M_NOTSET)
        if st.dtype == 'bool':
            return c.slot_is(q, st, M_SET, vbool(st.default) if isinstance(st.default, bool) else c.eng.to_val(q, st.default))
        return c.slot_is(q, st, M_SET, c.eng.to_val(q, st.default))

    def on_create(self, c, q):
        out = [('emits', c.emits(q, em(OUT, Ev.Create(c.k))))]
        for st in c.states:
            out.append((f'slot{st.ord}.init', self.init_slot(c, q, st)))
            out.append((f'slot{st.ord}.frame', c.frame(q, st, c.k0)))
        slots = [c.slot(q, st) for st in c.states]
        out.append(('inv.established', self.inv(c, slots, Empty(ValSeq))))
        return out

    def on_completed(self, c, q):
        out = [('emits', c.emits(q, *(self.fin(c, q) + [em(OUT, Ev.Completed(c.k))])))]
        for st in c.states:
            if self.frees_on_completed:
                out.append((f'slot{st.ord}.freed', c.slot_is(q, st, M_ABSENT)))
            out.append((f'slot{st.ord}.frame', c.frame(q, st, c.k0)))
        return out

    def fin(self, c, q):
        return []

    def on_error(self, c, q):
        out = [('emits', c.emits(q, em(OUT, Ev.Error(c.k, c.err))))]
        for st in c.states:
            out.append((f'slot{st.ord}.frame', c.frame(q, st, c.k0)))
        return out

    def on_other(self, c, q):
        out = [('emits', c.emits(q, em(OUT, Ev.Other(c.eng.to_val(q, c.foreign)))))]
        for st in c.states:
            out.append((f'slot{st.ord}.untouched', c.frame(q, st)))
        return out

    def on_next(self, c, q):
        raise NotImplementedError


# ---------------------------------------------------------------- spec functions (R1: defining equations are
# instantiated at the terms that occur, never left as quantified axioms)
rep = Function('rep', Em, IntSort(), Trace)                  # rep(e, n) = [e] * n
nexts = Function('nexts', Key, ValSeq, Trace)                # nexts(k, xs) = [Em(OUT, Next(k, x)) for x in xs]
items_of = Function('items_of', Val, ValSeq)                 # the items an iterable value yields, in order
seq_of_val = items_of


def rep_def(e, j):
    """instances of  rep(e,0) = []  and  rep(e,j+1) = rep(e,j) ++ [e]"""
    return [rep(e, IntVal(0)) == Empty(Trace), Implies(j >= 0, rep(e, j + 1) == Concat(rep(e, j), Unit(e)))]


def nexts_def(k, xs, j):
    """instances of nexts(k, []) = [] and nexts(k, xs[:j+1]) = nexts(k, xs[:j]) ++ [Next(k, xs[j])]"""
    return [nexts(k, Empty(ValSeq)) == Empty(Trace),
            nexts(k, SubSeq(xs, 0, 0)) == Empty(Trace),
            Implies(And(j >= 0, j < Length(xs)),
                    nexts(k, SubSeq(xs, 0, j + 1)) == Concat(nexts(k, SubSeq(xs, 0, j)), Unit(em(OUT, Ev.Next(k, xs[j]))))),
            SubSeq(xs, 0, Length(xs)) == xs]
