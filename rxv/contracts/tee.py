"""C08 (and the tee_map part of C02 / C03): the join performed by tee_map on multiplexed sources.

The real `_process_many(...).subscribe_mux` is executed symbolically for n = 2, 3 branches (the number of branches is the one
bounded parameter here: the branch list is a python list); keys, items, the join cells of all keys and the growth of the cell
arrays are symbolic.  publish()/connect() of RxPY are assumed (each source event reaches branch 0..n-1 in order)."""
from .base import *
from ..fnharness import FnCase, run_cases
from ..loops import InvLoop
from ..engine import Path, Scope
from ..world import trusted

MOD = 'rxsci.operators.tee_map'
HQ = f'{MOD}._process_many.subscribe_mux.on_next'
K_ = Const('k', Key); X_ = Const('x', Val); ERR_ = Const('err', Val)
QA = Array('queue_a', IntSort(), Val); HA = Array('has_a', IntSort(), Val); LEN = Int('cells_len')


_E2E = {}


def _tee_e2e():
    """a failing real input for tee_map, if the small end-to-end scenarios of the bounded tier (join vs branches run alone, key slots
    reused by successive windows, nested tee_map) find one"""
    if 'r' not in _E2E:
        try:
            from ..bounded.mux import check_c08
            from ..bounded.mux import first_new_failure
            _E2E['r'] = first_new_failure(check_c08({}))
        except Exception as ex:
            _E2E['r'] = None
    return _E2E['r']


class TeeCase(FnCase):
    e2e = staticmethod(_tee_e2e)

    def __init__(self, n, join, branch, case):
        self.n = n; self.join = join; self.branch = branch; self.case = case
        self.name = f'tee_map[n={n},join={join}]/branch{branch}/{case}'
        self.zip = join == 'zip'; self.combine = join == 'combine_latest'
        self.loop_contracts = {(HQ, 0): InvLoop(self.grow_inv, modifies=('heap',))}

    # ---- build: run the real factory, capture the handler of this branch, make the cell arrays symbolic
    def setup(self, eng, p):
        self.eng = eng
        w = eng.world
        trusted('rx publish()/connect(): every source event is delivered to each branch subscriber, in subscription order')
        pm = w.closure_of(MOD, '_process_many')
        srcs = [Host('source', is_mux=True, name=f'branch{i}') for i in range(self.n)]
        conn = Host('muxobservable', name='connectable', subscribe=None)
        res = eng.call(p, pm, srcs, {'connectable': conn, 'zip': self.zip, 'combine': self.combine})
        assert len(res) == 1
        q, obs = res[0]
        self.observer = Host('observer', chan=OUT, name='observer')
        res = eng.call(q, obs.subscribe, [self.observer, Host('opaque', name='scheduler')], {})
        assert len(res) == 1
        q = res[0][0]
        subs = q.ghost.get('subs', [])
        self.subs = subs
        handler = None
        for (o, d) in subs:
            if o is srcs[self.branch]:
                handler = d.get('on_next')
        is_branch = lambda o: any(o is s for s in srcs)
        bsubs = [(o, d) for (o, d) in subs if is_branch(o)]
        # besides the branches, the connectable may have passive subscribers (no on_next, no on_completed: they can only learn that the
        # source failed); the connection comes last, after every subscription
        taps = [(o, d) for (o, d) in subs if o is conn and not d.get('connect')]
        self.order_ok = ([o for (o, d) in bsubs] == srcs and len(subs) > 0 and subs[-1][0] is conn and subs[-1][1].get('connect') is True
                         and len(bsubs) + len(taps) + 1 == len(subs)
                         and all(d.get('on_next') is None and d.get('on_completed') is None for (o, d) in taps))
        # the termination of branch i (completion or stream error) goes to per-branch handlers bound to i: the stream terminates when ALL
        # branches have terminated (cases StreamCompleted / SourceError*); an error raised by one branch alone is forwarded at once
        # (case BranchError)
        # (what the registered handlers do is decided by those cases, on whatever callable is registered)
        self.wiring_ok = all(d.get('on_error') is not None and d.get('on_completed') is not None for (o, d) in bsubs)
        if self.case == 'StreamCompleted':
            hc = next((d.get('on_completed') for (o, d) in subs if o is srcs[self.branch]), None)
            if hc is None:
                raise Unsupported('tee_map (mux): a branch subscription without completion handler')
            # the stream completes when ALL branches have completed, whatever the order: here the other branches complete first (in index
            # order, from the state the real subscription left), then branch b.  Nothing may be emitted before the last one.
            q.trace = Const('trace0', Trace); q.calls = []; q.pc = []
            self.trace0 = q.trace
            for bi, (o, d) in enumerate(bsubs):
                if bi == self.branch: continue
                res2 = eng.call(q, d.get('on_completed'), [], {})
                assert len(res2) == 1
                q = res2[0][0]
            self.trace_before_last = q.trace
            self.path = q
            return hc, [], {}
        if self.case in ('SourceError', 'SourceErrorSwallowed', 'BranchError'):
            q.trace = Const('trace0', Trace); q.calls = []; q.pc = []
            self.trace0 = q.trace
            self.errs = []
            seq = []
            if self.case == 'BranchError':
                # the source has not failed: branch b fails on its own
                e = Const(f'err{self.branch}', Val); self.errs.append(e)
                seq.append((bsubs[self.branch][1].get('on_error'), [SVal(e)]))
            else:
                # publish() delivers the error of the source to every subscriber of the connectable in subscription order; a branch may
                # hand over another exception (err_i), or -- SourceErrorSwallowed, branch b -- recover from it and complete
                for (o, d) in subs:
                    if o is conn and not d.get('connect'):
                        if d.get('on_error') is not None:
                            seq.append((d['on_error'], [SVal(Const('source_err', Val))]))
                            if not any(e.eq(Const('source_err', Val)) for e in self.errs): self.errs.append(Const('source_err', Val))
                    elif is_branch(o):
                        bi = next(t for t, s in enumerate(srcs) if s is o)
                        if self.case == 'SourceErrorSwallowed' and bi == self.branch:
                            seq.append((d.get('on_completed'), []))
                        else:
                            e = Const(f'err{bi}', Val); self.errs.append(e)
                            seq.append((d.get('on_error'), [SVal(e)]))
            if any(h is None for h, _ in seq):
                raise Unsupported('tee_map (mux): a branch subscription without termination handler')
            for h, a in seq[:-1]:
                res2 = eng.call(q, h, a, {})
                assert len(res2) == 1
                q = res2[0][0]
            self.trace_before_last = q.trace
            self.path = q
            return seq[-1][0], seq[-1][1], {}
        fn = handler.fn if isinstance(handler, Partial) else handler
        self.handler_index_ok = isinstance(handler, Partial) and handler.args == [self.branch]
        sc = fn.scope
        cq_, ch_ = sc.lookup('queue'), sc.lookup('has_next')
        if cq_ is None or ch_ is None or cq_ not in q.cells or ch_ not in q.cells:
            # the contract is written over the representation "latest value per (key, branch) + a has-value flag per cell"; another
            # representation (e.g. None as 'empty') is outside it: undecided, the end-to-end tier of the property decides
            raise Unsupported('tee_map (mux): the join cells are not kept as a value array plus a flag array (queue / has_next)')
        self.queue = q.cells[cq_]; self.has = q.cells[ch_]
        q.heap[self.queue.oid] = ('arr', QA, LEN, 'val', None)
        q.heap[self.has.oid] = ('arr', HA, LEN, 'int', 'B')
        q.trace = Const('trace0', Trace); q.calls = []; q.pc = []
        self.trace0 = q.trace
        self.store = Host('store', name='store')
        F = w.event_fields
        c = self.case
        if c == 'Create': ev = EventV('Create', F['Create'], {'key': SKey(K_), 'store': self.store})
        elif c == 'Next': ev = EventV('Next', F['Next'], {'key': SKey(K_), 'item': SVal(X_), 'store': self.store})
        elif c == 'Completed': ev = EventV('Completed', F['Completed'], {'key': SKey(K_), 'store': self.store})
        elif c == 'Error': ev = EventV('Error', F['Error'], {'key': SKey(K_), 'error': SVal(ERR_), 'store': self.store})
        else: ev = EventV('Probe', F['Probe'], {'topology': Host('topology', name='t')})
        # move the path into the engine's call: engine.call uses the path we return through a closure trick
        self.path = q
        return handler, [ev], {}

    def requires(self):
        n = self.n
        r = [Key.is_KK(K_), Key.h(K_) >= 0, LEN >= 0, Not(V.is_VSent(X_))]
        if self.case in ('StreamCompleted', 'SourceError', 'SourceErrorSwallowed', 'BranchError'):
            return []
        if self.case in ('Next', 'Completed') and (self.zip or self.combine):
            r.append(LEN >= (Key.h(K_) + 1) * n)        # the key was created: its cells exist
        return r

    def grow_inv(self, L, q, j):
        cq, ch = q.heap[self.queue.oid], q.heap[self.has.oid]
        i = Int('gi')
        return [('lengths', And(cq[2] == LEN + j, ch[2] == LEN + j)),
                ('old_cells', ForAll([i], Implies(And(i >= 0, i < LEN), And(Select(cq[1], i) == Select(QA, i), Select(ch[1], i) == Select(HA, i))))),
                ('new_cells_empty', ForAll([i], Implies(And(i >= LEN, i < LEN + j), And(Select(cq[1], i) == V.VNone, V.i(Select(ch[1], i)) == 0))))]

    # ---- spec of the join machine (from the statement of C08)
    def ensures(self, q, ret):
        n, b = self.n, self.branch
        if self.case == 'StreamCompleted':
            return [('nothing_completed_before_the_last_branch', self.trace_before_last == self.trace0),
                    ('completes_when_all_branches_done', q.trace == Concat(self.trace0, Unit(em(OUT, Ev.Done))))]
        if self.case in ('SourceError', 'SourceErrorSwallowed'):
            # C13 (a router in any branch sees the stream error and its dead letter completes): nothing is signalled downstream -- which
            # would dispose the remaining branches -- before every branch has been notified; then exactly one on_error, with the error
            # of the source or one a branch handed over
            return [('nothing_signalled_before_the_last_branch', self.trace_before_last == self.trace0),
                    ('fails_once_when_all_branches_terminated', Or(*[q.trace == Concat(self.trace0, Unit(em(OUT, Ev.Err(e)))) for e in self.errs]))]
        if self.case == 'BranchError':
            return [('branch_error_forwarded_at_once', q.trace == Concat(self.trace0, Unit(em(OUT, Ev.Err(self.errs[0])))))]
        k0 = Key.h(K_); base = k0 * n
        cq, ch = q.heap[self.queue.oid], q.heap[self.has.oid]
        i = Int('ei')
        emits = lambda *es: q.trace == (Concat(self.trace0, *[Unit(e) for e in es]) if es else self.trace0)
        cells_same = And(cq[1] == QA, ch[1] == HA, cq[2] == LEN, ch[2] == LEN)
        joined = self.zip or self.combine
        out = [('wiring.branch_index', BoolVal(self.handler_index_ok)), ('wiring.subscription_order_then_connect', BoolVal(self.order_ok)),
               ('wiring.error_completion_forwarded', BoolVal(self.wiring_ok))]
        c = self.case
        if c == 'Create':
            if b == 0:
                out.append(('emits.create_from_branch0_only', emits(em(OUT, Ev.Create(K_)))))
                if joined:
                    out.append(('cells.exist', And(cq[2] >= (k0 + 1) * n, cq[2] == ch[2], cq[2] >= LEN)))
                    # C02 / C08: a lifetime starts with empty cells, however the previous lifetime on this key slot ended (a mux error
                    # that ends a window does not pass through the reset done on completion)
                    out.append(('cells.other_keys_unchanged', ForAll([i], Implies(And(i >= 0, i < LEN, Or(i < base, i >= base + n)), And(Select(cq[1], i) == Select(QA, i), Select(ch[1], i) == Select(HA, i))))))
                    out.append(('cells.fresh_for_the_new_lifetime', And(*[And(Select(cq[1], base + t) == V.VNone, V.i(Select(ch[1], base + t)) == 0) for t in range(n)])))
                    out.append(('cells.new_empty', ForAll([i], Implies(And(i >= LEN, i < cq[2]), And(Select(cq[1], i) == V.VNone, V.i(Select(ch[1], i)) == 0)))))
                else:
                    out.append(('cells.untouched', cells_same))
            else:
                out += [('emits.nothing', emits()), ('cells.untouched', cells_same)]
        elif c == 'Completed':
            if b == n - 1:
                out.append(('emits.completed_from_last_branch_only', emits(em(OUT, Ev.Completed(K_)))))
                if joined:
                    # C02: nothing of this lifetime survives in the join cells of the key
                    out.append(('cells.reset', And(*[And(Select(cq[1], base + t) == V.VNone, V.i(Select(ch[1], base + t)) == 0) for t in range(n)])))
                    out.append(('cells.frame', ForAll([i], Implies(Or(i < base, i >= base + n), And(Select(cq[1], i) == Select(QA, i), Select(ch[1], i) == Select(HA, i))))))
                    out.append(('cells.length', And(cq[2] == LEN, ch[2] == LEN)))
                else:
                    out.append(('cells.untouched', cells_same))
            else:
                out += [('emits.nothing', emits()), ('cells.untouched', cells_same)]
        elif c == 'Next':
            if not joined:
                out += [('emits.merge_forwards', emits(em(OUT, Ev.Next(K_, X_)))), ('cells.untouched', cells_same)]
            else:
                cell = lambda t: (X_ if t == b else Select(QA, base + t))
                has = lambda t: (BoolVal(True) if t == b else V.i(Select(HA, base + t)) != 0)
                tpl = tup(*[cell(t) for t in range(n)])
                ev = em(OUT, Ev.Next(K_, tpl))
                frame = ForAll([i], Implies(Or(i < base, i >= base + n), And(Select(cq[1], i) == Select(QA, i), Select(ch[1], i) == Select(HA, i))))
                if self.zip:
                    full = And(*[has(t) for t in range(n)])
                    out.append(('emits.zip', q.trace == If(full, Concat(self.trace0, Unit(ev)), self.trace0)))
                    out.append(('cells.zip', If(full, And(*[And(Select(cq[1], base + t) == V.VNone, V.i(Select(ch[1], base + t)) == 0) for t in range(n)]),
                                                And(*[And(Select(cq[1], base + t) == cell(t), (V.i(Select(ch[1], base + t)) != 0) == has(t)) for t in range(n)]))))
                else:
                    out.append(('emits.combine_latest', emits(ev)))
                    out.append(('cells.combine_latest', And(*[And(Select(cq[1], base + t) == cell(t), (V.i(Select(ch[1], base + t)) != 0) == has(t)) for t in range(n)])))
                out += [('cells.frame', frame), ('cells.length', And(cq[2] == LEN, ch[2] == LEN))]
        elif c == 'Error':
            out += [('emits.forwarded', emits(em(OUT, Ev.Error(K_, ERR_)))), ('cells.untouched', cells_same)]
        else:
            out += [('emits.forwarded', emits(em(OUT, Ev.Probe))), ('cells.untouched', cells_same)]
        return out


class TeeWiring(FnCase):
    e2e = staticmethod(_tee_e2e)
    """tee_map(*branches, join=...)(source): the source is published exactly once (also when it is itself a connectable, e.g. a tee_map
    nested as first operator of a branch), every branch is applied to that one connectable, the join flags decode the join mode"""

    def __init__(self, join, source_kind):
        self.join = join; self.source_kind = source_kind
        self.name = f'tee_map/wiring[join={join},source={source_kind}]'

    def setup(self, eng, p):
        self.eng = eng
        f = eng.world.closure_of(MOD, 'tee_map')
        self.applied = []
        b0, b1 = Host('pipe', fns=[], name='branch0'), Host('pipe', fns=[], name='branch1')
        (q, op), = eng.call(p, f, [b0, b1], {'join': self.join})
        mux = self.source_kind != 'plain'
        self.src = Host('source', is_mux=mux, is_connectable=(self.source_kind == 'mux-connectable'), name='source')
        self.path = q
        return op, [self.src], {}

    def ensures(self, q, ret):
        ok_kind = isinstance(ret, Host) and ret.kind == ('muxobservable' if self.source_kind != 'plain' else 'observable') and isinstance(ret.subscribe, Closure)
        if not ok_kind:
            return [('result_kind', BoolVal(False))]
        sc = ret.subscribe.scope
        env = {}
        while sc is not None:
            for nme, cid in sc.cells.items():
                if cid in q.cells: env.setdefault(nme, q.cells[cid])
            sc = sc.parent
        conn = env.get('connectable'); srcs = env.get('sources')
        def published_once(c):
            inner = getattr(c, 'connectable', None) if self.source_kind != 'plain' else c
            return isinstance(inner, Host) and getattr(inner, 'rxop', None) is not None and inner.rxop.name == 'publish' and inner.source is self.src
        srcs_l = list(q.heap[srcs.oid][1]) if isinstance(srcs, Ref) else []
        zf, cf = env.get('zip'), env.get('combine')
        want = {'zip': (True, False), 'merge': (False, False), 'combine_latest': (False, True)}[self.join]
        return [('source_published_exactly_once', BoolVal(published_once(conn))),
                ('every_branch_gets_the_same_connectable', BoolVal(len(srcs_l) == 2 and all(s is conn for s in srcs_l))),
                ('join_mode_decoded', BoolVal((zf, cf) == want))]


def unit_mux_connectable(opts):
    from .wrappers import ConnectDelegates
    return run_cases('mux.connectable', [ConnectDelegates()], opts)


def unit_tee_wiring(opts):
    cases = [TeeWiring(j, k) for j in ('zip', 'merge', 'combine_latest') for k in ('mux', 'plain', 'mux-connectable')]
    return run_cases('tee_map.wiring', cases, opts)


def unit_tee_map(opts):
    n = opts.get('n', 2)
    join = opts.get('join', 'zip')
    if opts.get('which') == 'termination':
        # C13 only: how the stream terminates when the source fails (an error router in any branch must see the failure); the join
        # properties (C01 / C02 / C03 / C08 / C11) say nothing about it
        cases = [TeeCase(n, join, b, c) for b in range(n) for c in ('StreamCompleted', 'SourceErrorSwallowed', 'BranchError')]
        cases.append(TeeCase(n, join, 0, 'SourceError'))
        return run_cases(f'tee_map.mux.termination[n={n},{join}]', cases, opts)
    cases = [TeeCase(n, join, b, c) for b in range(n) for c in ('Create', 'Next', 'Completed', 'Error', 'Probe', 'StreamCompleted')]
    return run_cases(f'tee_map.mux[n={n},{join}]', cases, opts)
