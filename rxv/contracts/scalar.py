"""Contracts of the scalar (one slot per key) mux operators: map, filter, scan, first, last, take.
Postconditions follow the statements of C01/C02/C09/C10/C11/C13."""
from .base import *
from ..pymodels import copy_of, is_callable
from ..storemodel import fits_dyn


class MapMux(KT):
    name = 'map_mux'; module = 'rxsci.operators.map'; factory = 'map_mux'
    properties = ('C01', 'C02', 'C03', 'C11', 'C13')

    def configs(self):
        yield {'name': 'mapper', 'args': [UserFn('mapper')], 'kws': {}, 'symbols': {}}

    def on_next(self, c, q):
        f, rz, ex = ufn('mapper'), uraises('mapper'), uexc('mapper')
        return [
            ('emits', c.emits(q, em(OUT, If(rz(c.x), Ev.Error(c.k, ex(c.x)), Ev.Next(c.k, f(c.x)))))),
            ('calls.exactly_once', c.calls_are(q, [('mapper', [c.x])])),
        ]


class FilterMux(KT):
    name = 'filter_mux'; module = 'rxsci.operators.filter'; factory = 'filter_mux'
    properties = ('C01', 'C02', 'C03', 'C11', 'C13')

    def configs(self):
        yield {'name': 'predicate', 'args': [UserFn('predicate')], 'kws': {}, 'symbols': {}}

    def on_next(self, c, q):
        f, rz, ex = ufn('predicate'), uraises('predicate'), uexc('predicate')
        # C01: same items as the plain operator, which keeps an item iff the predicate result is truthy
        spec = If(rz(c.x), Concat(c.trace0, Unit(em(OUT, Ev.Error(c.k, ex(c.x))))),
                  If(truthy(f(c.x)), Concat(c.trace0, Unit(em(OUT, Ev.Next(c.k, c.x)))), c.trace0))
        return [('emits', q.trace == spec), ('calls.exactly_once', c.calls_are(q, [('predicate', [c.x])]))]


class ScanMux(KT):
    name = 'scan_mux'; module = 'rxsci.operators.scan'; factory = 'scan_mux'
    properties = ('C01', 'C02', 'C03', 'C09', 'C11', 'C13')

    def configs(self):
        red = z3.Bool('reduce')
        for seedk in ('value', 'factory'):
            for term in (None, 'fn'):
                seed = SVal(Const('seed', Val)) if seedk == 'value' else UserFn('seed', ret='fresh')
                assume = [Not(is_callable(Const('seed', Val))), Not(V.is_VSent(Const('seed', Val)))] if seedk == 'value' else []
                yield {'name': f'seed={seedk},terminator={term}',
                       'args': [UserFn('accumulator'), seed, SBool(red), UserFn('terminator') if term else None],
                       'kws': {}, 'symbols': {'reduce': red, 'seedk': seedk, 'term': term}, 'assume': assume}

    def states_decl_for(self, c):
        return [('dyn' if c.params['seedk'] == 'value' else 'function', None)]

    def extra_requires(self, c):
        a, b = Consts('fa fb', Val)
        acc = ufn('accumulator', 2); term = ufn('terminator', 1)
        # C01 precondition: accumulator / terminator results have the seed's type (typed store arrays)
        return [ForAll([a, b], fits_dyn(acc(a, b)), patterns=[acc(a, b)]),
                ForAll([a], fits_dyn(term(a)), patterns=[term(a)])]

    def fresh_seed(self, c):
        """the value a key starts from: a copy of the seed made for this key in this very call"""
        if c.params['seedk'] == 'value':
            return copy_of(Const('seed', Val), IntVal(0)), ('deepcopy', [Const('seed', Val)])
        return Function('fresh_seed', IntSort(), Val)(IntVal(0)), ('seed', [])

    def on_next(self, c, q):
        st = c.states[0]
        m, v = c.slot0(st)
        acc, rz, ex = ufn('accumulator', 2), uraises('accumulator', 2), uexc('accumulator', 2)
        red = c.params['reduce']
        s0, seedcall = self.fresh_seed(c)
        cur = If(m == M_NOTSET, s0, v)
        r = acc(cur, c.x)
        ok_trace = If(red, c.trace0, Concat(c.trace0, Unit(em(OUT, Ev.Next(c.k, r)))))
        bad_trace = Concat(c.trace0, Unit(em(OUT, Ev.Error(c.k, ex(cur, c.x)))))
        failing = rz(cur, c.x)
        m1, v1 = c.slot(q, st)
        calls_set = c.calls_are(q, [('accumulator', [v, c.x])])
        calls_notset = c.calls_are(q, [seedcall, ('accumulator', [s0, c.x])])
        return [
            ('emits', q.trace == If(failing, bad_trace, ok_trace)),
            ('slot', If(failing, And(m1 == m, v1 == v), And(m1 == M_SET, v1 == r))),
            ('frame', c.frame(q, st, c.k0)),
            # C09 seed isolation + C13 "exactly one call": the accumulator is called once, on the stored value or
            # on a seed copy created in this call, never on the shared seed object itself
            ('calls', If(m == M_NOTSET, calls_notset, calls_set)),
        ]

    def may_raise(self, c, q):
        # an exception of the terminator / seed factory is not caught by scan (outside C09/C13); nothing else may escape
        return BoolVal(isinstance(q.exc, ExcV) and q.exc.origin in ('terminator', 'seed'))

    def on_completed(self, c, q):
        st = c.states[0]
        if q.exc is not None:
            return []
        m, v = c.slot0(st)
        red = c.params['reduce']
        s0, seedcall = self.fresh_seed(c)
        cur = If(m == M_NOTSET, s0, v)
        out = []
        if c.params['term']:
            t = ufn('terminator', 1)(cur)
            out.append(('emits', c.emits(q, em(OUT, Ev.Next(c.k, t)), em(OUT, Ev.Completed(c.k)))))
            out.append(('calls.terminator_once', If(m == M_NOTSET, c.calls_are(q, [seedcall, ('terminator', [s0])]),
                                                     c.calls_are(q, [('terminator', [v])]))))
        else:
            out.append(('emits', q.trace == If(red, Concat(c.trace0, Unit(em(OUT, Ev.Next(c.k, cur))), Unit(em(OUT, Ev.Completed(c.k)))),
                                                Concat(c.trace0, Unit(em(OUT, Ev.Completed(c.k)))))))
            out.append(('calls', If(And(red, m == M_NOTSET), c.calls_are(q, [seedcall]), c.calls_are(q, []))))
        out.append(('slot.freed', c.slot_is(q, st, M_ABSENT)))
        out.append(('frame', c.frame(q, st, c.k0)))
        return out


class FirstMux(KT):
    name = 'first_mux'; module = 'rxsci.operators.first'; factory = 'first_mux'
    properties = ('C01', 'C02', 'C03', 'C10', 'C11')
    states_decl = [('bool', False)]

    def inv(self, c, slots, hist):
        (m, v), = slots
        return And(m == M_SET, V.is_VBool(v), V.b(v) == (Length(hist) > 0))

    def on_next(self, c, q):
        st = c.states[0]; h = self.hist(c)
        return [
            ('emits', q.trace == If(Length(h) == 0, Concat(c.trace0, Unit(em(OUT, Ev.Next(c.k, c.x)))), c.trace0)),
            ('inv.preserved', self.inv(c, [c.slot(q, st)], Concat(h, Unit(c.x)))),
            ('frame', c.frame(q, st, c.k0)),
        ]


class TakeMux(KT):
    name = 'take_mux'; module = 'rxsci.operators.take'; factory = 'take_mux'
    properties = ('C01', 'C02', 'C03', 'C10', 'C11')

    def configs(self):
        n = Int('count')
        yield {'name': 'count', 'args': [SInt(n)], 'kws': {}, 'symbols': {'count': n}, 'assume': [n >= 0]}

    def states_decl_for(self, c):
        return [('int', V.VInt(c.params['count']))]

    def inv(self, c, slots, hist):
        (m, v), = slots
        n = c.params['count']
        left = If(n - Length(hist) > 0, n - Length(hist), 0)
        return And(m == M_SET, v == V.VInt(left))

    def on_next(self, c, q):
        st = c.states[0]; h = self.hist(c); n = c.params['count']
        return [
            ('emits', q.trace == If(Length(h) < n, Concat(c.trace0, Unit(em(OUT, Ev.Next(c.k, c.x)))), c.trace0)),
            ('inv.preserved', self.inv(c, [c.slot(q, st)], Concat(h, Unit(c.x)))),
            ('frame', c.frame(q, st, c.k0)),
        ]


class LastMux(KT):
    name = 'last_mux'; module = 'rxsci.operators.last'; factory = 'last_mux'
    properties = ('C01', 'C02', 'C03', 'C10', 'C11')
    states_decl = [('obj', None)]

    def inv(self, c, slots, hist):
        (m, v), = slots
        n = Length(hist)
        return And((m == M_NOTSET) == (n == 0), Implies(m == M_SET, v == hist[n - 1]))

    def on_next(self, c, q):
        st = c.states[0]; h = self.hist(c)
        return [
            ('emits', c.emits(q)),
            ('inv.preserved', self.inv(c, [c.slot(q, st)], Concat(h, Unit(c.x)))),
            ('frame', c.frame(q, st, c.k0)),
        ]

    def on_completed(self, c, q):
        st = c.states[0]; h = self.hist(c); n = Length(h)
        spec = If(n > 0, Concat(c.trace0, Unit(em(OUT, Ev.Next(c.k, h[n - 1]))), Unit(em(OUT, Ev.Completed(c.k)))),
                  Concat(c.trace0, Unit(em(OUT, Ev.Completed(c.k)))))
        return [('emits', q.trace == spec), ('slot.freed', c.slot_is(q, st, M_ABSENT)), ('frame', c.frame(q, st, c.k0))]


ALL = [MapMux(), FilterMux(), ScanMux(), FirstMux(), TakeMux(), LastMux()]

for _c in ALL:
    globals()['U_' + _c.name] = _c
