"""C15: line framing and length-prefix framing.

The real handlers are proved to compute, chunk after chunk, the natural recursive specification of unframing:
  line:           acc ++ chunk == joinnl(emitted lines) ++ acc'      (every emitted line and acc' newline-free)
  length prefix:  emitted == frames(acc ++ chunk)   and   acc' == rest(acc ++ chunk)
where joinnl / frames / rest are spec functions whose defining equations are instantiated at the terms that occur (R1).
Chunking independence and the round trip then follow from the uniqueness lemma L4 over these spec functions."""
from .base import *
from ..fnharness import FnCase, run_cases
from ..loops import InvLoop
from ..engine import Path
from ..strmodels import joinnl_of, int_of_bytes, bytes_of_int, pow256, StrSeq
from .plainops import build_plain, set_cell, get_cell, bind, T0
from z3 import StringVal, StringSort, Contains, BitVecSort, String

S_ = String('chunk'); ACC = String('acc0')
NL = StringVal('\n')
stritems = Function('stritems', StrSeq, Trace)        # [Em(OUT, Item(s)) for s in lines]
joinnl = joinnl_of                                     # joinnl(lines) = concat of (line + '\n')


def stritems_def(xs, j):
    return [stritems(SubSeq(xs, 0, 0)) == Empty(Trace),
            Implies(And(j >= 0, j < Length(xs)), stritems(SubSeq(xs, 0, j + 1)) == Concat(stritems(SubSeq(xs, 0, j)), Unit(em(OUT, Ev.Item(V.VStr(xs[j])))))),
            SubSeq(xs, 0, Length(xs)) == xs]


class LineFrame(FnCase):
    name = 'line.frame/on_next'

    def setup(self, eng, p):
        self.eng = eng
        q, hs, obs = build_plain(eng, p, 'rxsci.framing.line', 'frame', [])
        self.wiring = isinstance(hs.get('on_completed'), Bound) and isinstance(hs.get('on_error'), Bound)
        q.trace = T0; q.calls = []; q.pc = []
        self.path = q
        return hs['on_next'], [SStr(S_)], {}

    def ensures(self, q, ret):
        return [('emits_item_plus_newline', q.trace == Concat(T0, Unit(em(OUT, Ev.Item(V.VStr(Concat(S_, NL))))))), ('wiring', BoolVal(self.wiring))]


class LineUnframe(FnCase):
    def __init__(self, handler):
        self.handler = handler
        self.name = f'line.unframe/{handler}'
        self.loop_contracts = {('rxsci.framing.line.unframe._unframe.on_subscribe.on_next', 0):
                               InvLoop(self.inv, modifies=('trace', 'locals'), lemmas=self.lemmas)}

    def inv(self, L, q, j):
        return [('emitted_prefix', q.trace == Concat(T0, stritems(SubSeq(self.loop_seq(L), 0, j))))]

    def lemmas(self, L, q, j):
        return stritems_def(self.loop_seq(L), j)

    def loop_seq(self, L):
        return L.extra_seq if hasattr(L, 'extra_seq') else L.__dict__.setdefault('extra_seq', None)

    def setup(self, eng, p):
        self.eng = eng
        q, hs, obs = build_plain(eng, p, 'rxsci.framing.line', 'unframe', [])
        self.h = hs[self.handler]
        self.hstate = hs['on_next']          # the handler that owns (assigns) the remainder; on_completed only reads it
        bind(q, self.hstate, 'acc', SStr(ACC), role=lambda v: v == '')
        q.trace = T0; q.calls = []; q.pc = []
        self.path = q
        # the loop iterates over lines[0:-1]: remember that sequence for the invariant when the loop is reached
        lc = self.loop_contracts[('rxsci.framing.line.unframe._unframe.on_subscribe.on_next', 0)]
        orig_apply = lc.apply
        def apply(eng_, p_, s_, itv, fr):
            c = p_.heap[itv.oid]
            lc.extra_seq = c[1]
            return orig_apply(eng_, p_, s_, itv, fr)
        lc.apply = apply
        self.lc = lc
        return self.h, ([SStr(S_)] if self.handler == 'on_next' else []), {}

    def requires(self):
        return [Not(Contains(ACC, NL))]

    def ensures(self, q, ret):
        eng = self.eng
        acc1 = eng.to_str(q, get_cell(q, self.hstate, 'acc'))
        if self.handler == 'on_completed':
            return [('delivers_trailing_line_iff_non_empty', q.trace == If(Length(ACC) > 0, Concat(T0, Unit(em(OUT, Ev.Item(V.VStr(ACC)))), Unit(em(OUT, Ev.Done))),
                                                                           Concat(T0, Unit(em(OUT, Ev.Done)))))]
        (s, sep, parts), = q.ghost['splits']
        E = self.lc.extra_seq            # the emitted lines
        n = Length(parts)
        j = Int('lj')
        rest = SubSeq(parts, 1, n - 2)
        hints = [Implies(n > 1, SubSeq(parts, 0, n - 1) == Concat(Unit(parts[0]), rest)),
                 joinnl(Concat(Unit(parts[0]), rest)) == Concat(parts[0], NL, joinnl(rest)),
                 joinnl(Concat(Unit(Concat(ACC, parts[0])), rest)) == Concat(ACC, parts[0], NL, joinnl(rest)),
                 joinnl(Empty(StrSeq)) == StringVal(''),
                 Implies(n == 1, SubSeq(parts, 0, n - 1) == Empty(StrSeq))]
        E_closed = If(n > 1, Concat(Unit(Concat(ACC, parts[0])), rest), Empty(StrSeq))
        acc_closed = If(n > 1, parts[n - 1], Concat(ACC, parts[0]))
        closed = [E == E_closed, acc1 == acc_closed]
        jsk = Int('j_sk')
        return [
            ('emits_the_completed_lines', q.trace == Concat(T0, stritems(E))),
            # closed forms of what the code computed: first line completed by the previous remainder, last part kept
            ('lines_are', E == E_closed, {'defs': hints}),
            ('remainder_is', acc1 == acc_closed, {'defs': hints}),
            # the framing invariant step: what was received == the lines delivered (each followed by a newline) ++ the new remainder
            ('stream_equation', Concat(ACC, S_) == Concat(joinnl(E_closed), acc_closed), {'defs': hints}),
            ('remainder_newline_free', Not(Contains(acc_closed, NL)), {'defs': hints + [Not(Contains(parts[0], NL)), Not(Contains(parts[n - 1], NL))]}),
            ('lines_newline_free', Implies(And(jsk >= 0, jsk < Length(E_closed)), Not(Contains(E_closed[jsk], NL))),
             {'defs': hints + [Not(Contains(parts[0], NL)), Implies(And(jsk >= 1, jsk < n - 1), Not(Contains(parts[jsk], NL)))]}),
        ]


# ================================================================================================ length prefix
BYTES = Bytes
B_ = Const('chunk_b', BYTES); BACC = Const('acc0_b', BYTES)
frames_tr = Function('frames_tr', BYTES, IntSort(), IntSort(), Trace)     # emissions for the complete frames at the front of b (P, order)
rest_of = Function('rest_of', BYTES, IntSort(), IntSort(), BYTES)          # what remains after them


def lp_def(b, P, order):
    """defining equations of frames_tr / rest_of at b"""
    n = Length(b)
    size = int_of_bytes(SubSeq(b, 0, P), order)
    has = And(n >= P, n - P >= size)
    tail = SubSeq(b, P + size, n - P - size)
    return [If(has, And(frames_tr(b, P, order) == Concat(Unit(em(OUT, Ev.Item(V.VBytes(SubSeq(b, P, size))))), frames_tr(tail, P, order)),
                        rest_of(b, P, order) == rest_of(tail, P, order)),
               And(frames_tr(b, P, order) == Empty(Trace), rest_of(b, P, order) == b))]


class LPFrame(FnCase):
    def __init__(self, P, order):
        self.P = P; self.order = order
        self.name = f'length_prefix.frame[{P},{order}]/on_next'

    def setup(self, eng, p):
        self.eng = eng
        q, hs, obs = build_plain(eng, p, 'rxsci.framing.length_prefix', 'frame', [self.P, self.order])
        q.trace = T0; q.calls = []; q.pc = []
        self.path = q
        return hs['on_next'], [SBytes(B_)], {}

    def requires(self):
        return [Length(B_) < 256 ** self.P]           # round-trip precondition of C15: the length fits the prefix

    def ensures(self, q, ret):
        o = IntVal(1 if self.order == 'little' else 0)
        return [('emits_header_then_payload', q.trace == Concat(T0, Unit(em(OUT, Ev.Item(V.VBytes(Concat(bytes_of_int(Length(B_), IntVal(self.P), o), B_)))))))]


class LPUnframe(FnCase):
    def __init__(self, P, order):
        self.P = P; self.order = order
        self.name = f'length_prefix.unframe[{P},{order}]/on_next'
        self.o = IntVal(1 if order == 'little' else 0)
        self.loop_contracts = {('rxsci.framing.length_prefix.unframe._unframe.on_subscribe.on_next', 0):
                               InvLoop(self.inv, modifies=('trace', 'locals', 'heap'), lemmas=self.lemmas)}

    def buf(self):
        return Concat(BACC, B_)

    def roles(self):
        """names of the two locals the invariant talks about, by role: the stream object and the int passed to its seek()"""
        if not hasattr(self, '_roles'):
            import ast
            bio = off = None
            for n in ast.walk(self.h.node):
                if isinstance(n, ast.Call) and isinstance(n.func, ast.Attribute) and n.func.attr == 'seek' and isinstance(n.func.value, ast.Name) \
                        and n.args and isinstance(n.args[0], ast.Name):
                    bio, off = n.func.value.id, n.args[0].id
            self._roles = (bio, off)
        return self._roles

    def state(self, L, q):
        bio_n, off_n = self.roles()
        c_off, c_bio = (L.scope_lookup(off_n) if off_n else None), (L.scope_lookup(bio_n) if bio_n else None)
        if c_off is None or c_bio is None or c_off not in q.cells or c_bio not in q.cells:
            raise Unsupported('length_prefix.unframe: cannot identify the stream object and the consumed-bytes counter (seek(<counter>)) of the loop')
        off = self.eng.to_int(q, q.cells[c_off])
        bio = q.cells[c_bio]
        c = q.heap[bio.oid]
        return off, c[1], c[2]

    def inv(self, L, q, j):
        off, content, pos = self.state(L, q)
        b = self.buf(); P = IntVal(self.P)
        suffix = SubSeq(b, off, Length(b) - off)
        return [('bounds', And(off >= 0, off <= Length(b))),
                ('buffer_untouched', content == b), ('stream_position', pos == off),
                ('frames_so_far', Concat(T0, frames_tr(b, P, self.o)) == Concat(q.trace, frames_tr(suffix, P, self.o))),
                ('rest_preserved', rest_of(b, P, self.o) == rest_of(suffix, P, self.o))]

    def lemmas(self, L, q, j):
        off, content, pos = self.state(L, q)
        b = self.buf()
        n = Length(b)
        suffix = SubSeq(b, off, n - off)
        P = IntVal(self.P)
        size = int_of_bytes(SubSeq(suffix, 0, P), self.o)
        def eoe(a, m):
            # instance of the sequence fact  (b[off:])[a:a+m] == b[off+a:off+a+m]   (obligation seq/extract_of_extract proves it for all arguments)
            return Implies(And(off >= 0, off <= n, a >= 0, m >= 0, a + m <= n - off), SubSeq(suffix, a, m) == SubSeq(b, off + a, m))
        tail_len = n - off - P - size
        return lp_def(suffix, P, self.o) + [eoe(IntVal(0), P), eoe(P, size), eoe(P + size, tail_len),
                                            Implies(And(off >= 0, off <= n, P + size <= n - off), Length(suffix) - P - size == tail_len),
                                            Length(suffix) == If(And(off >= 0, off <= n), n - off, Length(suffix))]

    def setup(self, eng, p):
        self.eng = eng
        q, hs, obs = build_plain(eng, p, 'rxsci.framing.length_prefix', 'unframe', [self.P, self.order])
        self.h = hs['on_next']
        bind(q, self.h, 'acc', SBytes(BACC), role=lambda v: v == b'')
        q.trace = T0; q.calls = []; q.pc = []
        self.path = q
        return self.h, [SBytes(B_)], {}

    def requires(self):
        b = self.buf()
        return [SubSeq(b, 0, Length(b)) == b]

    def ensures(self, q, ret):
        eng = self.eng
        acc1 = eng.to_bytes(q, get_cell(q, self.h, 'acc'))
        b = self.buf(); P = IntVal(self.P)
        off = Int('off_sk')
        return [('emits_exactly_the_complete_frames', q.trace == Concat(T0, frames_tr(b, P, self.o))),
                ('keeps_exactly_the_incomplete_tail', acc1 == rest_of(b, P, self.o))]


class SeqLemma(FnCase):
    name = 'seq/extract_of_extract'

    def setup(self, eng, p):
        from .helpers import ast_lambda_none
        return Closure(ast_lambda_none(), None, 'rxsci.framing.length_prefix', 'noop'), [], {}

    def ensures(self, q, ret):
        b = Const('lb', BYTES); off, a, n = Ints('l_off l_a l_n')
        L = Length(b)
        return [('for_all_arguments', Implies(And(off >= 0, off <= L, a >= 0, n >= 0, a + n <= L - off), SubSeq(SubSeq(b, off, L - off), a, n) == SubSeq(b, off + a, n)))]


def unit_framing(opts):
    which = opts.get('which', 'all')
    cases = []
    if which in ('all', 'line'):
        cases += [LineFrame(), LineUnframe('on_next'), LineUnframe('on_completed')]
    if which in ('all', 'length_prefix'):
        cases += [SeqLemma()]
        for P in (1, 2, 4, 8):
            for order in ('little', 'big'):
                cases += [LPFrame(P, order), LPUnframe(P, order)]
    return run_cases(f'framing.{which}', cases, opts)
