"""Contracts of the key-spawning operators: split (C06), time_split (C07), group_by (C04), roll (C05) -- plus what C02, C03,
C11 need from them (slot confinement, lifecycle well-formedness, per-call promptness)."""
from .base import *
from ..loops import InvLoop
from ..engine import Path


def inner(k, idx=None):
    return Key.KK(Key.h(k) if idx is None else idx, k)


class Spawner(KT):
    """Create: allocate + announce the parent on the outer channel only.  Probe: both channels."""
    frees_on_completed = False
    cases = ('Create', 'Next', 'Completed', 'Other')     # Error branch: unconstrained by the properties (DESIGN A5')

    def on_create(self, c, q):
        out = [('emits.outer_only', c.emits(q, em(OUTER, Ev.Create(c.k))))]
        for st in c.states:
            out.append((f'slot{st.ord}.init', self.init_slot(c, q, st)))
            out.append((f'slot{st.ord}.frame', c.frame(q, st, c.k0)))
        return out


# ================================================================================================ split (C06)
class SplitMux(Spawner):
    name = 'split_mux'; module = 'rxsci.data.split'; factory = 'split_mux'
    properties = ('C06', 'C02', 'C03', 'C11')
    states_decl = [('obj', None)]
    cases = ('Create', 'Next', 'Completed', 'Error', 'Other')

    def configs(self):
        yield {'name': 'predicate', 'args': [UserFn('predicate')], 'kws': {}, 'symbols': {}}

    def inv(self, c, slots, hist):
        (m, v), = slots
        n = Length(hist)
        # the slot holds the predicate value of the PREVIOUS ITEM of this lifetime (the property compares each item with the previous one;
        # == need be neither reflexive -- NaN -- nor transitive -- OrderedDict / dict / OrderedDict -- so "a value equal to it" is too weak)
        last = ufn('predicate')(hist[n - 1])
        return And((m == M_NOTSET) == (n == 0), Implies(m == M_SET, v == last))

    def may_raise(self, c, q):
        return BoolVal(isinstance(q.exc, ExcV) and q.exc.origin == 'predicate')

    def on_next(self, c, q):
        st = c.states[0]; h = self.hist(c); n = Length(h)
        if q.exc is not None:
            return [('nothing_emitted', c.emits(q)), ('slot.unchanged', c.frame(q, st))]
        p = ufn('predicate')(c.x)
        ik = inner(c.k)
        cr, nx, cp = em(OUT, Ev.Create(ik)), em(OUT, Ev.Next(ik, c.x)), em(OUT, Ev.Completed(ik))
        changed = Not(py_eq(p, ufn('predicate')(h[n - 1])))      # from the statement: differs (by !=) from the previous item's
        spec = If(n == 0, Concat(c.trace0, Unit(cr), Unit(nx)),
                  If(changed, Concat(c.trace0, Unit(cp), Unit(cr), Unit(nx)), Concat(c.trace0, Unit(nx))))
        return [('emits', q.trace == spec),
                ('inv.preserved', self.inv(c, [c.slot(q, st)], Concat(h, Unit(c.x)))),
                ('frame', c.frame(q, st, c.k0)),
                ('calls.predicate_once', c.calls_are(q, [('predicate', [c.x])]))]

    def on_completed(self, c, q):
        st = c.states[0]; h = self.hist(c)
        ik = inner(c.k)
        spec = If(Length(h) > 0, Concat(c.trace0, Unit(em(OUT, Ev.Completed(ik))), Unit(em(OUTER, Ev.Completed(c.k)))),
                  Concat(c.trace0, Unit(em(OUTER, Ev.Completed(c.k)))))
        return [('emits', q.trace == spec), ('frame', c.frame(q, st, c.k0))]

    def on_error(self, c, q):
        st = c.states[0]
        out = [('frame', c.frame(q, st, c.k0))]
        if c.pid == 'C03':
            # C03: a mux error is not a completion: the open segment of the key stays open, so what the operator remembers about it stays
            (m0, v0), (m1, v1) = c.slot0(st), c.slot(q, st)
            out.append(('open_segment_kept_on_error', And(m1 == m0, v1 == v0)))
        return out


# ================================================================================================ time_split (C07)
class TimeSplitMux(Spawner):
    name = 'time_split_mux'; module = 'rxsci.data.time_split'; factory = 'time_split_mux'
    properties = ('C07', 'C02', 'C03', 'C11')
    states_decl = [('obj', None), ('obj', None)]
    frees_on_completed = True
    cases = ('Create', 'Next', 'Completed', 'Error', 'Other')

    def configs(self):
        a, ia = z3.Real('active_timeout'), z3.Real('inactive_timeout')
        inc = z3.Bool('include_closing_item')
        for A in (False, True):
            for I in (False, True):
                for C in (False, True):
                    yield {'name': f'active={A},inactive={I},closing={C}',
                           'args': [UserFn('time_mapper', ret='real'), SReal(a) if A else None, SReal(ia) if I else None,
                                    UserFn('closing_mapper') if C else None, SBool(inc)], 'kws': {},
                           'symbols': {'A': A, 'I': I, 'C': C, 'a': a, 'ia': ia, 'inc': inc},
                           'assume': [a > 0, ia > 0]}

    def tm(self, x):
        return V.r(ufn('time_mapper')(x))

    def inv(self, c, slots, hist):
        (ms, vs), (ml, vl) = slots
        return And(ms == ml, Implies(ms == M_SET, And(V.is_VReal(vs), V.is_VReal(vl))), (ms == M_NOTSET) == (Length(hist) == 0))

    def may_raise(self, c, q):
        return BoolVal(isinstance(q.exc, ExcV) and q.exc.origin in ('time_mapper', 'closing_mapper'))

    def on_next(self, c, q):
        s_start, s_last = c.states
        if q.exc is not None:
            return []        # a raising time_mapper / closing_mapper propagates to the source: outside C07
        P = c.params
        t = self.tm(c.x)
        (ms, vs), (ml, vl) = c.slot0(s_start), c.slot0(s_last)
        first = ms == M_NOTSET
        start = If(first, t, V.r(vs)); last = If(first, t, V.r(vl))
        expired = Or(And(BoolVal(P['A']), t >= start + P['a']), And(BoolVal(P['I']), t >= last + P['ia']))
        closing = And(BoolVal(P['C']), truthy(ufn('closing_mapper')(c.x)))     # "closing_mapper accepts it": any truthy result
        ik = inner(c.k)
        cr, nx, cp = Unit(em(OUT, Ev.Create(ik))), Unit(em(OUT, Ev.Next(ik, c.x))), Unit(em(OUT, Ev.Completed(ik)))
        pre = If(first, Concat(c.trace0, cr), c.trace0)
        # a closing item that belongs to the next window closes the current window -- unless it is the first item of the key: the window
        # just opened for it is not closed empty
        spec = If(expired, Concat(pre, cp, cr, nx),
                  If(closing, If(P['inc'], Concat(pre, nx, cp, cr), If(first, Concat(pre, nx), Concat(pre, cp, cr, nx))),
                     Concat(pre, nx)))
        restart = Or(first, expired, closing)
        (ms1, vs1), (ml1, vl1) = c.slot(q, s_start), c.slot(q, s_last)
        return [('emits', q.trace == spec),
                ('start', And(ms1 == M_SET, vs1 == V.VReal(If(restart, t, V.r(vs))))),
                ('last', And(ml1 == M_SET, vl1 == V.VReal(t))),
                ('frame.start', c.frame(q, s_start, c.k0)), ('frame.last', c.frame(q, s_last, c.k0))]

    def on_completed(self, c, q):
        s_start, s_last = c.states
        ik = inner(c.k)
        ms, _ = c.slot0(s_start)
        spec = If(ms == M_SET, Concat(c.trace0, Unit(em(OUT, Ev.Completed(ik))), Unit(em(OUTER, Ev.Completed(c.k)))),
                  Concat(c.trace0, Unit(em(OUTER, Ev.Completed(c.k)))))
        return [('emits', q.trace == spec),
                ('freed', And(c.slot_is(q, s_start, M_ABSENT), c.slot_is(q, s_last, M_ABSENT))),
                ('frame.start', c.frame(q, s_start, c.k0)), ('frame.last', c.frame(q, s_last, c.k0))]

    def on_error(self, c, q):
        s_start, s_last = c.states
        out = [('frame.start', c.frame(q, s_start, c.k0)), ('frame.last', c.frame(q, s_last, c.k0))]
        if c.pid == 'C03':
            # C03: a mux error is not a completion: the open window of the key stays open, so its reference timestamps stay (known finding KF1:
            # the handler deletes them, and the next item of the key is delivered to a window that is never created)
            (a0, b0), (a1, b1) = c.slot0(s_start), c.slot(q, s_start)
            (c0, d0), (c1, d1) = c.slot0(s_last), c.slot(q, s_last)
            out.append(('open_window_kept_on_error', And(a1 == a0, b1 == b0, c1 == c0, d1 == d0)))
        return out


# ================================================================================================ group_by (C04)
gcompl = Function('gcompl', Key, ArraySort(Val, IntSort()), ValSeq, Trace)   # [Completed((idx[g], k)) for g in keys]


def gcompl_def(k, idx, keys, j):
    return [gcompl(k, idx, SubSeq(keys, 0, 0)) == Empty(Trace),
            Implies(And(j >= 0, j < Length(keys)),
                    gcompl(k, idx, SubSeq(keys, 0, j + 1)) ==
                    Concat(gcompl(k, idx, SubSeq(keys, 0, j)), Unit(em(OUT, Ev.Completed(Key.KK(Select(idx, canon(keys[j])), k)))))),
            SubSeq(keys, 0, Length(keys)) == keys]


class GroupByMux(Spawner):
    name = 'group_by_mux'; module = 'rxsci.operators.group_by'; factory = 'group_by_mux'
    properties = ('C04', 'C02', 'C03', 'C11')
    states_decl = [('mapper', None)]
    frees_on_completed = True

    def __init__(self):
        def iterates_the_map(fn, node):
            import ast
            return fn.startswith('rxsci.operators.group_by.') and isinstance(node, ast.For) and isinstance(node.iter, ast.Call) and \
                isinstance(node.iter.func, ast.Attribute) and node.iter.func.attr == 'iterate_map'
        # the completion loop, wherever it lives (on_next itself or a local helper shared with the error branch)
        self.loop_contracts = {('match', iterates_the_map): InvLoop(self.loop_inv, modifies=('trace', 'locals'), lemmas=self.loop_lemmas)}

    def configs(self):
        yield {'name': 'key_mapper', 'args': [UserFn('key_mapper')], 'kws': {}, 'symbols': {}}

    def pre_maps(self):
        dom = Const('dom0', ArraySort(IntSort(), ArraySort(Val, BoolSort())))
        idx = Const('idx0', ArraySort(IntSort(), ArraySort(Val, IntSort())))
        order = Const('order0', ArraySort(IntSort(), ValSeq))
        return dom, idx, order

    def loop_inv(self, L, q, j):
        dom, idx, order = self.pre_maps()
        k = Const('k', Key); k0 = Key.h(k)
        keys = Select(order, k0)
        return [('completed_prefix_in_insertion_order', q.trace == Concat(L.pre.trace, gcompl(k, Select(idx, k0), SubSeq(keys, 0, j)))),
                ('maps_unchanged', And(*[q.store.extra[('map', 0)][i] == L.pre.store.extra[('map', 0)][i] for i in range(4)])),
                ('markers_unchanged', And(q.store.marker[0] == L.pre.store.marker[0]))]

    def loop_lemmas(self, L, q, j):
        dom, idx, order = self.pre_maps()
        k = Const('k', Key); k0 = Key.h(k)
        keys = Select(order, k0)
        # instance (at the loop index) of the store invariant stated in `requires`
        return gcompl_def(k, Select(idx, k0), keys, j) + [Implies(And(j >= 0, j < Length(keys)), Select(Select(dom, k0), canon(keys[j])))]

    def requires(self, c):
        r = [c.k0 >= 0]
        if c.case in ('Next', 'Completed'):
            st = c.states[0]
            m, _ = c.slot0(st)
            dom, idx, order, in_use = c.maps0[st.ord]
            g = Const('rg', Val); j = Int('rj')
            r.append(m == M_SET)
            # store invariant (C14): every key of the insertion order is mapped, every mapped index is in use
            r.append(ForAll([j], Implies(And(j >= 0, j < Length(Select(order, c.k0))), Select(Select(dom, c.k0), canon(Select(order, c.k0)[j])))))
            r.append(ForAll([g], Implies(Select(Select(dom, c.k0), g), Select(in_use, Select(Select(idx, c.k0), g)))))
            keys = Select(order, c.k0)
            r += gcompl_def(c.k, Select(idx, c.k0), keys, IntVal(0))[:1] + [SubSeq(keys, 0, Length(keys)) == keys]
        return r

    def may_raise(self, c, q):
        return BoolVal(isinstance(q.exc, ExcV) and q.exc.origin == 'key_mapper')

    def on_next(self, c, q):
        st = c.states[0]
        if q.exc is not None:
            return [('nothing_emitted', c.emits(q))]
        dom, idx, order, in_use = c.maps0[st.ord]
        dom1, idx1, order1, in_use1 = q.store.extra[('map', st.ord)]
        g0 = ufn('key_mapper')(c.x)
        g = canon(g0)
        known = Select(Select(dom, c.k0), g)
        i_old = Select(Select(idx, c.k0), g)
        i_new = Select(Select(idx1, c.k0), g)
        h = Const('hg', Val); j = Int('hj')
        return [
            # exactly one group per distinct key value (==): a known key goes to its group, a new key opens a fresh group
            ('emits', q.trace == If(known, Concat(c.trace0, Unit(em(OUT, Ev.Next(Key.KK(i_old, c.k), c.x)))),
                                    Concat(c.trace0, Unit(em(OUT, Ev.Create(Key.KK(i_new, c.k)))), Unit(em(OUT, Ev.Next(Key.KK(i_new, c.k), c.x)))))),
            ('new_group.index_fresh', Implies(Not(known), And(Not(Select(in_use, i_new)), i_new >= 0, Select(in_use1, i_new)))),
            ('map.updated', And(Select(Select(dom1, c.k0), g), Implies(known, i_new == i_old))),
            ('map.other_keys', ForAll([h], Implies(h != g, And(Select(Select(dom1, c.k0), h) == Select(Select(dom, c.k0), h),
                                                                  Select(Select(idx1, c.k0), h) == Select(Select(idx, c.k0), h))))),
            ('map.order', Select(order1, c.k0) == If(known, Select(order, c.k0), Concat(Select(order, c.k0), Unit(g0)))),
            ('map.other_parents', ForAll([j], Implies(j != c.k0, And(Select(dom1, j) == Select(dom, j), Select(idx1, j) == Select(idx, j),
                                                                       Select(order1, j) == Select(order, j))))),
            ('markers', c.frame(q, st)),
            ('calls.key_mapper_once', c.calls_are(q, [('key_mapper', [c.x])])),
        ]

    def on_create(self, c, q):
        st = c.states[0]
        dom, idx, order, in_use = c.maps0[st.ord]
        dom1, idx1, order1, in_use1 = q.store.extra[('map', st.ord)]
        j = Int('cj')
        return [('emits.outer_only', c.emits(q, em(OUTER, Ev.Create(c.k)))),
                ('slot.fresh_empty_map', And(c.slot_is(q, st, M_SET), Select(dom1, c.k0) == K(Val, BoolVal(False)), Select(order1, c.k0) == Empty(ValSeq))),
                ('frame', c.frame(q, st, c.k0)),
                ('map.other_parents', ForAll([j], Implies(j != c.k0, And(Select(dom1, j) == Select(dom, j), Select(idx1, j) == Select(idx, j),
                                                                           Select(order1, j) == Select(order, j)))))]

    def on_completed(self, c, q):
        st = c.states[0]
        dom, idx, order, in_use = c.maps0[st.ord]
        return [('emits.groups_completed_in_order_of_first_appearance',
                 q.trace == Concat(c.trace0, gcompl(c.k, Select(idx, c.k0), Select(order, c.k0)), Unit(em(OUTER, Ev.Completed(c.k))))),
                ('slot.freed', c.slot_is(q, st, M_ABSENT)), ('frame', c.frame(q, st, c.k0))]


ALL = [SplitMux(), TimeSplitMux(), GroupByMux()]
for _c in ALL:
    globals()['U_' + _c.name] = _c
