"""C14: contracts of the real MemoryStore / Store / StoreManager / StateTopology code.

The postconditions below ARE the handler-level store contract of rxv/storemodel.py, stated on the abstract view
    view(j) = (state[j], values[j]) for 0 <= j < len,   ABSENT beyond len
so that every operator proof (C01-C13) rests on obligations discharged here and on nothing else about the store."""
import itertools
import z3
from z3 import (And, Or, Not, Implies, If, IntVal, BoolVal, Const, Consts, Int, Ints, Array, Select, Store, K, Length, ForAll,
                IntSort, BoolSort, Concat, Unit, Empty, ArraySort)
from ..sorts import *
from ..values import *
from ..engine import Path, Unsupported
from ..fnharness import FnCase, run_cases
from ..loops import InvLoop

MOD = 'rxsci.state.memory_store'
DTYPES = [('int', 'int', 'q'), ('uint', 'int', 'Q'), ('float', 'real', 'd'), ('bool', 'int', 'B'), ('obj', 'val', None), ('mapper', 'dict', None)]


def dtype_sv(name):
    return {'int': PyType('int'), 'float': PyType('float'), 'bool': PyType('bool')}.get(name, name)


class StoreObj:
    """symbolic well-formed MemoryStore instance"""

    def __init__(self, eng, p, dtype, kind, code, with_default):
        self.dtype = dtype; self.kind = kind
        self.n = Int('n')
        self.state_a = Array('state_a', IntSort(), Val)
        self.values_a = Array('values_a', IntSort(), Val)
        self.keys_a = Array('keys_a', IntSort(), Val)
        self.state = eng.new_obj(p, 'arr', ('arr', self.state_a, self.n, 'int', 'B'))
        self.keys = eng.new_obj(p, 'arr', ('arr', self.keys_a, self.n, 'val', None))
        if kind == 'dict':
            self.dom = Array('dom', IntSort(), ArraySort(Val, BoolSort()))
            self.val = Array('mval', IntSort(), ArraySort(Val, IntSort()))
            self.order = Array('order', IntSort(), ValSeq)
            self.values = eng.new_obj(p, 'arr', ('arr', self.values_a, self.n, 'dict', None, self.dom, self.val, self.order))
        else:
            self.values = eng.new_obj(p, 'arr', ('arr', self.values_a, self.n, kind, code))
        self.default = None
        if with_default:
            d = Const('default', Val)
            self.default_t = d
            self.default = {'int': SInt(V.i(d)), 'real': SReal(V.r(d)), 'val': SVal(d)}[kind] if dtype != 'bool' else SBool(V.b(d))
        self.next_index = Int('next_index')
        self.free_a = Array('free_a', IntSort(), Val)
        self.free_n = Int('free_n')
        self.free = eng.new_obj(p, 'arr', ('arr', self.free_a, self.free_n, 'int', 'Q'))
        fields = {'state': self.state, 'values': self.values, 'keys': self.keys, 'is_mapper': dtype == 'mapper',
                  'default_value': self.default, 'data_type': dtype_sv(dtype), 'next_index': SInt(self.next_index),
                  'free_slots': self.free}
        # scalar configuration fields come from the REAL constructor (run symbolically for this data type / default); the containers
        # it creates (empty) are generalised to arbitrary well-formed contents.  A field the constructor starts to set is thus seen.
        self.init_fields = {}
        try:
            init = eng.world.class_method((MOD, 'MemoryStore'), '__init__')
            blank = eng.new_obj(p, 'obj', ('obj', {}, (MOD, 'MemoryStore')))
            res = eng.call(p, init, [blank], {'name': None, 'data_type': dtype_sv(dtype), 'default_value': self.default})
            if len(res) == 1 and res[0][0].exc is None:
                self.init_fields = dict(p.heap[blank.oid][1])
                for k_, v_ in self.init_fields.items():
                    if k_ not in fields and not isinstance(v_, Ref):
                        fields[k_] = v_
                    elif k_ not in fields:
                        fields[k_] = v_
        except Unsupported as u:
            self.init_unsupported = str(u)
        # a field the contract does not know about and that some method other than __init__ assigns (a cache, a counter ...) holds, in
        # a well-formed object reached by an arbitrary history, whatever those methods left there: it gets an ARBITRARY value, not the
        # constructor's (no invariant is declared for it).  A refutation that depends on it is a candidate only (the value may be
        # unreachable): it needs a failing real operation sequence (bounded tier) to count.
        self.havoc_fields = []
        try:
            import ast as _ast
            cls = eng.world.module(MOD).classes['MemoryStore']
            assigned = set()
            for fn_ in cls.body:
                if isinstance(fn_, _ast.FunctionDef) and fn_.name != '__init__':
                    for n_ in _ast.walk(fn_):
                        tg = []
                        if isinstance(n_, _ast.Assign): tg = n_.targets
                        elif isinstance(n_, (_ast.AugAssign, _ast.AnnAssign)): tg = [n_.target]
                        for t_ in tg:
                            for a_ in _ast.walk(t_):
                                if isinstance(a_, _ast.Attribute) and isinstance(a_.value, _ast.Name) and a_.value.id == 'self' and isinstance(a_.ctx, _ast.Store):
                                    assigned.add(a_.attr)
            known = {'state', 'values', 'keys', 'is_mapper', 'default_value', 'data_type', 'next_index', 'free_slots'}
            for k_ in sorted(assigned - known):
                fields[k_] = SVal(Const(f'field_{k_}', Val)); self.havoc_fields.append(k_)
        except Exception as ex:
            self.havoc_error = f'{type(ex).__name__}: {ex}'
        self.ref = eng.new_obj(p, 'obj', ('obj', fields, (MOD, 'MemoryStore')))

    def S(self, j): return V.i(Select(self.state_a, j))

    def wf(self):
        j = Int('wfj')
        r = [self.n >= 0, ForAll([j], Implies(And(j >= 0, j < self.n), And(self.S(j) >= 0, self.S(j) <= 2)))]
        if self.dtype == 'uint' and self.default is not None:
            r.append(self.default.t >= 0)
        if self.kind == 'val' and self.default is not None:
            r.append(Not(V.is_VNone(self.default_t)))      # default_value=None means "no default" 
        if self.dtype == 'bool' and self.default is not None:
            pass
        return r

    def M(self, j):
        """marker view"""
        return If(And(j >= 0, j < self.n), self.S(j), IntVal(M_ABSENT))

    # post-state accessors on a path
    def post(self, q):
        cs, cv, ck = q.heap[self.state.oid], q.heap[self.values.oid], q.heap[self.keys.oid]
        return cs, cv, ck

    def M1(self, q, j):
        cs = q.heap[self.state.oid]
        return If(And(j >= 0, j < cs[2]), V.i(Select(cs[1], j)), IntVal(M_ABSENT))

    def wf1(self, q):
        cs, cv, ck = self.post(q)
        return And(cs[2] == cv[2], cs[2] == ck[2], cs[2] >= 0)


def key_sv():
    return SKey(Const('key', Key))


K0 = Key.h(Const('key', Key))


def _store_e2e():
    """failing real operation sequence on MemoryStore, if the scripted / random sequences of the bounded tier find one"""
    from ..bounded.mux import check_c14
    r = check_c14({'tier': 'quick'})
    from ..bounded.mux import first_new_failure
    return first_new_failure(r)


class MethodCase(FnCase):
    def __init__(self, method, dtype, kind, code, with_default):
        self.method = method; self.dtype = dtype; self.kind = kind; self.code = code; self.with_default = with_default
        self.name = f'MemoryStore.{method}[{dtype}{",default" if with_default else ""}]'
        self.loop_contracts = {}
        if method == 'add_key':
            self.loop_contracts[(f'{MOD}.MemoryStore.add_key', 0)] = InvLoop(self.add_key_inv, modifies=('heap',))

    def add_key_inv(self, L, q, j):
        o = self.o
        cs, cv, ck = o.post(q)
        i = Int('ai')
        grown = And(cs[2] == o.n + j, cv[2] == o.n + j, ck[2] == o.n + j)
        old = ForAll([i], Implies(And(i >= 0, i < o.n), And(Select(cs[1], i) == Select(o.state_a, i), Select(cv[1], i) == Select(o.values_a, i))))
        new = ForAll([i], Implies(And(i >= o.n, i < o.n + j), V.i(Select(cs[1], i)) == M_ABSENT))
        inv = [('lengths', grown), ('old_cells', old), ('new_cells_cleared', new)]
        if o.kind == 'dict':
            inv.append(('maps_untouched', And(cv[5] == o.dom, cv[6] == o.val, cv[7] == o.order)))
        return inv

    def setup(self, eng, p):
        self.eng = eng
        self.o = StoreObj(eng, p, self.dtype, self.kind, self.code, self.with_default)
        if self.o.havoc_fields:
            # refutations may depend on an unreachable value of a field the contract knows nothing about: they count only with a failing
            # real operation sequence (native replay from the constructor's field values, or the operation scripts of the bounded tier)
            self.internal_representation = True
            self.e2e = _store_e2e
        self.value = Const('value', Val)
        m = eng.world.class_method((MOD, 'MemoryStore'), self.method)
        args = [self.o.ref, key_sv()]
        if self.method == 'set':
            v = {'int': SInt(V.i(self.value)), 'real': SReal(V.r(self.value)), 'val': SVal(self.value)}.get(self.kind)
            if self.dtype == 'bool': v = SBool(V.b(self.value))
            self.value_sv = v
            args.append(v)
        return m, args, {}

    def requires(self):
        o = self.o
        r = o.wf() + [Key.is_KK(Const('key', Key)), K0 >= 0]
        if self.method in ('get', 'set', 'del_key', 'is_set', 'is_cleared'):
            r.append(Or(o.M(K0) == M_NOTSET, o.M(K0) == M_SET))
        if self.method == 'set' and self.dtype == 'uint':
            r.append(V.i(self.value) >= 0)
        return r

    def replay(self, model):
        """native replay: a real MemoryStore is put into the model's pre-state, the real method is called, and the same ensures clauses are
        evaluated on the real post-state"""
        if self.kind == 'dict':
            return None
        import importlib
        from array import array
        from ..replay import Concretizer
        from ..engine import Path
        conc = Concretizer(model)
        o = self.o
        n = max(0, min(conc.ev(o.n).as_long(), 64))
        ms = importlib.import_module(MOD)
        default = None
        if self.with_default:
            default = {'int': lambda: conc.ev(V.i(o.default_t)).as_long(), 'real': lambda: conc.val(V.VReal(V.r(o.default_t))), 'val': lambda: conc.val(o.default_t)}[self.kind]() \
                if self.dtype != 'bool' else z3.is_true(conc.ev(V.b(o.default_t)))
        real = ms.MemoryStore(data_type={'int': int, 'float': float, 'bool': bool}.get(self.dtype, self.dtype), default_value=default)
        def elem(j):
            t = Select(o.values_a, IntVal(j))
            if self.kind == 'int': return conc.ev(V.i(t)).as_long() % (256 if self.code == 'B' else 2 ** 63)
            if self.kind == 'real': return conc.val(V.VReal(V.r(t)))
            return conc.val(t)
        states = [conc.ev(o.S(IntVal(j))).as_long() % 3 for j in range(n)]
        real.state = array('B', states)
        vals = [elem(j) for j in range(n)]
        real.values = (array(self.code, vals) if self.code else list(vals))
        real.keys = [((j, (0,)) if states[j] != 2 else 2) for j in range(n)]
        key = conc.key(Const('key', Key))
        args = [key]
        if self.method == 'set':
            v = conc.ev(V.i(self.value)).as_long() if self.kind == 'int' and self.dtype != 'bool' else (z3.is_true(conc.ev(V.b(self.value))) if self.dtype == 'bool' else
                 (conc.val(V.VReal(V.r(self.value))) if self.kind == 'real' else conc.val(self.value)))
            args.append(v)
        exc = None; ret = None
        try:
            ret = getattr(real, self.method)(*args)
        except Exception as ex:
            exc = ex
        if exc is not None:
            return {'status': 'reproduced', 'data_type': self.dtype, 'pre': {'state': states, 'values': [repr(x) for x in vals]}, 'call': f'{self.method}{tuple(args)!r}',
                    'failed_clauses': [('no_exception', f'{type(exc).__name__}: {exc}')]}
        # synthetic post-state
        q = Path()
        def arr_of(pylist, conv, base):
            a = base
            for j, x in enumerate(pylist):
                a = Store(a, IntVal(j), conv(x))
            return a
        tv = (lambda x: V.VInt(IntVal(int(x)))) if self.kind == 'int' else (lambda x: conc.term(float(x))) if self.kind == 'real' else conc.term
        q.heap[o.state.oid] = ('arr', arr_of(list(real.state), lambda x: V.VInt(IntVal(int(x))), o.state_a), IntVal(len(real.state)), 'int', 'B')
        q.heap[o.values.oid] = ('arr', arr_of(list(real.values), tv, o.values_a), IntVal(len(real.values)), self.kind, self.code)
        q.heap[o.keys.oid] = ('arr', o.keys_a, IntVal(len(real.keys)), 'val', None)
        import rxsci as rs
        if ret is rs.state.markers.STATE_NOTSET: rsv = Sentinel(SENT_NOTSET)
        elif isinstance(ret, bool) or ret is None or isinstance(ret, (int, float, str)): rsv = ret
        else: rsv = SVal(conc.term(ret))
        failed = []
        for ent in self.ensures(q, rsv):
            val = z3.simplify(conc.m.eval(ent[1], model_completion=True))
            if z3.is_false(val):
                failed.append((ent[0], 'false on the real post-state'))
        return {'status': 'reproduced' if failed else 'not-reproduced', 'data_type': self.dtype, 'default': repr(default),
                'pre': {'state_markers': states, 'values': [repr(x) for x in vals]}, 'call': f'{self.method}{tuple(args)!r}', 'returned': repr(ret),
                'post': {'state_markers': list(real.state), 'values': [repr(x) for x in list(real.values)]}, 'failed_clauses': failed}

    def typed(self, sv):
        e = self.eng
        if self.dtype in ('int', 'uint'): return V.VInt(e.to_int(Path(), sv))
        if self.dtype == 'bool': return V.VInt(e.to_int(Path(), sv))
        if self.dtype == 'float': return V.VReal(e.to_real(Path(), sv))
        return e.to_val(Path(), sv)

    def frame(self, q, except_idx):
        o = self.o
        cs, cv, ck = o.post(q)
        j = Int('fj')
        return ForAll([j], Implies(j != except_idx, And(o.M1(q, j) == o.M(j),
                                                          Implies(And(j >= 0, j < o.n), Select(cv[1], j) == Select(o.values_a, j)))))

    def maps_frame(self, q, except_idx=None):
        o = self.o
        if o.kind != 'dict':
            return BoolVal(True)
        cv = q.heap[o.values.oid]
        j = Int('mj')
        cond = (j != except_idx) if except_idx is not None else BoolVal(True)
        return ForAll([j], Implies(And(cond, j >= 0, j < o.n), And(Select(cv[5], j) == Select(o.dom, j), Select(cv[6], j) == Select(o.val, j),
                                                                    Select(cv[7], j) == Select(o.order, j))))

    def ensures(self, q, ret):
        o = self.o; m = self.method
        cs, cv, ck = o.post(q)
        out = [('well_formed', o.wf1(q))]
        if m == 'add_key':
            out.append(('length', cs[2] == If(o.n > K0 + 1, o.n, K0 + 1)))
            if self.dtype == 'mapper':
                out.append(('slot.fresh_map', And(o.M1(q, K0) == M_SET, Select(cv[5], K0) == K(Val, BoolVal(False)), Select(cv[7], K0) == Empty(ValSeq))))
            elif self.with_default:
                dv = self.typed(o.default)
                out.append(('slot.default', And(o.M1(q, K0) == M_SET, Select(cv[1], K0) == dv)))
            else:
                out.append(('slot.notset', o.M1(q, K0) == M_NOTSET))
            out.append(('frame.other_slots', self.frame(q, K0)))
            out.append(('frame.other_maps', self.maps_frame(q, K0)))
        elif m == 'set':
            out.append(('slot', And(o.M1(q, K0) == M_SET, Select(cv[1], K0) == self.typed(self.value_sv), cs[2] == o.n)))
            out.append(('frame.other_slots', self.frame(q, K0)))
            out.append(('frame.other_maps', self.maps_frame(q, K0 if False else None) if o.kind != 'dict' else BoolVal(True)))
        elif m == 'del_key':
            out.append(('slot.absent', And(o.M1(q, K0) == M_ABSENT, cs[2] == o.n)))
            out.append(('frame.other_slots', self.frame(q, K0)))
            out.append(('frame.other_maps', self.maps_frame(q, K0)))
        elif m == 'get':
            e = self.eng
            stored = Select(o.values_a, K0)
            if self.dtype == 'bool':
                exp = If(o.S(K0) == M_NOTSET, V.VSent(IntVal(SENT_NOTSET)), V.VBool(V.i(stored) != 0))
            elif self.dtype in ('int', 'uint'):
                exp = If(o.S(K0) == M_NOTSET, V.VSent(IntVal(SENT_NOTSET)), V.VInt(V.i(stored)))
            elif self.dtype == 'float':
                exp = If(o.S(K0) == M_NOTSET, V.VSent(IntVal(SENT_NOTSET)), V.VReal(V.r(stored)))
            else:
                exp = If(o.S(K0) == M_NOTSET, V.VSent(IntVal(SENT_NOTSET)), stored)
            if o.kind == 'dict':
                out.append(('result', BoolVal(isinstance(ret, Sentinel) or isinstance(ret, Host))))
            else:
                out.append(('result', e.to_val(q, ret) == exp))
            out.append(('pure', And(cs[1] == o.state_a, cv[1] == o.values_a, cs[2] == o.n, cv[2] == o.n)))
        elif m in ('is_set', 'is_cleared'):
            e = self.eng
            exp = (o.S(K0) == M_SET) if m == 'is_set' else (o.S(K0) == M_ABSENT)
            out.append(('result', e.as_z3_bool(ret if isinstance(ret, bool) else ret.t) == exp))
            out.append(('pure', And(cs[1] == o.state_a, cv[1] == o.values_a, cs[2] == o.n)))
        return out


class MapCase(FnCase):
    """add_map / get_map / del_map / iterate_map on a mapper store, plus the index allocator"""

    def __init__(self, method):
        self.method = method
        self.name = f'MemoryStore.{method}[mapper]'
        self.loop_contracts = {}
        if method == 'iterate_map':
            self.loop_contracts[(f'{MOD}.MemoryStore.iterate_map', 0)] = InvLoop(self.iter_inv, modifies=('trace', 'locals'))

    def iter_inv(self, L, q, j):
        ys = q.ghost['yields'][-1]
        order = Select(self.o.order, K0)
        return [('yielded_prefix', ys == z3.SubSeq(order, 0, j))]

    def setup(self, eng, p):
        self.eng = eng
        self.o = StoreObj(eng, p, 'mapper', 'dict', None, False)
        if self.o.havoc_fields:
            self.internal_representation = True; self.e2e = _store_e2e
        self.mk = Const('map_key', Val)
        self.in_use = Array('in_use', IntSort(), BoolSort())
        m = eng.world.class_method((MOD, 'MemoryStore'), self.method)
        args = [self.o.ref, key_sv()] + ([SVal(self.mk)] if self.method != 'iterate_map' else [])
        return m, args, {}

    def requires(self):
        o = self.o
        j, a, b = Ints('rj ra rb')
        F = lambda t: V.i(Select(o.free_a, t))
        alloc = [o.next_index >= 0, o.free_n >= 0,
                 ForAll([j], Implies(Select(self.in_use, j), And(j >= 0, j < o.next_index))),
                 ForAll([a], Implies(And(a >= 0, a < o.free_n), And(F(a) >= 0, F(a) < o.next_index, Not(Select(self.in_use, F(a)))))),
                 ForAll([a, b], Implies(And(a >= 0, a < b, b < o.free_n), F(a) != F(b)))]
        # every index stored in a map of a live slot is in use (store invariant maintained by add_map)
        kk = Const('rk', Val)
        mapped = ForAll([j, kk], Implies(And(j >= 0, j < o.n, o.S(j) == M_SET, Select(Select(o.dom, j), kk)),
                                         Select(self.in_use, Select(Select(o.val, j), kk))))
        return o.wf() + alloc + [mapped, Key.is_KK(Const('key', Key)), K0 >= 0, o.M(K0) == M_SET, Not(V.is_VSent(self.mk))]

    def ensures(self, q, ret):
        o = self.o; e = self.eng; m = self.method
        cv = q.heap[o.values.oid]
        ck = canon(self.mk)
        dom0, val0, ord0 = Select(o.dom, K0), Select(o.val, K0), Select(o.order, K0)
        out = []
        if m == 'add_map':
            idx = e.to_int(q, ret)
            out.append(('index.not_in_use', Not(Select(self.in_use, idx))))
            out.append(('index.nonneg', idx >= 0))
            out.append(('mapped', And(Select(Select(cv[5], K0), ck), Select(Select(cv[6], K0), ck) == idx)))
            out.append(('order', Select(cv[7], K0) == If(Select(dom0, ck), ord0, Concat(ord0, Unit(self.mk)))))
            kk = Const('ek', Val)
            out.append(('other_keys', ForAll([kk], Implies(kk != ck, And(Select(Select(cv[5], K0), kk) == Select(dom0, kk),
                                                                         Select(Select(cv[6], K0), kk) == Select(val0, kk))))))
            j = Int('ej')
            out.append(('frame.other_maps', ForAll([j], Implies(j != K0, And(Select(cv[5], j) == Select(o.dom, j), Select(cv[6], j) == Select(o.val, j),
                                                                             Select(cv[7], j) == Select(o.order, j))))))
            # allocator invariant re-established with in_use' = in_use + {idx}
            ob = q.heap[o.ref.oid][1]
            nxt = e.to_int(q, ob['next_index']); fr = q.heap[ob['free_slots'].oid]
            a = Int('ea')
            in2 = Store(self.in_use, idx, BoolVal(True))
            F2 = lambda t: V.i(Select(fr[1], t))
            out.append(('allocator.inv', And(nxt >= 0, fr[2] >= 0, ForAll([j], Implies(Select(in2, j), And(j >= 0, j < nxt))),
                                             ForAll([a], Implies(And(a >= 0, a < fr[2]), And(F2(a) >= 0, F2(a) < nxt, Not(Select(in2, F2(a)))))))))
            cs = q.heap[o.state.oid]
            out.append(('markers_untouched', And(cs[1] == o.state_a, cs[2] == o.n)))
        elif m in ('get_map', 'del_map'):
            if isinstance(ret, Sentinel):
                out.append(('result.notset_iff_unmapped', And(BoolVal(ret.k == SENT_NOTSET), Not(Select(dom0, ck)))))
            else:
                out.append(('result.index_iff_mapped', And(Select(dom0, ck), e.to_int(q, ret) == Select(val0, ck))))
            out.append(('pure', And(cv[5] == o.dom, cv[6] == o.val, cv[7] == o.order)))
        elif m == 'iterate_map':
            out.append(('yields_keys_in_insertion_order', BoolVal(isinstance(ret, Host) and ret.kind == 'seqiter') if not isinstance(ret, Host) else ret.seq == ord0))
            out.append(('pure', And(cv[5] == o.dom, cv[6] == o.val, cv[7] == o.order)))
        return out


def unit_memory_store(opts):
    only = opts.get('method')
    cases = []
    for (dtype, kind, code) in DTYPES:
        for with_default in ((False, True) if dtype != 'mapper' else (False,)):
            for m in ('add_key', 'set', 'get', 'del_key', 'is_set', 'is_cleared'):
                if dtype == 'mapper' and m == 'set':
                    continue
                if with_default and m not in ('add_key',):
                    continue
                cases.append(MethodCase(m, dtype, kind, code, with_default))
    for m in ('add_map', 'get_map', 'del_map', 'iterate_map'):
        cases.append(MapCase(m))
    if only:
        cases = [c for c in cases if c.method == only]
    return run_cases(f'memory_store.{only}' if only else 'memory_store', cases, opts)


# ---------------------------------------------------------------------------------------------- allocator, delegation, topology
class InitCase(FnCase):
    """MemoryStore.__init__: an empty, well-formed store whose value container matches the declared data type"""

    def __init__(self, dtype, kind, code, with_default):
        self.dtype = dtype; self.kind = kind; self.code = code; self.with_default = with_default
        self.name = f'MemoryStore.__init__[{dtype}{",default" if with_default else ""}]'

    def setup(self, eng, p):
        self.eng = eng
        init = eng.world.class_method((MOD, 'MemoryStore'), '__init__')
        self.blank = eng.new_obj(p, 'obj', ('obj', {}, (MOD, 'MemoryStore')))
        self.d = SVal(Const('default', Val)) if self.with_default else None
        return init, [self.blank], {'name': None, 'data_type': dtype_sv(self.dtype), 'default_value': self.d}

    def ensures(self, q, ret):
        f = q.heap[self.blank.oid][1]
        def empty(r, want_code):
            if not isinstance(r, Ref): return False
            c = q.heap[r.oid]
            if c[0] == 'list': return len(c[1]) == 0 and want_code is None
            if c[0] == 'arr': return z3.is_int_value(z3.simplify(c[2])) and z3.simplify(c[2]).as_long() == 0 and (len(c) > 4 and c[4] == want_code)
            return False
        out = [('values_container_matches_type', BoolVal(empty(f.get('values'), self.code))),
               ('markers_empty_byte_array', BoolVal(empty(f.get('state'), 'B'))), ('keys_empty', BoolVal(empty(f.get('keys'), None))),
               ('mapper_flag', BoolVal(f.get('is_mapper') is (self.dtype == 'mapper'))),
               ('default_kept', BoolVal((f.get('default_value') is self.d)))]
        if self.dtype == 'mapper':
            out.append(('allocator_initialised', BoolVal(f.get('next_index') == 0 and empty(f.get('free_slots'), 'Q'))))
        return out


iterS = Function('iterate_spec', IntSort(), ValSeq)     # what iterate() has yielded after looking at cells 0..j-1


class IterateCase(FnCase):
    """MemoryStore.iterate(): yields (key, value, is_set) for exactly the cells that are not cleared, in ascending index order"""

    def __init__(self, dtype, kind, code):
        self.dtype = dtype; self.kind = kind; self.code = code
        self.name = f'MemoryStore.iterate[{dtype}]'
        self.loop_contracts = {(f'{MOD}.MemoryStore.iterate', 0): InvLoop(self.inv, modifies=('trace', 'locals'), lemmas=self.lemmas)}

    def item(self, j):
        o = self.o
        v = Select(o.values_a, j)
        if self.kind == 'int': v = V.VInt(V.i(v))          # typed arrays hand back numbers of their element type
        elif self.kind == 'real': v = V.VReal(V.r(v))
        return tup(Select(o.keys_a, j), v, V.VBool(o.S(j) == M_SET))

    def inv(self, L, q, j):
        return [('yielded_so_far', q.ghost['yields'][-1] == iterS(j))]

    def lemmas(self, L, q, j):
        o = self.o
        return [iterS(IntVal(0)) == Empty(ValSeq),
                Implies(And(j >= 0, j < o.n), iterS(j + 1) == If(o.S(j) != M_ABSENT, Concat(iterS(j), Unit(self.item(j))), iterS(j)))]

    def setup(self, eng, p):
        self.eng = eng
        self.o = StoreObj(eng, p, self.dtype, self.kind, self.code, False)
        if self.o.havoc_fields:
            self.internal_representation = True; self.e2e = _store_e2e
        return eng.world.class_method((MOD, 'MemoryStore'), 'iterate'), [self.o.ref], {}

    def requires(self):
        return self.o.wf() + [iterS(IntVal(0)) == Empty(ValSeq)]

    def ensures(self, q, ret):
        o = self.o
        cs, cv, ck = o.post(q)
        return [('yields_exactly_the_non_cleared_cells_in_index_order', ret.seq == iterS(o.n) if isinstance(ret, Host) and ret.kind == 'seqiter' else BoolVal(False)),
                ('pure', And(cs[1] == o.state_a, cv[1] == o.values_a, cs[2] == o.n))]


class NewIndexCase(FnCase):
    name = 'new_index'

    def setup(self, eng, p):
        self.eng = eng
        self.nxt = Int('next_index'); self.fa = Array('free_a', IntSort(), Val); self.fn_ = Int('free_n')
        self.free = eng.new_obj(p, 'arr', ('arr', self.fa, self.fn_, 'int', 'Q'))
        self.in_use = Array('in_use', IntSort(), BoolSort())
        return eng.world.closure_of(MOD, 'new_index'), [SInt(self.nxt), self.free], {}

    def requires(self):
        j, a, b = Ints('rj ra rb')
        F = lambda t: V.i(Select(self.fa, t))
        return [self.nxt >= 0, self.fn_ >= 0, ForAll([j], Implies(Select(self.in_use, j), And(j >= 0, j < self.nxt))),
                ForAll([a], Implies(And(a >= 0, a < self.fn_), And(F(a) >= 0, F(a) < self.nxt, Not(Select(self.in_use, F(a)))))),
                ForAll([a, b], Implies(And(a >= 0, a < b, b < self.fn_), F(a) != F(b)))]

    def ensures(self, q, ret):
        e = self.eng
        if not (isinstance(ret, tuple) and len(ret) == 3):
            return [('returns_triple', BoolVal(False))]
        idx, nxt = e.to_int(q, ret[0]), e.to_int(q, ret[1])
        fr = q.heap[ret[2].oid]
        a, j = Ints('ea ej')
        in2 = Store(self.in_use, idx, BoolVal(True))
        F2 = lambda t: V.i(Select(fr[1], t))
        return [('index_not_in_use', And(idx >= 0, Not(Select(self.in_use, idx)))),
                ('allocator_invariant', And(nxt >= 0, fr[2] >= 0, ForAll([j], Implies(Select(in2, j), And(j >= 0, j < nxt))),
                                            ForAll([a], Implies(And(a >= 0, a < fr[2]), And(F2(a) >= 0, F2(a) < nxt, Not(Select(in2, F2(a))))))))]


class DelIndexCase(FnCase):
    name = 'del_index'

    def setup(self, eng, p):
        self.eng = eng
        self.fa = Array('free_a', IntSort(), Val); self.fn_ = Int('free_n'); self.idx = Int('index')
        self.free = eng.new_obj(p, 'arr', ('arr', self.fa, self.fn_, 'int', 'Q'))
        return eng.world.closure_of(MOD, 'del_index'), [self.free, SInt(self.idx)], {}

    def requires(self):
        return [self.fn_ >= 0, self.idx >= 0]

    def ensures(self, q, ret):
        fr = q.heap[ret.oid] if isinstance(ret, Ref) else None
        if fr is None:
            return [('returns_free_list', BoolVal(False))]
        j = Int('dj')
        return [('index_released', And(fr[2] == self.fn_ + 1, V.i(Select(fr[1], self.fn_)) == self.idx,
                                       ForAll([j], Implies(And(j >= 0, j < self.fn_), Select(fr[1], j) == Select(self.fa, j)))))]


class DelegationCase(FnCase):
    """Store.X(state, key, ...) forwards to states[state].X(key, ...); StoreManager.X forwards to the active Store"""

    def __init__(self, cls, method, target, nargs):
        self.cls = cls; self.method = method; self.target = target; self.nargs = nargs
        self.name = f'{cls}.{method}'

    def setup(self, eng, p):
        self.eng = eng
        smod = 'rxsci.state.store'
        self.state = Int('state'); self.key = Const('key', Key); self.extra = [Const(f'arg{i}', Val) for i in range(self.nargs)]
        if self.cls == 'Store':
            self.inner = [Host('opaque', name=f'memstore{i}') for i in range(3)]
            lst = eng.new_list(p, self.inner)
            self.obj = eng.new_obj(p, 'obj', ('obj', {'states': lst}, (smod, 'Store')))
        else:
            self.inner = [Host('opaque', name='active_store')]
            lst = eng.new_list(p, self.inner)
            self.obj = eng.new_obj(p, 'obj', ('obj', {'states': lst, 'active_partition': 0, 'topology': Host('opaque', name='topology'), 'partitions': None,
                                                      'create_store': Host('opaque', name='factory')}, (smod, 'StoreManager')))
        m = eng.world.class_method((smod, self.cls), self.method)
        # Store: the state id is concrete here (python list indexing); checked for the middle one of three stores
        st = 1 if self.cls == 'Store' else SInt(self.state)
        return m, [self.obj, st, SKey(self.key)] + [SVal(x) for x in self.extra], {}

    def requires(self):
        return [self.state == 1] if self.cls == 'Store' else []

    def on_exception(self, q):
        return BoolVal(isinstance(q.exc, ExcV) and q.exc.cls == 'LibError')      # an exception of the callee propagates unchanged

    def ensures(self, q, ret):
        e = self.eng
        calls = [c for c in q.calls]
        if len(calls) != 1:
            return [('exactly_one_delegated_call', BoolVal(False))]
        c = calls[0]
        ok_name = c[0].endswith('.' + self.target)
        if self.cls == 'Store':
            which = [h for h in self.inner if c[0].startswith(h.name + '.')]
            idx_ok = Or(*[And(self.state == i, BoolVal(bool(which) and which[0] is self.inner[i])) for i in range(3)])
            exp_args = [V.VKey(self.key)] + self.extra
        else:
            idx_ok = BoolVal(c[0].startswith('active_store.'))
            exp_args = [V.VInt(self.state), V.VKey(self.key)] + self.extra
        args_ok = And(*[a == b for a, b in zip(c[1], exp_args)]) if len(c[1]) == len(exp_args) else BoolVal(False)
        res_ok = BoolVal(isinstance(ret, SVal) and 'libres_' + self.target in str(ret.t))
        return [('delegates_to_same_method', BoolVal(ok_name)), ('on_the_addressed_store', idx_ok), ('arguments_unchanged', args_ok), ('returns_its_result', res_ok)]


class TopologyCase(FnCase):
    name = 'StateTopology.create_state'

    def setup(self, eng, p):
        self.eng = eng
        tmod = 'rxsci.state.state_topology'
        self.n = Int('n_states')
        self.states = eng.new_obj(p, 'arr', ('arr', Array('states_a', IntSort(), Val), self.n, 'val', None))
        self.ids = eng.new_obj(p, 'dict', ('dict', K(Val, BoolVal(False)), K(Val, V.VInt(IntVal(0))), Empty(ValSeq)))
        self.obj = eng.new_obj(p, 'obj', ('obj', {'states': self.states, 'ids': self.ids}, (tmod, 'StateTopology')))
        m = eng.world.class_method((tmod, 'StateTopology'), 'create_state')
        return m, [self.obj, SVal(Const('name', Val)), SVal(Const('dtype', Val))], {}

    def requires(self):
        return [self.n >= 0]

    def ensures(self, q, ret):
        st = q.heap[self.states.oid]
        j = Int('tj')
        return [('returns_fresh_id', self.eng.to_int(q, ret) == self.n),       # ids are positions: distinct for distinct calls
                ('appends_one_state', st[2] == self.n + 1),
                ('earlier_states_untouched', ForAll([j], Implies(And(j >= 0, j < self.n), Select(st[1], j) == Select(Array('states_a', IntSort(), Val), j))))]


def unit_store_misc(opts):
    cases = [NewIndexCase(), DelIndexCase(), TopologyCase()]
    for (dtype, kind, code) in DTYPES:
        for wd in ((False, True) if dtype != 'mapper' else (False,)):
            cases.append(InitCase(dtype, kind, code, wd))
        if dtype in ('int', 'obj', 'bool'):
            cases.append(IterateCase(dtype, kind, code))
    for m, t, n in (('add_key', 'add_key', 0), ('del_key', 'del_key', 0), ('set', 'set', 1), ('get', 'get', 0), ('add_map', 'add_map', 1), ('get_map', 'get_map', 1), ('del_map', 'del_map', 1)):
        cases.append(DelegationCase('Store', m, t, n))
    for m, t, n in (('add_key', 'add_key', 0), ('del_key', 'del_key', 0), ('set_state', 'set', 1), ('get_state', 'get', 0), ('add_map', 'add_map', 1), ('get_map', 'get_map', 1), ('del_map', 'del_map', 1)):
        cases.append(DelegationCase('StoreManager', m, t, n))
    return run_cases('store_misc', cases, opts)
