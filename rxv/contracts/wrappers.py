"""C16-C20: what rxsci adds around third-party streaming objects (zlib, zstandard, codecs, orjson, pyarrow).

The libraries are opaque (assumed contracts, DESIGN 3.4): every call on a library object is logged in order.  Proved on the real
wrapper handlers: which object is called, how often, with which arguments, in which order relative to the emissions, and what is
forwarded -- i.e. the rxsci side of the round trip.  The library laws themselves (stream = codec of the concatenation, independent of
chunking; eof iff end marker) are exercised on the real libraries by the bounded tier only."""
import ast
import z3
from .base import *
from ..fnharness import FnCase, run_cases
from ..engine import Path
from ..loops import InvLoop
from .plainops import build_plain, set_cell, get_cell, T0
from z3 import StringVal, String, SubString, StringSort
from ..engine import Unsupported

XB = Const('chunk_b', Bytes); XS = String('chunk_s'); XV = Const('x', Val); ERR = Const('err', Val)


def call_names(q):
    return [c[0] for c in q.calls]


def last_is_err(q):
    n = Length(q.trace); last = q.trace[n - 1]
    return And(n == Length(T0) + 1, SubSeq(q.trace, 0, n - 1) == T0, Em.chan(last) == OUT, Ev.is_Err(Em.ev(last)))


class StreamWrapper(FnCase):
    """compress / decompress / encode / decode: handler `handler` of module.factory(*fargs)"""

    def __init__(self, name, module, factory, fargs, handler, arg, ctor_check, spec):
        self.name = f'{name}/{handler}'; self.module = module; self.factory = factory; self.fargs = fargs
        self.handler = handler; self.arg = arg; self.ctor_check = ctor_check; self.spec = spec

    def setup(self, eng, p):
        self.eng = eng
        q, hs, obs = build_plain(eng, p, self.module, self.factory, self.fargs)
        self.ctor_calls = list(q.calls)
        self.shared_calls = q.ghost.get('calls_before_subscribe', 0)
        self.hs = hs; self.obs = obs
        q.trace = T0; q.calls = []; q.pc = []
        self.path = q
        h = hs[self.handler]
        return h, ([self.arg] if self.handler == 'on_next' else []), {}

    def on_exception(self, q):
        return BoolVal(isinstance(q.exc, ExcV) and q.exc.cls == 'LibError' and getattr(self, 'propagates', False))

    def ensures(self, q, ret):
        out = [('constructed_as_documented', BoolVal(bool(self.ctor_check(self)))),
               # streaming state (compressor, incremental codec) belongs to one subscription: a second subscription starts a new stream
               ('library_object_created_per_subscription', BoolVal(self.shared_calls == 0))]
        out += self.spec(self, q)
        return out


def res_term(q, k=0):
    """the value returned by the k-th library call of this handler invocation"""
    # results are libres_<method>(object, index): recover them from what was emitted
    return None


def lib_result(eng, q, obj_name, method, idx=0):
    from ..libmodels import Function as F
    return None


def compression_cases():
    out = []
    for mod, lib in (('rxsci.compression.z', 'zlib'), ('rxsci.compression.zstd', 'zstd')):
        def ctor_c(self, lib=lib):
            names = [c[0] for c in self.ctor_calls]
            if lib == 'zlib':
                ok = len(self.ctor_calls) == 1 and self.ctor_calls[0][0] == 'zlib.compressobj' and self.ctor_calls[0][2] == ('wbits',)
                # gzip container: wbits = MAX_WBITS | 16
                return ok and str(z3.simplify(V.i(self.ctor_calls[0][1][0]))) == '31'
            return len(names) == 2 and 'ZstdCompressor' in names[0] and names[1].endswith('.compressobj')
        def ctor_d(self, lib=lib):
            names = [c[0] for c in self.ctor_calls]
            if lib == 'zlib':
                ok = len(self.ctor_calls) == 1 and self.ctor_calls[0][0] == 'zlib.decompressobj' and self.ctor_calls[0][2] == ('wbits',)
                return ok and str(z3.simplify(V.i(self.ctor_calls[0][1][0]))) == '31'
            return len(names) == 2 and 'ZstdDecompressor' in names[0] and names[1].endswith('.decompressobj')

        def one_call_forwarded(method, guard_empty=False):
            def spec(self, q):
                eng = self.eng
                calls = q.calls
                if guard_empty and len(calls) == 0:
                    # zstd: an empty chunk is not fed to the library (its decompressobj refuses any call after the end of the frame)
                    return [('empty_chunk_not_fed', And(Length(XB) == 0, q.trace == Concat(T0, Unit(em(OUT, Ev.Item(V.VBytes(Empty(Bytes))))))))]
                ok = len(calls) == 1 and calls[0][0].endswith('.' + method) and len(calls[0][1]) == 1
                if not ok:
                    return [('exactly_one_library_call', BoolVal(False))]
                raised = len(calls[0]) > 2 and calls[0][-1] == 'raised'
                n = Length(q.trace); last = q.trace[n - 1]
                fed = calls[0][1][0] == V.VBytes(XB)
                if q.trace.eq(T0):
                    return [('forwards_result', BoolVal(False))]
                is_item = And(n == Length(T0) + 1, SubSeq(q.trace, 0, n - 1) == T0, Em.chan(last) == OUT)
                res = [('fed_the_chunk_unchanged', fed), ('exactly_one_emission', is_item),
                       ('result_or_error_forwarded', Or(Ev.is_Item(Em.ev(last)), Ev.is_Err(Em.ev(last))))]
                if guard_empty:
                    res.append(('only_non_empty_chunks_are_fed', Length(XB) > 0))
                return res
            return spec

        def compress_done(self, q):
            calls = q.calls
            ok = len(calls) == 1 and calls[0][0].endswith('.flush')
            n = Length(q.trace)
            flushed_then_done = And(n == Length(T0) + 2, SubSeq(q.trace, 0, n - 2) == T0, Ev.is_Item(Em.ev(q.trace[n - 2])), Em.ev(q.trace[n - 1]) == Ev.Done)
            return [('flush_called_once', BoolVal(ok)), ('flush_emitted_before_completion_or_error', Or(flushed_then_done, last_is_err(q)))]

        def decompress_done(self, q):
            from z3 import Function
            calls = q.calls
            n = Length(q.trace)
            flushed_then_done = And(n == Length(T0) + 2, SubSeq(q.trace, 0, n - 2) == T0, Ev.is_Item(Em.ev(q.trace[n - 2])), Em.ev(q.trace[n - 1]) == Ev.Done)
            obj = get_cell(q, self.hs['on_completed'], 'decompressor')
            at_end = Function('lib_attr_eof', Val, IntSort(), BoolSort())(self.eng.to_val(q, obj), IntVal(0))     # decompressor.eof when the source completes
            if len(calls) == 0:
                # not at the end-of-stream marker: an error, never a completion (C16: truncated streams are flagged)
                return [('truncated_stream_signals_error', And(Not(at_end), last_is_err(q)))]
            return [('complete_stream_flushes_then_completes', And(at_end, BoolVal(len(calls) == 1 and calls[0][0].endswith('.flush')), Or(flushed_then_done, last_is_err(q))))]

        tag = mod.split('.')[-1]
        out += [StreamWrapper(f'{tag}.compress', mod, 'compress', [], 'on_next', SBytes(XB), ctor_c, one_call_forwarded('compress')),
                StreamWrapper(f'{tag}.compress', mod, 'compress', [], 'on_completed', None, ctor_c, compress_done),
                StreamWrapper(f'{tag}.decompress', mod, 'decompress', [], 'on_next', SBytes(XB), ctor_d, one_call_forwarded('decompress', guard_empty=(lib == 'zstd'))),
                StreamWrapper(f'{tag}.decompress', mod, 'decompress', [], 'on_completed', None, ctor_d, decompress_done)]
    return out


def codec_cases(only_csv=False):
    out = []
    enc = Const('encoding', Val)
    for fac, arg, meth in (('encode', SStr(XS), 'encode'), ('decode', SBytes(XB), 'decode')):
        for incremental in (True, False):
            if only_csv and not (fac == 'encode' and incremental): continue
            def ctor(self, incremental=incremental, fac=fac):
                names = [c[0] for c in self.ctor_calls]
                if not incremental:
                    return names == []
                want = 'codecs.getincrementalencoder' if fac == 'encode' else 'codecs.getincrementaldecoder'
                return len(names) == 2 and names[0] == want and self.ctor_calls[0][1][0].eq(enc) and names[1].endswith('()')

            def on_next_spec(self, q, incremental=incremental, meth=meth, fac=fac):
                calls = q.calls
                n = Length(q.trace); last = q.trace[n - 1]
                # csv's stream encoder catches a failing codec call and signals it (one on_error instead of the item); rs.data.encode lets it propagate
                # the emitted item is what the codec returned for this chunk, unchanged (no character dropped, added or replaced by the wrapper)
                lr = q.ghost.get('lib_results', [])
                is_res = (Em.ev(last) == Ev.Item(lr[-1])) if (incremental and len(lr) >= 1) else Ev.is_Item(Em.ev(last))
                kinds = Or(is_res, Ev.is_Err(Em.ev(last))) if only_csv else is_res
                one = And(n == Length(T0) + 1, SubSeq(q.trace, 0, n - 1) == T0, Em.chan(last) == OUT, kinds)
                argt = V.VStr(XS) if fac == 'encode' else V.VBytes(XB)
                if incremental:
                    ok = len(calls) == 1 and calls[0][0].endswith(')#1.' + meth) and len(calls[0][1]) == 1
                    return [('same_incremental_object_one_call', BoolVal(ok)), ('fed_the_chunk_unchanged', calls[0][1][0] == argt if ok else BoolVal(False)), ('result_forwarded', one)]
                ok = len(calls) == 1 and calls[0][0] == f'oneshot.{meth}'
                return [('one_shot_codec', BoolVal(ok)), ('fed_the_chunk_and_encoding', And(calls[0][1][0] == argt, calls[0][1][1] == enc) if ok else BoolVal(False)), ('result_forwarded', one)]

            def done_spec(self, q, incremental=incremental, meth=meth, fac=fac):
                calls = q.calls
                n = Length(q.trace)
                if incremental:
                    ok = len(calls) == 1 and calls[0][0].endswith(')#1.' + meth) and calls[0][2] == ('final',)
                    empty = V.VStr(StringVal('')) if fac == 'encode' else V.VBytes(Empty(Bytes))
                    return [('final_flush_on_the_same_object', BoolVal(ok)),
                            ('final_flush_arguments', And(calls[0][1][0] == empty, calls[0][1][1] == V.VBool(BoolVal(True))) if ok else BoolVal(False)),
                            ('flush_emitted_before_completion', Or(And(n == Length(T0) + 2, SubSeq(q.trace, 0, n - 2) == T0,
                                                                       (Em.ev(q.trace[n - 2]) == Ev.Item(q.ghost['lib_results'][-1])) if q.ghost.get('lib_results') else Ev.is_Item(Em.ev(q.trace[n - 2])),
                                                                       Em.ev(q.trace[n - 1]) == Ev.Done),
                                                                   And(BoolVal(only_csv), n == Length(T0) + 1, SubSeq(q.trace, 0, n - 1) == T0, Ev.is_Err(Em.ev(q.trace[n - 1])))))]
                return [('completes', And(BoolVal(len(calls) == 0), q.trace == Concat(T0, Unit(em(OUT, Ev.Done)))))]
            for handler, spec, a in (('on_next', on_next_spec, arg), ('on_completed', done_spec, None)):
                if only_csv:
                    # the stream encoder of csv.dump_to_file: the same contract as the incremental rs.data.encode (one encoder per
                    # subscription -- a single byte-order mark --, every line fed unchanged, final flush before completion)
                    w = StreamWrapper('csv._encode_stream', 'rxsci.container.csv', '_encode_stream', [SVal(enc)], handler, a, ctor, spec)
                else:
                    w = StreamWrapper(f'codec.{fac}[incremental={incremental}]', 'rxsci.data.codec', fac, [SVal(enc), incremental], handler, a, ctor, spec)
                w.propagates = True
                out.append(w)
    return out


# ================================================================================================ pipeline terms of the file helpers
def chain_of(eng, q, obs):
    """walk an observable built by source.pipe(op1, op2, ...) back to its source: [(closure qual, {var: value})] in pipeline order"""
    out = []
    cur = obs
    guard = 0
    while isinstance(cur, Host) and guard < 30:
        guard += 1
        if cur.kind in ('observable', 'muxobservable') and isinstance(getattr(cur, 'subscribe', None), Closure):
            clo = cur.subscribe
            env = {}
            sc = clo.scope
            depth = 0
            while sc is not None and depth < 3:
                for nme, cid in sc.cells.items():
                    if cid in q.cells: env.setdefault(nme, q.cells[cid])
                sc = sc.parent; depth += 1
            out.append((clo.qual, env))
            cur = env.get('source')
        elif cur.kind == 'observable' and getattr(cur, 'rxop', None) is not None:
            out.append((f'rx.{cur.rxop.name}', {'args': cur.rxop.args}))
            cur = cur.source
        else:
            break
    return list(reversed(out))


class FileTerm(FnCase):
    # the clauses are about the SHAPE of a pipeline (which operator closures it is made of, found by their qualified names): a refactoring can
    # build the same behaviour from other closures (e.g. encode / decode delegating to one private factory).  A refuted shape is reported as a
    # violation only together with a failing file round trip from the bounded tier of the same property; alone it is an undecided obligation.
    internal_representation = True

    def __init__(self, name, module, factory, args, kws, expect, needs_source=True):
        self.name = f'{name}/term'; self.module = module; self.factory = factory; self.args = args; self.kws = kws; self.expect = expect
        self.needs_source = needs_source

    def setup(self, eng, p):
        from .helpers import ast_lambda_none
        self.eng = eng
        f = eng.world.closure_of(self.module, self.factory)
        (q, r), = eng.call(p, f, list(self.args), dict(self.kws))
        if self.needs_source:
            self.src = Host('source', is_mux=False, name='source')
            (q, r), = eng.call(q, r, [self.src], {})
        self.chain = chain_of(eng, q, r)
        self.path = q
        return Closure(ast_lambda_none(), None, self.module, 'noop'), [], {}

    def ensures(self, q, ret):
        return self.expect(self, q, self.chain)

    def e2e(self):
        # a failing real file round trip, if the end-to-end scenarios of the same property find one (adds an input to a refuted pipeline shape)
        from ..bounded import io as bio
        chk = {'csv': 'check_c18', 'json': 'check_c19', 'parquet': 'check_c20'}.get(self.name.split('.')[0])
        if chk is None: return None
        from ..bounded.mux import first_new_failure
        return first_new_failure(getattr(bio, chk)({}))


def names(chain):
    return [c[0] for c in chain]


class KeepsNonNone(FnCase):
    """json.load / csv.load end with a filter that drops the None results of the parsing stage (empty lines, ignored errors) and NOTHING else: one
    item per object, also when the object is falsy ({} , [], 0, '')"""

    def __init__(self, name, module, factory, fargs, e2e_check):
        self.name = f'{name}/final_filter'; self.module = module; self.factory = factory; self.fargs = fargs; self.e2e_check = e2e_check

    def setup(self, eng, p):
        self.eng = eng
        f = eng.world.closure_of(self.module, self.factory)
        (q, _load), = eng.call(p, f, list(self.fargs), {})
        (q, obs), = eng.call(q, _load, [Host('source', is_mux=False, name='source')], {})
        chain = chain_of(eng, q, obs)
        preds = [env['args'][0] for qual, env in chain if qual == 'rx.filter' and env.get('args') and isinstance(env['args'][0], Closure)]
        self.n_filters = len([1 for qual, env in chain if qual == 'rx.filter'])
        if len(preds) != 1:
            raise Unsupported(f'{self.name}: expected exactly one filter with an in-repo predicate at the end of the pipeline')
        q.calls = []; q.pc = []; self.path = q
        return preds[0], [SVal(XV)], {}

    def on_exception(self, q): return BoolVal(False)

    def ensures(self, q, ret):
        r = self.eng.truth(q, ret)
        r = BoolVal(r) if isinstance(r, bool) else r
        return [('keeps_exactly_the_non_None_results', r == Not(V.is_VNone(XV))), ('single_filter', BoolVal(self.n_filters == 1))]

    def e2e(self):
        from ..bounded import io as bio
        from ..bounded.mux import first_new_failure
        return first_new_failure(getattr(bio, self.e2e_check)({}))


def json_cases():
    out = []
    J = 'rxsci.container.json'
    fname = SVal(Const('filename', Val)); enc = SVal(Const('encoding', Val)); opn = UserFn('open_obj')
    nl = String('newline')
    # dump.on_next
    class JsonDump(FnCase):
        name = 'json.dump/on_next'
        def setup(self, eng, p):
            self.eng = eng
            q, hs, obs = build_plain(eng, p, J, 'dump', [SStr(nl)])
            q.trace = T0; q.calls = []; q.pc = []; self.path = q
            return hs['on_next'], [SVal(XV)], {}
        def on_exception(self, q): return BoolVal(False)
        def ensures(self, q, ret):
            calls = q.calls
            ok = len(calls) >= 1 and 'dumps' in calls[0][0] and calls[0][1][0].eq(XV)
            n = Length(q.trace); last = q.trace[n - 1]
            item = Ev.pv(Em.ev(last))
            from z3 import SuffixOf
            return [('serialises_the_item_once', BoolVal(ok)),
                    ('one_line_per_object_terminated_by_newline', And(n == Length(T0) + 1, SubSeq(q.trace, 0, n - 1) == T0, Ev.is_Item(Em.ev(last)), V.is_VStr(item), SuffixOf(nl, V.s(item))))]
    out.append(JsonDump())
    # load.load_json
    for ign in (False, True):
        class LoadJson(FnCase):
            name = f'json.load.load_json[ignore_error={ign}]'
            def setup(self, eng, p, ign=ign):
                self.eng = eng
                f = eng.world.closure_of(J, 'load')
                (q, _load), = eng.call(p, f, [0, ign], {})
                lj = q.cells[_load.scope.lookup('load_json')]
                q.calls = []; q.pc = []; self.path = q
                return lj, [SStr(XS)], {}
            def on_exception(self, q, ign=ign):
                return BoolVal((not ign) and isinstance(q.exc, ExcV) and q.exc.cls == 'LibError')
            def ensures(self, q, ret, ign=ign):
                calls = q.calls
                if ret is None:
                    return [('empty_line_or_ignored_error_dropped', Or(Length(XS) == 0, BoolVal(ign and len(calls) == 1)))]
                return [('parsed_once', And(BoolVal(len(calls) == 1 and 'loads' in calls[0][0]), calls[0][1][0] == V.VStr(XS), Length(XS) > 0))]
        out.append(LoadJson())
    out.append(KeepsNonNone('json.load', J, 'load', [0, False], 'check_c19'))
    # pipeline terms
    for comp in (None, 'gzip', 'zstd'):
        def dump_term(self, q, chain, comp=comp):
            ns = names(chain)
            want = ['json.dump', 'codec.encode'] + ({'gzip': ['compression.z.compress'], 'zstd': ['compression.zstd.compress']}.get(comp, [])) + ['io.file.write']
            shape = len(ns) == len(want) and all(w in n for w, n in zip(want, ns))
            if not shape:
                return [('pipeline_shape', BoolVal(False))]
            encenv = chain[1][1]; wenv = chain[-1][1]
            return [('pipeline_shape', BoolVal(True)),
                    ('encoding_passed_to_encoder', BoolVal(encenv.get('encoding') is enc and encenv.get('incremental') is True)),
                    ('written_in_binary_mode_to_the_given_file', BoolVal(wenv.get('mode') == 'wb' and wenv.get('file') is fname and wenv.get('open_obj') is opn))]
        out.append(FileTerm(f'json.dump_to_file[{comp}]', J, 'dump_to_file', [fname], {'newline': '\n', 'encoding': enc, 'compression': comp, 'open_obj': opn}, dump_term))

        def load_term(self, q, chain, comp=comp):
            ns = names(chain)
            want = ['io.file.read'] + ({'gzip': ['compression.z.decompress'], 'zstd': ['compression.zstd.decompress']}.get(comp, [])) + ['codec.decode', 'line.unframe', 'rx.skip', 'rx.map', 'rx.filter']
            shape = len(ns) == len(want) and all(w in n for w, n in zip(want, ns))
            if not shape:
                return [('pipeline_is_mirror_image_of_dump', BoolVal(False))]
            renv = chain[0][1]; denv = chain[-5][1]
            return [('pipeline_is_mirror_image_of_dump', BoolVal(True)),
                    ('read_in_binary_chunks', BoolVal(renv.get('mode') == 'rb' and renv.get('size') == 64 * 1024 and renv.get('file') is fname and renv.get('open_obj') is opn)),
                    ('encoding_passed_to_decoder', BoolVal(denv.get('encoding') is enc and denv.get('incremental') is True))]
        out.append(FileTerm(f'json.load_from_file[{comp}]', J, 'load_from_file', [fname], {'lines': True, 'skip': 0, 'ignore_error': False, 'encoding': enc, 'compression': comp, 'open_obj': opn},
                            load_term, needs_source=False))
    return out


# esc_run(t, e, i): length of the run of escape characters e of t that ends at index i.  The spec function is given by the recursion
# esc_run(t, e, i) = 1 + esc_run(t, e, i - 1) if 0 <= i < len(t) and t[i] == e else 0; the solver sees it as an uninterpreted function plus the
# instances of that equation the obligations need (a z3 RecFunction made the proof of the loop exit go `unknown`).  Proofs are sound (they hold for
# every function satisfying the instances); a counter-model may interpret esc_run freely beyond the supplied instances, so a refutation of this
# contract counts only once the real function disagrees with the natively computed spec on a concrete string (ClosingQuote.replay).
from ..strmodels import esc_run, esc_run_def


class ClosingQuote(FnCase):
    """csv._ends_with_closing_quote(t, escapechar): the dumper writes a string field as '"' + body + '"' where the escape character and the
    quote of the body are preceded by the escape character.  So a part ends with the closing quote of its field iff it ends with a quote
    that is preceded by an EVEN number of escape characters (an odd run escapes the quote itself)."""
    name = 'csv._ends_with_closing_quote'
    TS = String('part'); ES = String('escapechar')

    def __init__(self):
        self.loop_contracts = {('match', lambda fn, node: fn.endswith('._ends_with_closing_quote') and isinstance(node, ast.While)):
                               InvLoop(self.inv, modifies=('locals',), lemmas=self.lemmas)}

    def roles(self, L):
        # by role: the index of the scan is decremented in the loop; a run counter, if the code keeps one, is incremented
        inc = dec = None
        for n in ast.walk(L.fr.node if hasattr(L.fr, 'node') else self.fn_node):
            if isinstance(n, ast.While):
                for m in ast.walk(n):
                    if isinstance(m, ast.AugAssign) and isinstance(m.target, ast.Name):
                        if isinstance(m.op, ast.Add): inc = m.target.id
                        if isinstance(m.op, ast.Sub): dec = m.target.id
        if dec is None:
            raise Unsupported('_ends_with_closing_quote: cannot identify the index of the scan')
        return inc, dec

    def vals(self, L, q):
        inc, dec = self.roles(L)
        cd = L.scope_lookup(dec)
        index = self.eng.to_int(q, q.cells[cd])
        count = self.eng.to_int(q, q.cells[L.scope_lookup(inc)]) if inc is not None else None
        return count, index

    def lemmas(self, L, q, j):
        count, index = self.vals(L, q)
        return [esc_run_def(self.TS, self.ES, index)]

    def inv(self, L, q, j):
        count, index = self.vals(L, q)
        n = Length(self.TS)
        scanned = n - 2 - index          # the positions n-2, n-3, ..., index+1 hold the escape character
        out = [('index', And(scanned >= 0, index >= -1)), ('run_so_far', esc_run(self.TS, self.ES, n - 2) == scanned + esc_run(self.TS, self.ES, index))]
        if count is not None:
            out.append(('counter', count == scanned))
        return out

    def setup(self, eng, p):
        self.eng = eng
        f = eng.world.closure_of('rxsci.container.csv', '_ends_with_closing_quote')
        self.fn_node = f.node
        return f, [SStr(self.TS), SStr(self.ES)], {}

    def requires(self):
        return [Length(self.ES) == 1]

    def on_exception(self, q): return BoolVal(False)

    def ensures(self, q, ret):
        n = Length(self.TS)
        spec = And(n > 0, SubString(self.TS, n - 1, 1) == StringVal('"'), esc_run(self.TS, self.ES, n - 2) % 2 == 0)
        # for loop-free variants: the recursion unfolded over the last positions (so that counter-models are real strings with short runs)
        unfold = [esc_run_def(self.TS, self.ES, n - 2 - d) for d in range(8)]
        r = self.eng.truth(q, ret)
        return [('closing_iff_quote_after_an_even_escape_run', (BoolVal(r) if isinstance(r, bool) else r) == spec, {'defs': unfold})]

    validate_refutations = True

    @staticmethod
    def spec_py(t, e):
        if len(t) == 0 or t[-1] != '"': return False
        run = 0; i = len(t) - 2
        while i >= 0 and t[i] == e:
            run += 1; i -= 1
        return run % 2 == 0

    def replay(self, model):
        """native replay: the real function on the model's strings; when the model's own strings do not show a difference (esc_run is
        uninterpreted beyond the supplied instances) all strings over {escape, quote, 'a'} up to length 7 are tried -- the verdict
        'reproduced' always carries a concrete string on which the real function and the natively computed spec disagree"""
        import importlib, itertools
        f = importlib.import_module('rxsci.container.csv')._ends_with_closing_quote
        def show(t, e):
            try: got = f(t, e)
            except Exception as ex: got = f'{type(ex).__name__}: {ex}'
            exp = self.spec_py(t, e)
            if got is not exp and got != exp or (not isinstance(got, bool) and bool(got) != exp):
                return {'status': 'reproduced', 'call': f'_ends_with_closing_quote({t!r}, {e!r})', 'expected': exp, 'got': got}
            return None
        cands = []
        try:
            t = model.eval(self.TS, model_completion=True).as_string(); e = model.eval(self.ES, model_completion=True).as_string()
            if len(e) == 1: cands.append((t, e))
        except Exception:
            pass
        for e in ('\\', '^'):
            for n in range(0, 8):
                for tup in itertools.product((e, '"', 'a'), repeat=n):
                    cands.append((''.join(tup), e))
        for t, e in cands:
            r = show(t, e)
            if r: return r
        return {'status': 'not-reproduced', 'tried': len(cands)}

    def e2e(self):
        from ..bounded import io as bio
        from ..bounded.mux import first_new_failure
        return first_new_failure(bio.check_c18({}))


# flat(sep, parts): the text of `parts` with the separator written BEFORE every part -- the spec fold
#   flat(sep, []) = '',   flat(sep, s ++ [x]) = flat(sep, s) + sep + x
# and the trusted model of str.join in terms of it:  sep + sep.join(s) == flat(sep, s) for a non-empty s.  The solver gets flat / joinsep
# as uninterpreted functions plus the instances of these equations at the terms an obligation mentions (flat_instances: syntactic
# peeling of  X ++ [x],  [x]  and  parts[0:e]), so a proof holds for every function satisfying the equations; a counter-model may
# interpret them freely elsewhere, hence refutations of this contract count only when they replay natively (validate_refutations).
from ..strmodels import StrSeq, joinsep
flat = z3.Function('flat', StringSort(), StrSeq, StringSort())


def flat_instances(sep, formulas, PS):
    """defining equations of flat / joinsep at the sequence terms that occur under flat(...) or joinsep(...) in `formulas`"""
    from z3 import Z3_OP_SEQ_CONCAT, Z3_OP_SEQ_UNIT, Z3_OP_SEQ_EXTRACT, Z3_OP_SEQ_EMPTY, Empty, Unit, Concat, is_app_of
    seen = {}; out = []; work = []
    def visit(t):
        if t.get_id() in seen: return
        seen[t.get_id()] = t
        if z3.is_app(t):
            if t.decl().eq(flat) or t.decl().eq(joinsep):
                work.append((t.decl().eq(joinsep), t.arg(1)))
            for c in t.children(): visit(c)
        elif z3.is_quantifier(t):
            visit(t.body())
    for f in formulas: visit(f)
    done = set()
    out.append(flat(sep, Empty(StrSeq)) == StringVal(''))
    while work:
        isjoin, X = work.pop()
        key = (isjoin, X.get_id())
        if key in done: continue
        done.add(key)
        if isjoin:
            out.append(Implies(Length(X) >= 1, Concat(sep, joinsep(sep, X)) == flat(sep, X)))
            work.append((False, X)); continue
        if is_app_of(X, Z3_OP_SEQ_CONCAT) and is_app_of(X.children()[-1], Z3_OP_SEQ_UNIT):
            ch = X.children(); pre = ch[0] if len(ch) == 2 else Concat(*ch[:-1]); x = ch[-1].arg(0)
            out.append(flat(sep, X) == Concat(flat(sep, pre), sep, x)); work.append((False, pre))
        elif is_app_of(X, Z3_OP_SEQ_UNIT):
            out.append(flat(sep, X) == Concat(sep, X.arg(0)))
        elif is_app_of(X, Z3_OP_SEQ_EXTRACT) and X.arg(0).eq(PS):
            e = X.arg(2)
            out.append(Implies(And(e >= 1, e <= Length(PS)),
                               And(X == Concat(SubSeq(PS, 0, e - 1), Unit(PS[e - 1])), flat(sep, X) == Concat(flat(sep, SubSeq(PS, 0, e - 1)), sep, PS[e - 1]))))
            out.append(Implies(e <= 0, X == Empty(StrSeq)))
            out.append(Implies(e == Length(PS), X == PS))
    return out


class MergeEscapeParts(FnCase):
    """csv.merge_escape_parts(parts, separator, escapechar): `parts` is a line split on the separator; the parts of a quoted field that
    contained separators are joined again.  From the property (strings are read back byte for byte, separators included, fields in
    order): the merged parts, written one after the other with the separator, are exactly the text of the given parts -- nothing lost,
    duplicated, reordered or joined with anything but the separator -- whenever every opened quote was closed; on a line whose last
    quote is never closed the result is the text of the parts before that quote.  The argument list is not modified.
    Loop invariant (for every number of parts): flat(merged) ++ flat(open group) == flat(parts[:j]); an open group is never empty.
    The closing-quote test is used through the contract of _ends_with_closing_quote (ClosingQuote above), not its body."""
    name = 'csv.merge_escape_parts'
    QUAL = 'rxsci.container.csv.merge_escape_parts'
    PS = Const('csv_parts', StrSeq); SEP = String('separator'); ES = String('escapechar')
    validate_refutations = True

    def __init__(self):
        lc = InvLoop(self.inv, modifies=('locals', 'heap'), name='merge')
        lc.modes = ['closed', 'open']; lc.mode_setup = self.mode_setup
        self.lc = lc
        self.loop_contracts = {(self.QUAL, 0): lc}
        self.callee_contracts = {'rxsci.container.csv._ends_with_closing_quote': self.closing_quote_contract}

    # ---- roles of the locals, from the AST: the list that is returned, and the local that is reset to None inside the loop
    def roles(self):
        fn = self.fn_node
        merged = agg = None
        for n in ast.walk(fn):
            if isinstance(n, ast.Return) and isinstance(n.value, ast.Name) and merged is None:
                merged = n.value.id
            if isinstance(n, ast.For):
                for m in ast.walk(n):
                    if isinstance(m, ast.Assign) and isinstance(m.value, ast.Constant) and m.value.value is None and isinstance(m.targets[0], ast.Name):
                        agg = m.targets[0].id
        if merged is None or agg is None:
            raise Unsupported('merge_escape_parts: cannot identify the result list / the open group')
        # representation of the open group: a list of parts (joined when the group closes) or the joined text itself
        self.group_is_list = any(isinstance(m, ast.Assign) and isinstance(m.targets[0], ast.Name) and m.targets[0].id == agg and isinstance(m.value, (ast.List, ast.ListComp))
                                 for m in ast.walk(fn)) or any(isinstance(m, ast.Call) and isinstance(m.func, ast.Attribute) and m.func.attr == 'append'
                                                               and isinstance(m.func.value, ast.Name) and m.func.value.id == agg for m in ast.walk(fn))
        return merged, agg

    def cids(self, L):
        if 'cids' not in self.lc.extra:
            merged, agg = self.roles()
            self.lc.extra['cids'] = (L.scope_lookup(merged), L.scope_lookup(agg))
            self.lc.list_kinds = {merged: 'str', agg: 'str'}
        return self.lc.extra['cids']

    def mode_setup(self, L, q, mode, tag):
        from ..engine import fresh
        _m, a = self.cids(L)
        if mode == 'closed': q.cells[a] = None
        elif self.group_is_list: q.cells[a] = self.eng.new_obj(q, 'slist', ('slist', fresh(f'{tag}_group', StrSeq), 'str'))
        else: q.cells[a] = SStr(fresh(f'{tag}_group_text', StringSort()))

    def seq_of(self, q, v):
        from z3 import Unit, Concat, Empty
        c = q.heap[v.oid]
        if c[0] == 'slist': return c[1]
        if c[0] == 'list':
            ts = [Unit(self.eng.to_str(q, x)) for x in c[1]]
            return Empty(StrSeq) if not ts else (ts[0] if len(ts) == 1 else Concat(*ts))
        raise Unsupported(f'merge_escape_parts: list representation {c[0]}')

    def state(self, q, m_cid, a_cid):
        mv = q.cells[m_cid]; av = q.cells[a_cid]
        if not isinstance(mv, Ref):
            raise Unsupported('merge_escape_parts: the result is not a list')
        M = self.seq_of(q, mv)
        if av is None: return M, None
        if isinstance(av, Ref): return M, self.seq_of(q, av)
        if isinstance(av, (str, SStr)): return M, ('text', self.eng.to_str(q, av))
        raise Unsupported(f'merge_escape_parts: open group is {av!r}')

    def inv(self, L, q, j):
        m_cid, a_cid = self.cids(L)
        if m_cid not in q.cells or a_cid not in q.cells:
            raise Unsupported('merge_escape_parts: locals not bound at the loop head')
        if isinstance(q.cells[m_cid], Ref) and q.heap[q.cells[m_cid].oid][0] == 'list' and not q.heap[q.cells[m_cid].oid][1]:
            pass
        M, A = self.state(q, m_cid, a_cid)
        PS, SEP = self.PS, self.SEP
        is_open = False
        if isinstance(A, tuple):            # the open group is kept as its joined text: flat(group) is separator + that text
            text = z3.Concat(flat(SEP, M), SEP, A[1]); A = None; is_open = True
        else:
            text = flat(SEP, M) if A is None else z3.Concat(flat(SEP, M), flat(SEP, A))
        goals = [('argument_not_modified', q.heap[self.parts.oid][1] == PS),
                 ('text_so_far', text == flat(SEP, SubSeq(PS, 0, j)))]
        if A is not None:
            goals.append(('open_group_not_empty', Length(A) >= 1))
        # ---- where the group boundaries fall (step clauses, proved for every body path from the arbitrary head state of each mode; from the
        # dumper's format: a quoted field starts with a quote, and its only unescaped quote after that is its last character)
        post_open = (A is not None) or is_open
        if z3.is_const(j) and j.decl().kind() == z3.Z3_OP_UNINTERPRETED:
            self.head = (M, post_open, j)                      # loop-head state of the mode being preserved
        elif z3.is_add(j) and getattr(self, 'head', None) is not None and j.arg(0).eq(self.head[2]):
            M0, head_open, j0 = self.head
            t = PS[j0]; n = Length(t); ES = self.ES
            startsq = And(n > 0, SubString(t, 0, 1) == StringVal('"'))
            cq = And(n > 0, SubString(t, n - 1, 1) == StringVal('"'), esc_run(t, ES, n - 2) % 2 == 0)
            closes = Or(t == StringVal('"'), cq)
            if not head_open and post_open:
                goals.append(('group_opens_only_on_an_unfinished_quoted_part', And(startsq, M == M0, Or(t == StringVal('"'), Not(cq)))))
            elif not head_open:
                goals.append(('part_outside_a_group_is_a_field_of_its_own', M == z3.Concat(M0, z3.Unit(t))))
            elif post_open:
                goals.append(('group_stays_open_without_a_closing_quote', And(Not(closes), M == M0)))
            else:
                goals.append(('group_closes_on_a_closing_quote', And(closes, Length(M) == Length(M0) + 1)))
        out = []
        # defining equation of the spec recursion esc_run at the position the closing-quote contract mentions (the lone quote has an empty run)
        edefs = [esc_run_def(PS[self.head[2]], self.ES, Length(PS[self.head[2]]) - 2)] if getattr(self, 'head', None) is not None else []
        for nm, g in goals:
            out.append((nm, g, {'prove': (lambda L_, q_, jn, g=g: (g, {'defs': flat_instances(SEP, [g] + list(q_.pc), PS) + edefs}))}))
        return out

    def closing_quote_contract(self, eng, p, f, args, kws):
        """callee contract of _ends_with_closing_quote (discharged by ClosingQuote): requires a one-character escapechar; pure; returns
        True iff the text ends with a quote preceded by an even run of escape characters"""
        t = eng.to_str(p, args[0]); e = eng.to_str(p, args[1])
        eng.oblige(p, '_ends_with_closing_quote.requires.one_character_escape', Length(e) == 1, 'pre')
        n = Length(t)
        return [(p, SBool(And(n > 0, SubString(t, n - 1, 1) == StringVal('"'), esc_run(t, e, n - 2) % 2 == 0)))]

    def setup(self, eng, p):
        self.eng = eng
        f = eng.world.closure_of('rxsci.container.csv', 'merge_escape_parts')
        self.fn_node = f.node
        self.lc.extra.pop('cids', None)
        merged, agg = self.roles()
        self.lc.list_kinds = {merged: 'str', agg: 'str'}
        self.parts = eng.new_obj(p, 'slist', ('slist', self.PS, 'str'))
        return f, [self.parts, SStr(self.SEP), SStr(self.ES)], {}

    def requires(self):
        return [Length(self.ES) == 1, Length(self.SEP) == 1]

    def on_exception(self, q): return BoolVal(False)

    def ensures(self, q, ret):
        PS, SEP = self.PS, self.SEP
        if not isinstance(ret, Ref):
            return [('returns_a_list', BoolVal(False))]
        R = self.seq_of(q, ret)
        _m, a_cid = self.lc.extra['cids']
        av = q.cells.get(a_cid)
        out = [('argument_not_modified', q.heap[self.parts.oid][1] == PS)]
        facts = [q.heap[self.parts.oid][1] == PS]
        if av is None:
            g1 = flat(SEP, R) == flat(SEP, PS)
            g2 = Implies(Length(PS) >= 1, And(Length(R) >= 1, joinsep(SEP, R) == joinsep(SEP, PS)))
            out.append(('text_preserved_when_every_quote_is_closed', g1, {'defs': flat_instances(SEP, [g1] + list(q.pc), PS)}))
            out.append(('rejoined_parts_are_the_line', g2, {'defs': flat_instances(SEP, [g1, g2] + list(q.pc), PS), 'hints': [g1]}))
        else:
            g = z3.PrefixOf(flat(SEP, R), flat(SEP, PS))
            out.append(('unclosed_quote_only_truncates', g, {'defs': flat_instances(SEP, [g] + list(q.pc), PS)}))
        return out

    # ---- native side
    @staticmethod
    def spec_py(parts, sep, esc):
        """reference written from the dumper's format: a part that starts with a quote and is not a complete quoted field opens a group;
        the group runs up to the first part that ends with a closing quote -> (merged parts, every quote closed?)"""
        closing = ClosingQuote.spec_py
        out = []; i = 0; n = len(parts)
        while i < n:
            t = parts[i]
            if t == '"' or (t.startswith('"') and not closing(t, esc)):
                k = i + 1
                while k < n and not closing(parts[k], esc): k += 1
                if k == n: return out, False
                out.append(sep.join(parts[i:k + 1])); i = k + 1
            else:
                out.append(t); i += 1
        return out, True

    search_on_unknown = True

    def replay(self, model):
        """native side of the contract: the real function on the model's input (if any) and on every list of up to 5 parts over a small
        alphabet of quote / escape / empty / plain pieces, checked against the CLAUSES of the contract (not against a reference output):
        the argument is unchanged; the re-joined result is the re-joined argument -- or, on a line whose last quote is never closed (by
        the reference reading of the dumper's format), a part-wise prefix of it"""
        import importlib, itertools
        f = importlib.import_module('rxsci.container.csv').merge_escape_parts
        def flat_py(ps, sep): return ''.join(sep + x for x in ps)
        def wellformed(fld, esc):
            if not fld.startswith('"'): return '"' not in fld
            if len(fld) < 2 or fld[-1] != '"': return False
            i = 1
            while i < len(fld) - 1:
                if fld[i] == esc: i += 2
                elif fld[i] == '"': return False
                else: i += 1
            return i == len(fld) - 1
        def show(parts, sep, esc):
            _exp, closed = self.spec_py(list(parts), sep, esc)
            before = list(parts); arg = list(parts)
            try: got = f(arg, sep, esc)
            except Exception as ex:
                return {'status': 'reproduced', 'call': f'merge_escape_parts({before!r}, {sep!r}, {esc!r})', 'got': f'{type(ex).__name__}: {ex}', 'expected': 'no exception'}
            why = None
            if arg != before: why = 'the argument list was modified'
            elif not isinstance(got, list) or not all(isinstance(x, str) for x in got): why = 'the result is not a list of strings'
            elif flat_py(got, sep) != flat_py(before, sep):
                if closed: why = 'every quote is closed, but the re-joined result is not the text of the parts'
                elif not flat_py(before, sep).startswith(flat_py(got, sep)): why = 'the result is not a prefix of the text of the parts'
            elif closed and all(wellformed(x, esc) for x in _exp) and got != _exp:
                why = 'a line in the format the dumper writes (unquoted fields without quotes, quoted fields with every inner quote / escape escaped) is not split into its fields'
            if why:
                return {'status': 'reproduced', 'call': f'merge_escape_parts({before!r}, {sep!r}, {esc!r})', 'got': got, 'why': why,
                        'argument_after_call': arg, 'text_of_parts': sep.join(before), 'text_of_result': sep.join(got) if isinstance(got, list) else None}
            return None
        cands = []
        if model is not None:
            try:
                n = model.eval(Length(self.PS), model_completion=True).as_long()
                parts = [model.eval(self.PS[i], model_completion=True).as_string() for i in range(min(n, 12))]
                sep = model.eval(self.SEP, model_completion=True).as_string(); esc = model.eval(self.ES, model_completion=True).as_string()
                if len(sep) == 1 and len(esc) == 1: cands.append((parts, sep, esc))
            except Exception:
                pass
        alpha = ['"', 'a', '', '\\"', '"a', 'a"', '\\', '"a"', '""']
        for n in range(0, 6):
            for tup in itertools.product(alpha, repeat=n):
                cands.append((list(tup), ',', '\\'))
        # the search runs the real function: a body that does not terminate on some input must not hang the check (termination is not
        # part of the contract, so a time-out is `not reproduced`, with the input named)
        import signal
        class _Timeout(Exception): pass
        def _alarm(*_a): raise _Timeout()
        old_h = signal.signal(signal.SIGALRM, _alarm)
        cur = None
        try:
            signal.alarm(60)
            for parts, sep, esc in cands:
                cur = (parts, sep, esc)
                r = show(parts, sep, esc)
                if r: return r
        except _Timeout:
            return {'status': 'not-reproduced', 'reason': f'native search stopped after 60 s at merge_escape_parts{cur!r} (possibly non-terminating)'}
        finally:
            signal.alarm(0); signal.signal(signal.SIGALRM, old_h)
        return {'status': 'not-reproduced', 'tried': len(cands)}

    def e2e(self):
        from ..bounded import io as bio
        from ..bounded.mux import first_new_failure
        return first_new_failure(bio.check_c18({}))


def csv_cases():
    out = []
    C = 'rxsci.container.csv'
    class ParseInt(FnCase):
        name = 'csv.parse_int'
        def setup(self, eng, p):
            self.eng = eng
            return eng.world.closure_of(C, 'parse_int'), [SStr(XS)], {}
        def on_exception(self, q): return BoolVal(isinstance(q.exc, ExcV) and q.exc.cls == 'ValueError')
        def ensures(self, q, ret):
            from ..strmodels import int_of_str
            if ret is None: return [('empty_is_none', Length(XS) == 0)]
            return [('exact_integer_value', And(Length(XS) > 0, self.eng.to_int(q, ret) == int_of_str(XS)))]
    class ParseDecimal(FnCase):
        name = 'csv.parse_decimal'
        def setup(self, eng, p):
            self.eng = eng
            return eng.world.closure_of(C, 'parse_decimal'), [SStr(XS)], {}
        def on_exception(self, q): return BoolVal(isinstance(q.exc, ExcV) and q.exc.cls == 'ValueError')
        def ensures(self, q, ret):
            from ..strmodels import float_of_str
            if ret is None: return [('empty_is_none', Length(XS) == 0)]
            # the value of the literal, with its sign: exactly what float() of the written text is
            return [('exact_value_with_sign', And(Length(XS) > 0, self.eng.to_real(q, ret) == float_of_str(XS)))]
    out += [ParseInt(), ParseDecimal()]
    class TypeParser(FnCase):
        def __init__(self, rep, want):
            self.rep = rep; self.want = want; self.name = f'csv.type_parser[{rep!r}]'
        def setup(self, eng, p):
            self.eng = eng
            rep = {'int': PyType('int'), 'float': PyType('float'), 'bool': PyType('bool'), 'str': PyType('str')}.get(self.rep[1:], self.rep) if self.rep.startswith('t') and self.rep[1:] in ('int', 'float', 'bool', 'str') else self.rep
            return eng.world.closure_of(C, 'type_parser'), [rep], {}
        def on_exception(self, q): return BoolVal(self.want == 'TypeError')
        def ensures(self, q, ret):
            if self.want in ('parse_int', 'parse_decimal'):
                return [('selects_parser', BoolVal(isinstance(ret, Closure) and ret.qual.endswith('.' + self.want)))]
            return [('returns_a_parser', BoolVal(isinstance(ret, Closure)))]
    for rep, want in (('int', 'parse_int'), ('tint', 'parse_int'), ('float', 'parse_decimal'), ('tfloat', 'parse_decimal'), ('bool', 'lambda'), ('str', 'lambda'), ('tstr', 'lambda')):
        out.append(TypeParser(rep, want))
    out.append(ClosingQuote())
    out.append(MergeEscapeParts())
    out += codec_cases(only_csv=True)
    fname = SVal(Const('filename', Val)); opn = UserFn('open_obj'); pl = Host('pipe', fns=[])
    def load_term(self, q, chain):
        ns = names(chain)
        shape = len(ns) >= 2 and 'io.file.read' in ns[0] and 'line.unframe' in ns[1]
        renv = chain[0][1] if shape else {}
        return [('reads_in_64KiB_chunks_then_unframes_lines', BoolVal(shape and renv.get('size') == 64 * 1024 and renv.get('file') is fname and renv.get('open_obj') is opn))]
    out.append(KeepsNonNone('csv.load', C, 'load', [Host('pipe', fns=[]), 0], 'check_c18'))
    out.append(FileTerm('csv.load_from_file', C, 'load_from_file', [fname], {'parse_line': pl, 'skip': 0, 'encoding': None, 'open_obj': opn}, load_term, needs_source=False))
    return out


def parquet_cases():
    out = []
    P = 'rxsci.container.parquet'
    from ..effects import captured_mutations
    class CreateRecordPurity(FnCase):
        name = 'parquet.create_record/_create_record.no_state_across_batches'
        def setup(self, eng, p):
            from .helpers import ast_lambda_none
            self.eng = eng
            mi = eng.world.module(P)
            node = None
            for n in ast.walk(mi.tree):
                if isinstance(n, ast.FunctionDef) and n.name == '_create_record':
                    node = n
            self.node = node
            from ..harness import fn_info
            return Closure(ast_lambda_none(), None, P, 'noop'), [], {}
        def ensures(self, q, ret):
            muts = captured_mutations(self.node) if self.node is not None else ['<_create_record not found>']
            # every container the function fills is created inside the call: a record batch holds the rows of this batch only
            return [('mutates_no_captured_container', BoolVal(len(muts) == 0))]
    out.append(CreateRecordPurity())
    fname = SVal(Const('filename', Val)); schema = SVal(Const('schema', Val)); opn = UserFn('open_obj'); bs = Int('batch_size'); rgs = SVal(Const('row_group_size', Val))

    class WriterOnNext(FnCase):
        name = 'parquet._dump_parquet/on_next'
        def setup(self, eng, p):
            self.eng = eng
            q, hs, obs = build_plain(eng, p, P, '_dump_parquet', [Host('opaque', name='fileobj'), schema, rgs, 'snappy', None, Host('opaque', name='open_obj')])
            self.hs = hs
            q.trace = T0; q.calls = []; q.pc = []; self.path = q
            return hs['on_next'], [SVal(XV)], {}
        def on_exception(self, q):
            # only a failure of writer.close() inside the error path may escape
            return BoolVal(isinstance(q.exc, ExcV) and q.exc.cls == 'LibError' and str(q.exc.origin).endswith('.close'))
        def ensures(self, q, ret):
            calls = q.calls
            writes = [c for c in calls if c[0].endswith('.write')]
            ok = len(writes) == 1 and len(writes[0][1]) == 2
            raised = ok and len(writes[0]) > 2 and writes[0][-1] == 'raised' if ok else False
            return [('each_record_batch_written_exactly_once', BoolVal(ok)),
                    ('batch_and_row_group_size_passed_unchanged', And(writes[0][1][0] == XV, writes[0][1][1] == Const('row_group_size', Val)) if ok else BoolVal(False)),
                    ('nothing_emitted_unless_the_writer_fails', Or(q.trace == T0, last_is_err(q)))]
    out.append(WriterOnNext())

    class WriterAtSubscribe(FnCase):
        """the parquet writer exists from subscription on (so a source of zero rows still leaves a valid, empty parquet file) and is closed exactly
        once at completion, before the completion is forwarded"""
        name = 'parquet._dump_parquet/subscription_and_completion'
        def setup(self, eng, p):
            self.eng = eng
            self.fobj = Host('opaque', name='fileobj')
            q, hs, obs = build_plain(eng, p, P, '_dump_parquet', [self.fobj, schema, rgs, 'snappy', None, Host('opaque', name='open_obj')])
            self.calls_at_subscription = list(q.calls)
            q.trace = T0; q.calls = []; q.pc = []; self.path = q
            return hs['on_completed'], [], {}
        def on_exception(self, q):
            return BoolVal(isinstance(q.exc, ExcV) and q.exc.cls == 'LibError' and str(q.exc.origin).endswith('.close'))
        def ensures(self, q, ret):
            made = [c for c in self.calls_at_subscription if 'ParquetWriter' in c[0]]
            closes = [c for c in q.calls if c[0].endswith('.close')]
            return [('writer_created_at_subscription', BoolVal(len(made) == 1)),
                    ('writer_created_on_the_given_file_and_schema', And(made[0][1][0] == self.eng.to_val(q, self.fobj), made[0][1][1] == Const('schema', Val)) if len(made) == 1 and len(made[0][1]) >= 2 else BoolVal(False)),
                    ('writer_closed_once_then_completion_forwarded', And(BoolVal(len(closes) == 1), q.trace == Concat(T0, Unit(em(OUT, Ev.Done)))))]
    def _pq_e2e(self=None):
        from ..bounded import io as bio
        from ..bounded.mux import first_new_failure
        return first_new_failure(bio.check_c20({}))
    WriterAtSubscribe.e2e = _pq_e2e; WriterOnNext.e2e = _pq_e2e
    out.append(WriterAtSubscribe())

    def dump_term(self, q, chain):
        ns = names(chain)
        want = ['scan', 'filter', 'map', 'map', '_dump_parquet']
        shape = len(ns) == 5 and ('scan' in ns[0] or 'rx.scan' in ns[0]) and '_dump_parquet' in ns[-1]
        return [('batch_then_record_then_writer', BoolVal(shape))]
    out.append(FileTerm('parquet.dump_to_file', P, 'dump_to_file', [fname, schema], {'batch_size': SInt(bs), 'row_group_size': rgs, 'compression': 'snappy', 'encryption_properties': None, 'open_obj': opn}, dump_term))
    return out


readsF = Function('readsF', IntSort(), IntSort(), Trace)      # (mode, j): emissions for the chunks 0..j-1 returned by read()


class FileRead(FnCase):
    """rxsci.io.file.read(file, mode, size): every chunk the file object returns, in order, up to (not including) the first empty one,
    then completion -- a short non-empty read is NOT the end of the file (io.RawIOBase contract)"""

    def __init__(self, binary, sized):
        self.binary = binary; self.sized = sized
        self.name = f"io.file.read[{'binary' if binary else 'text'},{'size=n' if sized else 'whole file'}]/subscription"
        self.loop_contracts = {('match', lambda fn, node: fn.startswith('rxsci.io.file.read.') and isinstance(node, ast.While)):
                               InvLoop(self.inv, modifies=('trace', 'locals', 'heap'), lemmas=self.lemmas)}

    def chunk_val(self, k):
        from ..strmodels import file_chunk_b, file_chunk_s
        return V.VBytes(file_chunk_b(k)) if self.binary else V.VStr(file_chunk_s(k))

    def chunk_len(self, k):
        from ..strmodels import file_chunk_b, file_chunk_s
        return Length(file_chunk_b(k)) if self.binary else Length(file_chunk_s(k))

    def mode(self): return IntVal(1 if self.binary else 0)

    def lemmas(self, L, q, j):
        k = self.pos(q)
        m = self.mode()
        return [readsF(m, IntVal(0)) == Empty(Trace),
                Implies(k >= 1, readsF(m, k) == Concat(readsF(m, k - 1), Unit(em(OUT, Ev.Item(self.chunk_val(k - 1))))))]

    def pos(self, q):
        return q.heap[self.file.oid][2]

    def data_cell(self, L):
        # the local that holds the result of the last read(): by role (assigned from <x>.read(...))
        for n in ast.walk(L.fr_node if hasattr(L, 'fr_node') else self.fn_node):
            if isinstance(n, ast.Assign) and isinstance(n.value, ast.Call) and isinstance(n.value.func, ast.Attribute) and n.value.func.attr == 'read' \
                    and len(n.targets) == 1 and isinstance(n.targets[0], ast.Name):
                return n.targets[0].id
        return None

    def inv(self, L, q, j):
        k = self.pos(q); m = self.mode(); i = Int('ri')
        nm = self.data_cell(L)
        cid = L.scope_lookup(nm) if nm else None
        if cid is None or cid not in q.cells:
            raise Unsupported('io.file.read: cannot identify the variable holding the last read() result')
        d = q.cells[cid]
        dv = self.eng.to_val(q, d)
        return [('position', k >= 1), ('last_read_is_current_chunk', dv == self.chunk_val(k - 1)),
                ('emitted_all_chunks_read_before', q.trace == Concat(T0, readsF(m, k - 1))),
                ('all_emitted_chunks_non_empty', ForAll([i], Implies(And(i >= 0, i < k - 1), self.chunk_len(i) > 0)))]

    def setup(self, eng, p):
        self.eng = eng
        w = eng.world
        f = w.closure_of('rxsci.io.file', 'read')
        self.file = eng.new_obj(p, 'chunkfile', ('chunkfile', 'b' if self.binary else 's', IntVal(0)))
        self.fn_node = f.node
        size = SInt(Int('size')) if self.sized else None
        (q, obs), = eng.call(p, f, [self.file], {'mode': 'rb' if self.binary else 'r', 'size': size, 'encoding': None, 'open_obj': UserFn('open_obj')})
        self.observer = Host('observer', chan=OUT, name='observer')
        q.trace = T0; q.calls = []; q.pc = []
        self.path = q
        return obs.subscribe, [self.observer, Host('immediate_scheduler', name='scheduler')], {}

    def requires(self):
        return ([Int('size') >= 1] if self.sized else []) + [readsF(self.mode(), IntVal(0)) == Empty(Trace)]

    def on_exception(self, q): return BoolVal(False)

    def ensures(self, q, ret):
        k = self.pos(q); m = self.mode(); i = Int('ri')
        done = Unit(em(OUT, Ev.Done))
        if not self.sized:
            return [('emits_the_whole_content_then_completes', q.trace == Concat(T0, Unit(em(OUT, Ev.Item(self.chunk_val(IntVal(0))))), done)), ('one_read', k == 1)]
        J = k - 1
        return [('emits_every_chunk_before_the_first_empty_one_then_completes', q.trace == Concat(T0, readsF(m, J), done),
                 {'defs': [readsF(m, IntVal(0)) == Empty(Trace)]}),
                ('stops_at_an_empty_read_only', And(J >= 0, self.chunk_len(J) == 0)),
                ('no_chunk_skipped', ForAll([i], Implies(And(i >= 0, i < J), self.chunk_len(i) > 0)))]

    def e2e(self):
        from ..bounded import io as bio
        from ..bounded.mux import first_new_failure
        return first_new_failure(bio.check_c19({}))


class FileWrite(FnCase):
    """rxsci.io.file.write(file): every item is written exactly once, in the call that delivers it, nothing is emitted before completion"""

    def __init__(self, handler):
        self.handler = handler; self.name = f'io.file.write/{handler}'

    def setup(self, eng, p):
        self.eng = eng
        self.fobj = Host('opaque', name='fileobj')
        q, hs, obs = build_plain(eng, p, 'rxsci.io.file', 'write', [self.fobj], {'mode': None, 'encoding': None, 'open_obj': UserFn('open_obj')})
        q.trace = T0; q.calls = []; q.pc = []; self.path = q
        return hs[self.handler], ([SVal(XV)] if self.handler != 'on_completed' else []), {}

    def on_exception(self, q):
        return BoolVal(isinstance(q.exc, ExcV) and q.exc.cls == 'LibError')       # a failing write / close of the file object itself

    def ensures(self, q, ret):
        calls = [c for c in q.calls if c[0].startswith('fileobj.')]
        if self.handler == 'on_next':
            return [('item_written_exactly_once', BoolVal(len(calls) == 1 and calls[0][0] == 'fileobj.write') if calls else BoolVal(False)),
                    ('item_written_unchanged', (calls[0][1][0] == XV) if (len(calls) == 1 and calls[0][1]) else BoolVal(False)),
                    ('nothing_emitted', q.trace == T0)]
        if self.handler == 'on_completed':
            return [('a_file_object_given_by_the_caller_is_not_closed', BoolVal(len(calls) == 0)), ('completes', q.trace == Concat(T0, Unit(em(OUT, Ev.Done))))]
        return [('a_file_object_given_by_the_caller_is_not_closed', BoolVal(len(calls) == 0)), ('error_forwarded', q.trace == Concat(T0, Unit(em(OUT, Ev.Err(XV)))))]


class FileWritePath(FnCase):
    """rxsci.io.file.write(<path>): the file is opened once at subscription with the given mode, and it is CLOSED (flushed) before the completion or the error
    is forwarded -- a consumer that starts reading when it sees the completion finds the whole content"""

    def __init__(self, handler):
        self.handler = handler; self.name = f'io.file.write[path]/{handler}'

    def setup(self, eng, p):
        self.eng = eng
        self.opn = Host('opaque', name='open_obj')
        q, hs, obs = build_plain(eng, p, 'rxsci.io.file', 'write', ['out.bin'], {'mode': 'wb', 'encoding': None, 'open_obj': self.opn})
        self.opened = [c for c in q.calls if c[0].startswith('open_obj')]
        q.trace = T0; q.calls = []; q.pc = []; self.path = q
        return hs[self.handler], ([SVal(XV)] if self.handler != 'on_completed' else []), {}

    def on_exception(self, q):
        return BoolVal(isinstance(q.exc, ExcV) and q.exc.cls == 'LibError')

    def ensures(self, q, ret):
        closes = [c for c in q.calls if c[0].endswith('.close')]
        writes = [c for c in q.calls if c[0].endswith('.write')]
        out = [('file_opened_once_at_subscription', BoolVal(len(self.opened) == 1))]
        if self.handler == 'on_next':
            return out + [('item_written_exactly_once', BoolVal(len(writes) == 1 and not closes)), ('item_written_unchanged', (writes[0][1][0] == XV) if len(writes) == 1 and writes[0][1] else BoolVal(False)),
                          ('nothing_emitted', q.trace == T0)]
        fwd = Unit(em(OUT, Ev.Done)) if self.handler == 'on_completed' else Unit(em(OUT, Ev.Err(XV)))
        return out + [('file_closed_in_this_call_before_forwarding', BoolVal(len(closes) == 1 and not writes)), ('forwarded', q.trace == Concat(T0, fwd))]

    def e2e(self):
        from ..bounded import io as bio
        from ..bounded.mux import first_new_failure
        return first_new_failure(bio.check_c19({}))


class ConnectDelegates(FnCase):
    """rxsci.mux.muxconnectable.MuxConnectableProxy.connect: every call connects the wrapped connectable (with the scheduler it was given) and returns
    that connection; the proxy keeps nothing between calls (a disposed first connection must not be handed to a second subscriber)"""
    name = 'MuxConnectableProxy.connect'
    internal_representation = True       # a refutation through an arbitrary value of a field the contract does not know is a candidate: needs a failing input

    def setup(self, eng, p):
        M = 'rxsci.mux.muxconnectable'
        self.eng = eng
        self.conn = Host('connectable', name='wrapped', subscribe=None)
        fields = {'connectable': self.conn, '_subscribe': None}
        cls = eng.world.module(M).classes['MuxConnectableProxy']
        assigned = set()
        for fn_ in cls.body:
            if isinstance(fn_, ast.FunctionDef) and fn_.name != '__init__':
                for n_ in ast.walk(fn_):
                    tg = n_.targets if isinstance(n_, ast.Assign) else ([n_.target] if isinstance(n_, (ast.AugAssign, ast.AnnAssign)) else [])
                    for t_ in tg:
                        for a_ in ast.walk(t_):
                            if isinstance(a_, ast.Attribute) and isinstance(a_.value, ast.Name) and a_.value.id == 'self' and isinstance(a_.ctx, ast.Store):
                                assigned.add(a_.attr)
        self.havoc = sorted(assigned - set(fields))
        for k_ in self.havoc:
            fields[k_] = SVal(Const(f'field_{k_}', Val))          # whatever an earlier call left there
        self.obj = eng.new_obj(p, 'obj', ('obj', fields, (M, 'MuxConnectableProxy')))
        self.sched = Host('opaque', name='sched')
        p.ghost['subs'] = []
        return eng.world.class_method((M, 'MuxConnectableProxy'), 'connect'), [self.obj], {'scheduler': self.sched}

    def on_exception(self, q): return BoolVal(False)

    def ensures(self, q, ret):
        subs = [d for (o, d) in q.ghost.get('subs', []) if o is self.conn]
        return [('connects_the_wrapped_connectable_once', BoolVal(len(subs) == 1 and subs[0].get('connect') is True)),
                ('returns_that_connection', BoolVal(isinstance(ret, Host) and ret.kind == 'disposable')),
                ('keeps_no_state_between_calls', BoolVal(not self.havoc))]

    def e2e(self):
        from ..bounded.mux import check_c08, first_new_failure
        return first_new_failure(check_c08({}))


def io_cases():
    return [FileRead(True, True), FileRead(False, True), FileRead(True, False), FileWrite('on_next'), FileWrite('on_completed'), FileWrite('on_error'),
            FileWritePath('on_next'), FileWritePath('on_completed'), FileWritePath('on_error')]


_STATE_E2E = {'compression': 'check_c16', 'codec': 'check_c17', 'json': 'check_c19', 'csv': 'check_c18', 'parquet': 'check_c20', 'framing': 'check_c15', 'io': 'check_c19'}


class SubscriptionState(FnCase):
    """frame condition for the stream operators of one module: event handlers assign subscription-local state only (a variable bound
    in the operator factory would be shared by every subscription of the same operator object: second export writes no header, a second
    reader starts inside the previous one's state)"""
    internal_representation = True     # a hoisted variable may be harmless (a cached constant): counts only with a failing second subscription

    def __init__(self, module, group):
        self.module = module; self.group = group
        self.name = f'{module.split("rxsci.")[-1]}/handlers_assign_subscription_local_state_only'

    def setup(self, eng, p):
        from .helpers import ast_lambda_none
        from ..effects import state_outside_subscription
        self.eng = eng
        self.found = state_outside_subscription(eng.world.module(self.module).tree)
        return Closure(ast_lambda_none(), None, self.module, 'noop'), [], {}

    def ensures(self, q, ret):
        return [('no_handler_state_in_the_operator_factory', BoolVal(len(self.found) == 0))]

    def e2e(self):
        from ..bounded import io as bio
        r = getattr(bio, _STATE_E2E[self.group])({})
        from ..bounded.mux import first_new_failure
        f = first_new_failure(r)
        return dict(f, shared_state=[f'{h}: nonlocal {v} bound in {b}()' for h, v, b in self.found]) if f else None


def unit_wrappers(opts):
    which = opts.get('which', 'all')
    groups = {'compression': compression_cases, 'codec': codec_cases, 'json': json_cases, 'csv': csv_cases, 'parquet': parquet_cases, 'io': io_cases}
    cases = []
    mods = {'compression': ['rxsci.compression.z', 'rxsci.compression.zstd'], 'codec': ['rxsci.data.codec'], 'json': ['rxsci.container.json', 'rxsci.io.file'],
            'csv': ['rxsci.container.csv', 'rxsci.io.file'], 'parquet': ['rxsci.container.parquet'], 'io': []}
    for k, f in groups.items():
        if which in ('all', k):
            cases += f()
            cases += [SubscriptionState(m, k) for m in mods[k]]
    return run_cases(f'wrappers.{which}', cases, opts)
