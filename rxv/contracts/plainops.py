"""Plain-observable variants (the other half of C01's refinement obligations) and the dual dispatch functions:
scan_obs, flat_map_obs, plain assert_1, plain tee_map join, to_deque; `dispatch`: both branches of every dual-mode operator get
the same, unchanged arguments."""
from .base import *
from ..fnharness import FnCase, run_cases
from ..loops import InvLoop
from ..engine import Unsupported
from ..engine import Path
from ..pymodels import copy_of

X_ = Const('x', Val); ERR_ = Const('err', Val)
T0 = Const('trace0', Trace)


def build_plain(eng, p, module, factory, args, kws=None, n_sources=1):
    """factory(*args)(source) -> observable ; subscribe -> handlers registered on the source"""
    w = eng.world
    f = w.closure_of(module, factory)
    res = eng.call(p, f, list(args), dict(kws or {}))
    assert len(res) == 1
    q, op = res[0]
    src = Host('source', is_mux=False, name='source')
    res = eng.call(q, op, [src], {})
    assert len(res) == 1
    q, obs = res[0]
    q.ghost['calls_before_subscribe'] = len(q.calls)          # anything created before this point is shared by all subscriptions
    observer = Host('observer', chan=OUT, name='observer')
    res = eng.call(q, obs.subscribe, [observer, Host('opaque', name='scheduler')], {})
    assert len(res) == 1
    q = res[0][0]
    subs = [d for (o, d) in q.ghost.get('subs', []) if o is src]
    assert len(subs) == 1, 'must subscribe exactly once'
    return q, subs[0], observer


def state_names(clo):
    """nonlocal variables a handler assigns: the state it keeps between calls"""
    import ast
    if not isinstance(clo, Closure) or isinstance(clo.node, ast.Lambda):
        return []
    names = set()
    for n in ast.walk(clo.node):
        if isinstance(n, ast.Nonlocal):
            names.update(n.names)
    assigned = {n.id for n in ast.walk(clo.node) if isinstance(n, ast.Name) and isinstance(n.ctx, ast.Store)}
    return sorted(names & assigned)


def container_names(q, clo):
    """closure variables a handler uses without assigning them and that hold a container (a list / deque / dict mutated in place)"""
    import ast
    if not isinstance(clo, Closure) or isinstance(clo.node, ast.Lambda):
        return []
    mine = {a.arg for a in clo.node.args.args} | {n.id for n in ast.walk(clo.node) if isinstance(n, ast.Name) and isinstance(n.ctx, ast.Store)}
    out = []
    for nme in sorted({n.id for n in ast.walk(clo.node) if isinstance(n, ast.Name) and isinstance(n.ctx, ast.Load)} - mine):
        cid = clo.scope.lookup(nme)
        if cid is not None and cid in q.cells and isinstance(q.cells[cid], Ref):
            out.append(nme)
    return out


def resolve_cell(q, clo, name, role=None):
    """binding of a contract's state variable to the handler's closure variable: by name if it exists, else by role (the only state
    variable, or the only one whose initial value satisfies `role`); unresolved -> the function is undecided, never violated"""
    cid = clo.scope.lookup(name) if isinstance(clo, Closure) else None
    if cid is not None and cid in q.cells:
        return cid
    cands = state_names(clo)
    if role is not None:
        cands = sorted(set(cands) | set(container_names(q, clo)))
        cands = [n for n in cands if role(q.cells.get(clo.scope.lookup(n)))]
    if len(cands) == 1:
        return clo.scope.lookup(cands[0])
    from ..engine import Unsupported
    raise Unsupported(f'cannot bind the contract variable `{name}` to a closure variable of {getattr(clo, "qual", clo)} (candidates: {cands})')


def set_cell(q, clo, name, value, role=None):
    q.cells[resolve_cell(q, clo, name, role)] = value
    clo.__dict__.setdefault('_bound', {})[name] = resolve_cell


def get_cell(q, clo, name, role=None):
    b = getattr(clo, '_bindings', {})
    if name in b:
        return q.cells[b[name]]
    return q.cells[resolve_cell(q, clo, name, role)]


def bind(q, clo, name, value, role=None):
    """set + remember the binding (the post-state is read through the same cell even if the initial value no longer matches `role`)"""
    cid = resolve_cell(q, clo, name, role)
    q.cells[cid] = value
    clo.__dict__.setdefault('_bindings', {})[name] = cid


def emits(q, *es):
    return q.trace == (Concat(T0, *[Unit(e) for e in es]) if es else T0)


# ================================================================================================ scan_obs
class ScanObs(FnCase):
    def __init__(self, seedk, term, handler):
        self.seedk = seedk; self.term = term; self.handler = handler
        self.name = f'scan_obs[seed={seedk},terminator={term}]/{handler}'

    def setup(self, eng, p):
        self.eng = eng
        self.red = Bool('reduce')
        seed = SVal(Const('seed', Val)) if self.seedk == 'value' else UserFn('seed', ret='fresh')
        q, hs, obs = build_plain(eng, p, 'rxsci.operators.scan', 'scan_obs',
                                 [UserFn('accumulator'), seed, SBool(self.red), UserFn('terminator') if self.term else None])
        h = hs[self.handler]
        self.wiring_ok = isinstance(hs.get('on_error'), Bound) and hs['on_error'].obj is obs
        self.h = h
        self.s0 = Const('state0', Val); self.has0 = Bool('has_state0')
        bind(q, h, 'has_state', SBool(self.has0), role=lambda v: v is False); bind(q, h, 'state', SVal(self.s0), role=lambda v: v is None)
        q.trace = T0; q.calls = []; q.pc = []
        self.path = q
        return h, ([SVal(X_)] if self.handler == 'on_next' else []), {}

    def requires(self):
        from ..pymodels import is_callable
        return [Not(is_callable(Const('seed', Val))), Not(V.is_VSent(Const('seed', Val)))]

    def on_exception(self, q):
        return BoolVal(isinstance(q.exc, ExcV) and q.exc.origin in ('accumulator', 'terminator', 'seed'))

    def fresh(self):
        if self.seedk == 'value':
            return copy_of(Const('seed', Val), IntVal(0))
        return Function('fresh_seed', IntSort(), Val)(IntVal(0))

    def ensures(self, q, ret):
        eng = self.eng
        cur = If(self.has0, self.s0, self.fresh())
        st1 = eng.to_val(q, get_cell(q, self.h, 'state')); has1 = eng.as_z3_bool(eng.truth(q, get_cell(q, self.h, 'has_state')))
        out = [('wiring.on_error_forwarded', BoolVal(self.wiring_ok))]
        if self.handler == 'on_next':
            r = ufn('accumulator', 2)(cur, X_)
            out += [('emits', q.trace == If(self.red, T0, Concat(T0, Unit(em(OUT, Ev.Item(r)))))),
                    ('state', And(st1 == r, has1))]
        else:
            done = Unit(em(OUT, Ev.Done))
            if self.term:
                t = ufn('terminator', 1)(cur)
                out.append(('emits', q.trace == Concat(T0, Unit(em(OUT, Ev.Item(t))), done)))
            else:
                out.append(('emits', q.trace == If(self.red, Concat(T0, Unit(em(OUT, Ev.Item(cur))), done), Concat(T0, done))))
        return out


# ================================================================================================ flat_map_obs
itemsem = Function('itemsem', ValSeq, Trace)        # [Em(OUT, Item(x)) for x in xs]


def itemsem_def(xs, j):
    return [itemsem(SubSeq(xs, 0, 0)) == Empty(Trace),
            Implies(And(j >= 0, j < Length(xs)), itemsem(SubSeq(xs, 0, j + 1)) == Concat(itemsem(SubSeq(xs, 0, j)), Unit(em(OUT, Ev.Item(xs[j]))))),
            SubSeq(xs, 0, Length(xs)) == xs]


class FlatMapObs(FnCase):
    name = 'flat_map_obs/on_next'

    def __init__(self):
        lc = InvLoop(lambda L, q, j: [('emitted_prefix', q.trace == Concat(L.pre.trace, itemsem(SubSeq(items_of(X_), 0, j))))],
                     modifies=('trace',), lemmas=lambda L, q, j: itemsem_def(items_of(X_), j))
        lc.iter_as_seq = lambda L, p, itv: items_of(itv.t)
        self.loop_contracts = {('rxsci.operators.flat_map.flat_map_obs._flat_map.on_subscribe.on_next', 0): lc}

    def setup(self, eng, p):
        self.eng = eng
        q, hs, obs = build_plain(eng, p, 'rxsci.operators.flat_map', 'flat_map_obs', [])
        q.trace = T0; q.calls = []; q.pc = []
        self.path = q
        return hs['on_next'], [SVal(X_)], {}

    def requires(self):
        xs = items_of(X_)
        return itemsem_def(xs, IntVal(0))[:1] + [SubSeq(xs, 0, Length(xs)) == xs]

    def ensures(self, q, ret):
        return [('emits_every_element_in_order', q.trace == Concat(T0, itemsem(items_of(X_))))]


# ================================================================================================ plain assert_1
class Assert1Plain(FnCase):
    name = 'assert_1.plain/on_next'

    def setup(self, eng, p):
        self.eng = eng
        w = eng.world
        f = w.closure_of('rxsci.operators.assert_', 'assert_1')
        (q, op), = eng.call(p, f, [UserFn('predicate')], {})
        src = Host('source', is_mux=False, name='source')
        (q, obs), = eng.call(q, op, [src], {})
        observer = Host('observer', chan=OUT, name='observer')
        (q, _), = eng.call(q, obs.subscribe, [observer, Host('opaque', name='scheduler')], {})
        hs = [d for (o, d) in q.ghost['subs'] if o is src][0]
        self.h = hs['on_next']
        self.hist = Const('hist', ValSeq)
        n = Length(self.hist)
        bind(q, self.h, 'has_last', SBool(n > 0), role=lambda v: v is False)
        bind(q, self.h, 'last', SVal(If(n > 0, self.hist[n - 1], V.VNone)), role=lambda v: v is None)
        q.trace = T0; q.calls = []; q.pc = []
        self.path = q
        return self.h, [SVal(X_)], {}

    def on_exception(self, q):
        return BoolVal(isinstance(q.exc, ExcV) and q.exc.origin == 'predicate')

    def ensures(self, q, ret):
        h = self.hist; n = Length(h)
        f, rz = ufn('predicate', 2), uraises('predicate', 2)
        prev = h[n - 1]
        ok = Or(n == 0, f(prev, X_) == V.VBool(BoolVal(True)))
        last = q.trace[Length(q.trace) - 1]
        is_err = And(Length(q.trace) == Length(T0) + 1, SubSeq(q.trace, 0, Length(T0)) == T0, Em.chan(last) == OUT, Ev.is_Err(Em.ev(last)))
        # same machine as the multiplexed variant (C01): every pair (previous item, item) is checked, whatever the previous item is
        return [('emits', If(ok, q.trace == Concat(T0, Unit(em(OUT, Ev.Item(X_)))), is_err)),
                ('remembers_item', self.eng.to_val(q, get_cell(q, self.h, 'last')) == X_)]


# ================================================================================================ plain tee_map join
class TeePlain(FnCase):
    def __init__(self, n, join, branch, handler):
        self.n = n; self.join = join; self.branch = branch; self.handler = handler
        self.name = f'tee_map.plain[n={n},join={join}]/branch{branch}/{handler}'

    def setup(self, eng, p):
        self.eng = eng
        w = eng.world
        pm = w.closure_of('rxsci.operators.tee_map', '_process_many')
        srcs = [Host('source', is_mux=False, name=f'branch{i}') for i in range(self.n)]
        conn = Host('observable', name='connectable', subscribe=None)
        (q, obs), = eng.call(p, pm, srcs, {'connectable': conn, 'zip': self.join == 'zip', 'combine': self.join == 'combine_latest'})
        self.kind_ok = obs.kind == 'observable'
        observer = Host('observer', chan=OUT, name='observer')
        (q, _), = eng.call(q, obs.subscribe, [observer, Host('opaque', name='scheduler')], {})
        subs = q.ghost['subs']
        d = [d for (o, d) in subs if o is srcs[self.branch]][0]
        self.order_ok = [o for (o, _) in subs] == srcs + [conn]
        h = d[self.handler]
        fn_ = h.fn if isinstance(h, Partial) else h
        self.index_ok = isinstance(h, Partial) and h.args == [self.branch]
        def all_are(v, x):
            return isinstance(v, Ref) and q.heap[v.oid][0] == 'list' and len(q.heap[v.oid][1]) == self.n and all(e is x for e in q.heap[v.oid][1])
        if self.handler == 'on_completed':
            # the stream completes when ALL branches have completed: the other branches' completion handlers run first (from the state the real
            # subscription left), then this branch's; nothing may be completed before the last one (no look at how the flags are kept)
            q.trace = T0; q.calls = []; q.pc = []
            for (o_, d_) in subs:
                if o_ is srcs[self.branch] or 'on_completed' not in d_: continue
                (q, _), = eng.call(q, d_['on_completed'], [], {})
            self.trace_before_last = q.trace
            self.path = q
            return h, [], {}
        on_next_fn = fn_
        self.queue = get_cell(q, on_next_fn, 'queue', role=lambda v: all_are(v, None))
        self.has = get_cell(q, on_next_fn, 'has_next', role=lambda v: all_are(v, False))
        self.q0 = [Const(f'q{t}', Val) for t in range(self.n)]; self.h0 = [Bool(f'h{t}') for t in range(self.n)]
        q.heap[self.queue.oid] = ('list', tuple(SVal(t) for t in self.q0))
        q.heap[self.has.oid] = ('list', tuple(SBool(t) for t in self.h0))
        q.trace = T0; q.calls = []; q.pc = []
        self.path = q
        return h, ([SVal(X_)] if self.handler == 'on_next' else []), {}

    def ensures(self, q, ret):
        eng = self.eng; n, b = self.n, self.branch
        out = [('wiring', BoolVal(self.kind_ok and self.order_ok and self.index_ok))]
        if self.handler == 'on_completed':
            return out + [('nothing_completed_before_the_last_branch', self.trace_before_last == T0),
                          ('completes_when_all_branches_done', q.trace == Concat(T0, Unit(em(OUT, Ev.Done))))]
        qv = [eng.to_val(q, v) for v in q.heap[self.queue.oid][1]]
        hv = [eng.as_z3_bool(eng.truth(q, v)) for v in q.heap[self.has.oid][1]]
        if self.handler == 'on_next':
            cell = lambda t: X_ if t == b else self.q0[t]
            has = lambda t: BoolVal(True) if t == b else self.h0[t]
            ev = Unit(em(OUT, Ev.Item(tup(*[cell(t) for t in range(n)]))))
            if self.join == 'merge':
                out += [('emits', emits(q, em(OUT, Ev.Item(X_))))]
            elif self.join == 'zip':
                full = And(*[has(t) for t in range(n)])
                out += [('emits', q.trace == If(full, Concat(T0, ev), T0)),
                        ('cells', And(*[And(qv[t] == cell(t), hv[t] == If(full, BoolVal(False), has(t))) for t in range(n)]))]
            else:
                out += [('emits', q.trace == Concat(T0, ev)), ('cells', And(*[And(qv[t] == cell(t), hv[t] == has(t)) for t in range(n)]))]
        return out


# ================================================================================================ to_deque (sort)
class ToDeque(FnCase):
    def __init__(self, extend, handler):
        self.extend = extend; self.handler = handler
        self.name = f'to_deque[extend={extend}]/{handler}'
        self.D0 = Const('deque0', ValSeq)
        self.loop_contracts = {('rxsci.data.to_deque.to_deque._to_deque.on_subscribe.on_completed', 0):
                               InvLoop(self.inv, modifies=('trace', 'heap'), lemmas=self.lemmas)}

    def cur(self, q):
        return q.heap[self.acc.oid][1]

    def inv(self, L, q, j):
        D0 = self.D0; c = self.cur(q)
        k = Length(D0) - Length(c)
        return [('remaining_is_suffix', And(k >= 0, c == SubSeq(D0, k, Length(c)))),
                ('emitted_is_prefix', q.trace == Concat(T0, itemsem(SubSeq(D0, 0, k))))]

    def lemmas(self, L, q, j):
        D0 = self.D0; c = self.cur(q)
        return itemsem_def(D0, Length(D0) - Length(c))

    def setup(self, eng, p):
        self.eng = eng
        w = eng.world
        f = w.closure_of('rxsci.data.to_deque', 'to_deque')
        (q, op), = eng.call(p, f, [self.extend], {})
        src = Host('source', is_mux=False, name='source')
        (q, obs), = eng.call(q, op, [src], {})
        observer = Host('observer', chan=OUT, name='observer')
        res = eng.call(q, obs.subscribe, [observer, Host('opaque', name='scheduler')], {})
        q = res[0][0]
        hs = [d for (o, d) in q.ghost['subs'] if o is src][0]
        h = hs[self.handler]
        is_deque = lambda v: isinstance(v, Ref) and q.heap[v.oid][0] == 'deque'
        self.acc = None
        for clo_ in [h] + [x for x in hs.values() if isinstance(x, Closure) and x is not h]:
            # the buffer, by role (the one deque of the subscription); a handler may reach it through a bound method only, so its siblings are asked too
            try:
                self.acc = get_cell(q, clo_, 'acc', role=is_deque); break
            except Unsupported:
                continue
        if self.acc is None:
            raise Unsupported('to_deque: cannot identify the buffer (a deque created per subscription)')
        q.heap[self.acc.oid] = ('deque', self.D0)
        q.trace = T0; q.calls = []; q.pc = []
        self.path = q
        return h, ([SVal(X_)] if self.handler == 'on_next' else []), {}

    def requires(self):
        return itemsem_def(self.D0, IntVal(0))[:1] + [SubSeq(self.D0, 0, Length(self.D0)) == self.D0]

    def ensures(self, q, ret):
        if self.handler == 'on_next':
            exp = Concat(self.D0, items_of(X_)) if self.extend else Concat(self.D0, Unit(X_))
            return [('buffers', And(self.cur(q) == exp, q.trace == T0))]
        return [('drains_in_order_then_completes', q.trace == Concat(T0, itemsem(self.D0), Unit(em(OUT, Ev.Done))))]


# ================================================================================================ dual dispatch
class Dispatch(FnCase):
    """X(args)(source): mux source -> X_mux(args)(source) ; plain source -> the plain implementation, with the same arguments"""

    def __init__(self, module, factory, args_fn, mux_qual, plain_expect, mux=True):
        self.module = module; self.factory = factory; self.args_fn = args_fn; self.mux_qual = mux_qual; self.plain_expect = plain_expect; self.mux = mux
        self.name = f'dispatch/{module.split(".")[-1]}.{factory}[{"mux" if mux else "plain"}]'

    def setup(self, eng, p):
        self.eng = eng
        w = eng.world
        f = w.closure_of(self.module, self.factory)
        self.args, self.kws = self.args_fn()
        (q, op), = eng.call(p, f, list(self.args), dict(self.kws))
        self.src = Host('source', is_mux=self.mux, name='source')
        self.path = q
        return op, [self.src], {}

    def ensures(self, q, ret):
        given = list(self.args) + list(self.kws.values())
        if self.mux:
            ok = isinstance(ret, Host) and ret.kind == 'muxobservable' and isinstance(ret.subscribe, Closure) and self.mux_qual in ret.subscribe.qual
            same = False
            if ok:
                env = {}
                sc = ret.subscribe.scope
                while sc is not None:
                    for nme, cid in sc.cells.items():
                        if cid in q.cells: env.setdefault(nme, q.cells[cid])
                    sc = sc.parent
                same = all(any(v is g or (not isinstance(g, SV) and v == g and type(v) is type(g)) for v in env.values()) for g in given if g is not None)
            return [('mux_branch_taken', BoolVal(ok)), ('arguments_unchanged', BoolVal(same))]
        return [('plain_branch', BoolVal(bool(self.plain_expect(self, q, ret, given))))]


def rxop_is(name):
    def chk(self, q, ret, given):
        if not (isinstance(ret, Host) and ret.kind == 'observable' and getattr(ret, 'rxop', None) is not None and ret.rxop.name == name and ret.source is self.src):
            return False
        got = list(ret.rxop.args) + list(ret.rxop.kws.values())
        return len(got) == len([g for g in given]) and all((a is b) or (not isinstance(b, SV) and a == b) for a, b in zip(got, given)) if name != '_map_assert' else True
    return chk


def plain_closure(qual):
    def chk(self, q, ret, given):
        return isinstance(ret, Host) and ret.kind == 'observable' and isinstance(ret.subscribe, Closure) and qual in ret.subscribe.qual
    return chk


def dispatch_cases():
    U = UserFn
    n = Int('count')
    specs = [
        ('rxsci.operators.map', 'map', lambda: ([U('mapper')], {}), 'map_mux', rxop_is('map')),
        ('rxsci.operators.filter', 'filter', lambda: ([U('predicate')], {}), 'filter_mux', rxop_is('filter')),
        ('rxsci.operators.first', 'first', lambda: ([], {}), 'first_mux', rxop_is('first')),
        ('rxsci.operators.last', 'last', lambda: ([], {}), 'last_mux', rxop_is('last')),
        ('rxsci.operators.take', 'take', lambda: ([SInt(n)], {}), 'take_mux', rxop_is('take')),
        ('rxsci.operators.scan', 'scan', lambda: ([U('accumulator'), SVal(Const('seed', Val)), SBool(Bool('reduce')), U('terminator')], {}), 'scan_mux', plain_closure('scan_obs')),
        ('rxsci.operators.flat_map', 'flat_map', lambda: ([], {}), 'flat_map_mux', plain_closure('flat_map_obs')),
        ('rxsci.operators.do_action', 'do_action', lambda: ([U('a'), U('b'), U('c')], {}), 'do_action_mux', rxop_is('do_action')),
        ('rxsci.data.to_list', 'to_list', lambda: ([], {}), 'scan_mux', rxop_is('to_iterable')),
    ]
    out = []
    for (m, f, a, mq, pe) in specs:
        out.append(Dispatch(m, f, a, mq, pe, True)); out.append(Dispatch(m, f, a, mq, pe, False))
    return out


class SortOp(FnCase):
    """rs.data.sort(key, reverse) = to_list ; map(lambda i: sorted(i, key=key, reverse=reverse)) ; to_deque(extend=True): the mapper makes ONE call
    of the (trusted, stable) builtin sort on the collected items with the caller's key and reverse flag and returns its result"""
    name = 'sort/term_and_mapper'
    internal_representation = True       # another correct stable sort would also do: a refutation counts with a failing input only

    def setup(self, eng, p):
        from .wrappers import chain_of
        self.eng = eng
        self.key = UserFn('key'); self.rev = Const('reverse', BoolSort())
        f = eng.world.closure_of('rxsci.data.sort', 'sort')
        (q, op), = eng.call(p, f, [], {'key': self.key, 'reverse': SBool(self.rev)})
        (q, obs), = eng.call(q, op, [Host('source', is_mux=False, name='source')], {})
        self.chain = chain_of(eng, q, obs)
        mapper = None
        for qual, env in self.chain:
            if isinstance(env.get('mapper'), Closure): mapper = env['mapper']
            elif qual == 'rx.map' and env.get('args') and isinstance(env['args'][0], Closure): mapper = env['args'][0]
        if mapper is None:
            raise Unsupported('sort: no map stage with an in-repo mapper found in the pipeline')
        q.calls = []; q.trace = T0; q.pc = []
        self.path = q
        return mapper, [SVal(X_)], {}

    def on_exception(self, q): return BoolVal(False)

    def ensures(self, q, ret):
        from ..heapmodels import stable_sort
        names = [c[0] for c in self.chain]
        shape = len(names) == 3 and ('to_iterable' in names[0] or 'to_list' in names[0] or 'scan' in names[0]) and 'map' in names[1]
        td = self.chain[-1][1] if self.chain else {}
        calls = [c for c in q.calls if c[0] == 'builtins.sorted']
        one = len(calls) == 1
        ktag = self.eng.to_val(q, self.key)
        res = q.heap[ret.oid][1] if isinstance(ret, Ref) and q.heap[ret.oid][0] == 'slist' else None
        return [('collect_then_sort_then_flatten', BoolVal(bool(shape) and 'to_deque' in names[-1] and td.get('extend') is True)),
                ('one_stable_sort_of_all_items_with_the_callers_key_and_reverse', And(calls[0][1][0] == items_of(X_), calls[0][1][1] == ktag, calls[0][1][2] == self.rev) if one else BoolVal(False)),
                ('returns_the_sorted_list', (res == stable_sort(items_of(X_), ktag, self.rev)) if res is not None else BoolVal(False)),
                ('argument_not_mutated', BoolVal(True))]

    def e2e(self):
        from ..bounded.mux import check_c10
        return next((f for f in (check_c10({}).get('failures') or []) if 'sort' in str(f)), None)


def unit_plain(opts):
    which = opts.get('which', 'all')
    cases = []
    if which in ('all', 'scan'):
        cases += [ScanObs(sk, t, h) for sk in ('value', 'factory') for t in (None, 'fn') for h in ('on_next', 'on_completed')]
    if which in ('all', 'flat_map'):
        cases += [FlatMapObs()]
    if which in ('all', 'assert_1'):
        cases += [Assert1Plain()]
    if which in ('all', 'tee'):
        cases += [TeePlain(n, j, b, h) for n in (2, 3) for j in ('zip', 'combine_latest', 'merge') for b in range(n) for h in ('on_next', 'on_completed')]
    if which in ('all', 'to_deque'):
        cases += [ToDeque(e, h) for e in (True, False) for h in ('on_next', 'on_completed')]
        cases += [SortOp()]
    if which in ('all', 'dispatch'):
        cases += dispatch_cases()
    return run_cases(f'plain.{which}', cases, opts)
