"""Conservative effect inference for in-repo helper functions (DESIGN 3.2): which *captured* containers does a function mutate?
A mutating method call, a subscript store or an attribute store whose receiver is a name that is neither a parameter of the function
nor assigned inside it is an effect on captured state."""
import ast

MUTATORS = {'append', 'extend', 'clear', 'add', 'update', 'pop', 'popleft', 'insert', 'remove', 'sort', 'reverse', 'setdefault', 'discard', 'appendleft'}


def local_and_params(fn):
    names = set()
    a = fn.args
    for x in a.args + a.kwonlyargs + a.posonlyargs:
        names.add(x.arg)
    if a.vararg: names.add(a.vararg.arg)
    if a.kwarg: names.add(a.kwarg.arg)
    nonlocal_ = set()
    for n in ast.walk(fn):
        if isinstance(n, (ast.Nonlocal, ast.Global)):
            nonlocal_.update(n.names)
    def walk(node):
        for c in ast.iter_child_nodes(node):
            if isinstance(c, (ast.FunctionDef, ast.Lambda)) and c is not fn:
                continue
            if isinstance(c, ast.Name) and isinstance(c.ctx, ast.Store):
                names.add(c.id)
            if isinstance(c, ast.comprehension):
                for t in ast.walk(c.target):
                    if isinstance(t, ast.Name): names.add(t.id)
            walk(c)
    walk(fn)
    return names - nonlocal_


def root_name(e):
    while isinstance(e, (ast.Subscript, ast.Attribute)):
        e = e.value
    return e.id if isinstance(e, ast.Name) else None


def captured_mutations(fn):
    """-> sorted list of captured names that fn mutates (through a method call, item store or attribute store)"""
    mine = local_and_params(fn)
    params = {x.arg for x in fn.args.args}
    out = set()
    for n in ast.walk(fn):
        tgt = None
        if isinstance(n, ast.Call) and isinstance(n.func, ast.Attribute) and n.func.attr in MUTATORS:
            tgt = root_name(n.func.value)
        elif isinstance(n, (ast.Subscript, ast.Attribute)) and isinstance(n.ctx, ast.Store):
            tgt = root_name(n.value)
        elif isinstance(n, ast.Nonlocal):
            out.update(n.names)
        if tgt is not None and tgt not in mine:
            out.add(tgt)
    return sorted(out)


def param_mutations(fn):
    """parameters of fn that it mutates"""
    params = [x.arg for x in fn.args.args]
    out = set()
    for n in ast.walk(fn):
        tgt = None
        if isinstance(n, ast.Call) and isinstance(n.func, ast.Attribute) and n.func.attr in MUTATORS:
            tgt = root_name(n.func.value)
        elif isinstance(n, (ast.Subscript, ast.Attribute)) and isinstance(n.ctx, ast.Store):
            tgt = root_name(n.value)
        if tgt in params:
            out.add(tgt)
    return sorted(out)


def state_outside_subscription(tree):
    """Frame condition of a stream operator: the state an event handler *assigns* (its `nonlocal` variables) is created per
    subscription.  -> list of (handler qualname, variable, binding function) for every `nonlocal x` of a function nested inside a
    subscribe function (a function with a parameter named `observer`) whose binding lies OUTSIDE that subscribe function, i.e. in the
    operator factory: such a variable is shared by all subscriptions of the same operator object."""
    out = []

    def binds(fn, name):
        a = fn.args
        if name in {x.arg for x in a.args + a.kwonlyargs + a.posonlyargs} or (a.vararg and a.vararg.arg == name) or (a.kwarg and a.kwarg.arg == name):
            return True
        nl = set()
        for n in ast.walk(fn):
            if isinstance(n, (ast.Nonlocal, ast.Global)) and _owner(fn, n) is fn:
                nl.update(n.names)
        if name in nl:
            return False
        for n in ast.walk(fn):
            if isinstance(n, ast.Name) and isinstance(n.ctx, ast.Store) and n.id == name and _owner(fn, n) is fn:
                return True
        return False

    parents = {}
    for n in ast.walk(tree):
        for c in ast.iter_child_nodes(n):
            parents[c] = n

    def _owner(root, node):
        x = parents.get(node)
        while x is not None and not isinstance(x, (ast.FunctionDef, ast.Lambda)):
            x = parents.get(x)
        return x

    def chain(node):
        fs = []
        x = parents.get(node)
        while x is not None:
            if isinstance(x, ast.FunctionDef): fs.append(x)
            x = parents.get(x)
        return fs            # innermost first

    for n in ast.walk(tree):
        if not isinstance(n, ast.Nonlocal):
            continue
        fs = chain(n)
        if not fs:
            continue
        g = fs[0]
        sub = None
        for f in fs[1:]:
            if 'observer' in {x.arg for x in f.args.args}:
                sub = f             # the outermost enclosing subscribe function wins
        if sub is None:
            continue
        inside = set()
        for f in fs[1:]:
            inside.add(f)
            if f is sub: break
        for name in n.names:
            binder = next((f for f in fs[1:] if binds(f, name)), None)
            if binder is not None and binder not in inside:
                out.append(('.'.join(reversed([f.name for f in fs])), name, binder.name))
    return out
