"""Conservative effect inference for in-repo helper functions (DESIGN 3.2): which *captured* containers does a function mutate?
A mutating method call, a subscript store or an attribute store whose receiver is a name that is neither a parameter of the function
nor assigned inside it is an effect on captured state."""
import ast

MUTATORS = {'append', 'extend', 'clear', 'add', 'update', 'pop', 'popleft', 'insert', 'remove', 'sort', 'reverse', 'setdefault', 'discard', 'appendleft'}


def local_and_params(fn):
    names = set()
    a = fn.args
    for x in a.args + a.kwonlyargs + a.posonlyargs:
        names.add(x.arg)
    if a.vararg: names.add(a.vararg.arg)
    if a.kwarg: names.add(a.kwarg.arg)
    nonlocal_ = set()
    for n in ast.walk(fn):
        if isinstance(n, (ast.Nonlocal, ast.Global)):
            nonlocal_.update(n.names)
    def walk(node):
        for c in ast.iter_child_nodes(node):
            if isinstance(c, (ast.FunctionDef, ast.Lambda)) and c is not fn:
                continue
            if isinstance(c, ast.Name) and isinstance(c.ctx, ast.Store):
                names.add(c.id)
            if isinstance(c, ast.comprehension):
                for t in ast.walk(c.target):
                    if isinstance(t, ast.Name): names.add(t.id)
            walk(c)
    walk(fn)
    return names - nonlocal_


def root_name(e):
    while isinstance(e, (ast.Subscript, ast.Attribute)):
        e = e.value
    return e.id if isinstance(e, ast.Name) else None


def captured_mutations(fn):
    """-> sorted list of captured names that fn mutates (through a method call, item store or attribute store)"""
    mine = local_and_params(fn)
    params = {x.arg for x in fn.args.args}
    out = set()
    for n in ast.walk(fn):
        tgt = None
        if isinstance(n, ast.Call) and isinstance(n.func, ast.Attribute) and n.func.attr in MUTATORS:
            tgt = root_name(n.func.value)
        elif isinstance(n, (ast.Subscript, ast.Attribute)) and isinstance(n.ctx, ast.Store):
            tgt = root_name(n.value)
        elif isinstance(n, ast.Nonlocal):
            out.update(n.names)
        if tgt is not None and tgt not in mine:
            out.add(tgt)
    return sorted(out)


def param_mutations(fn):
    """parameters of fn that it mutates"""
    params = [x.arg for x in fn.args.args]
    out = set()
    for n in ast.walk(fn):
        tgt = None
        if isinstance(n, ast.Call) and isinstance(n.func, ast.Attribute) and n.func.attr in MUTATORS:
            tgt = root_name(n.func.value)
        elif isinstance(n, (ast.Subscript, ast.Attribute)) and isinstance(n.ctx, ast.Store):
            tgt = root_name(n.value)
        if tgt in params:
            out.add(tgt)
    return sorted(out)
