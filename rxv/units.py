"""Units of work of a property check.  Every unit runs in its own process and returns a plain dict:

  {'unit', 'kind': 'deductive'|'lemma'|'lean'|'bounded', 'functions': [...], 'obligations': [{name,result,backend,time,...}],
   'undecided': [...], 'covers': [...], 'violations': [{'obligation','replay':{...}}], 'trusted': [...], 'stats': {...}}
"""
import os
import time
import traceback


def run_unit(spec):
    """spec: (kind, modname, attr, opts) -- resolved inside the worker process"""
    kind, modname, attr, opts = spec
    t0 = time.time()
    try:
        import importlib
        mod = importlib.import_module(modname)
        target = getattr(mod, attr)
        if kind == 'op':
            res = run_op(target, opts)
        elif kind == 'fn':
            res = target(opts)          # function-contract units build their own report dict
        elif kind == 'bounded':
            res = target(opts)
        elif kind == 'lean':
            res = target(opts)
        else:
            raise ValueError(kind)
    except Exception as ex:
        res = {'unit': f'{modname}.{attr}', 'kind': kind, 'crash': f'{type(ex).__name__}: {ex}\n{traceback.format_exc(limit=8)}',
               'obligations': [], 'undecided': [], 'functions': [], 'violations': [], 'trusted': []}
    res['wall_s'] = round(time.time() - t0, 3)
    return res


def ob_dict(o):
    d = {'name': o.name, 'result': o.result, 'backend': o.backend, 'time': round(o.time, 4), 'kind': o.kind}
    if o.result == 'refuted' and o.model is not None:
        d['model'] = model_text(o.model)
    if o.extra.get('recheck'):
        d['recheck'] = o.extra['recheck']
    return d


def model_text(m, limit=4000):
    try:
        s = str(m)
    except Exception:
        s = '<model>'
    return s[:limit]


_PROP_E2E = {}


def _property_e2e(pid):
    """first failing real input found by the bounded end-to-end unit(s) of property `pid` on the current tree (None if none); cached per process"""
    if pid in _PROP_E2E:
        return _PROP_E2E[pid]
    found = None
    try:
        from . import props
        import importlib
        for (kind, mod, name, o) in props.PROPS.get(pid, {}).get('units', []):
            if kind != 'bounded': continue
            r = getattr(importlib.import_module(mod), name)(dict(o, tier='quick'))
            fs = [f for f in (r.get('failures') or []) if not (isinstance(f, dict) and f.get('case_id'))]      # listed known cases do not confirm anything new
            if fs:
                found = fs[0]; break
    except Exception as ex:
        found = None
    _PROP_E2E[pid] = found
    return found


def run_op(contract, opts):
    from .world import World, TRUSTED_USED
    from .harness import OperatorRun, discharge_all
    from . import replay
    w = World()
    pid = opts.get('pid', 'C??')
    run = OperatorRun(w, contract, property_id=pid)
    rep = run.run()
    discharge_all(rep, timeout_ms=opts.get('timeout_ms', 10000), recheck=(opts.get('tier') == 'thorough'))
    violations = []
    for o in rep.obligations:
        if o.result == 'refuted':
            try:
                rp = replay.replay_operator(w, run, o, opts)
            except Exception as ex:
                rp = {'status': 'replay-error', 'error': f'{type(ex).__name__}: {ex}', 'trace': traceback.format_exc(limit=6)}
            e2e = None
            if not hasattr(contract, 'e2e_confirm') and (o.extra.get('needs_validation') or o.extra.get('candidate_only')):
                # no contract-specific confirmation: a candidate (state outside the store / weakened hypotheses) counts when the end-to-end
                # scenarios of the same property find a failing real input on this tree
                e2e = _property_e2e(opts.get('pid'))
                if e2e:
                    rp['end_to_end'] = e2e; rp['status'] = 'reproduced'
            if hasattr(contract, 'e2e_confirm') and o.model is not None:
                try:
                    ctx = next((cx for key, cx in getattr(run, 'ctxs', {}).items() if o.name.startswith(key + '/')), None)
                    e2e = contract.e2e_confirm(ctx, replay.Concretizer(o.model))
                except Exception as ex:
                    e2e = None
                    rp['e2e_error'] = f'{type(ex).__name__}: {ex}'
                if e2e:
                    rp['end_to_end'] = e2e
                    rp['status'] = 'reproduced'
            if (o.extra.get('needs_validation') or o.extra.get('candidate_only')) and not e2e:
                # candidate model from weakened hypotheses: it counts only when a real input reproduces the violation end to end
                # (a function-level replay is not enough here: the candidate pre-state may violate the `requires`)
                o.result = 'unknown'; o.backend = (o.backend or '') + ' candidate model not confirmed end-to-end' + (': ' + o.extra['candidate_only'] if o.extra.get('candidate_only') else '')
                continue
            violations.append({'obligation': o.name, 'replay': rp, 'model': model_text(o.model) if o.model is not None else None})
    cross = crosscheck(w, run, rep, opts) if (opts.get('tier') == 'thorough' or opts.get('crosscheck')) else None
    return {
        'unit': contract.name, 'kind': 'deductive', 'crosscheck': cross,
        'functions': rep.functions,
        'obligations': [ob_dict(o) for o in rep.obligations],
        'undecided': [{'where': w_, 'reason': r} for (w_, r) in rep.undecided] +
                     [{'where': o.name, 'reason': 'solver returned unknown (z3 and cvc5)'} for o in rep.obligations if o.result == 'unknown'],
        'covers': rep.covers,
        'violations': violations,
        'trusted': sorted(TRUSTED_USED),
        'stats': {'paths': rep.paths, 'symexec_s': round(rep.symexec_s, 3), 'solve_s': round(rep.solve_s, 3)},
    }


def crosscheck(world, run, rep, opts):
    """Engine <-> CPython cross-check (DESIGN 4.3): for every (case, path) of a handler whose obligations were all proved, a concrete
    state satisfying the path condition is taken from the solver, the REAL handler is run from that state, and the proved ensures
    clauses are evaluated on what the real code did.  A clause that is false natively although it was proved means the engine
    misrepresents the code: a checker bug (exit 3), never a property violation."""
    import z3
    from . import replay
    from .harness import has_quantifier
    seen = set(); agree = 0; dis = []; skipped = 0
    if not getattr(run.contract, 'replayable', True) or any(st.dtype in ('mapper', 'set') for cx in getattr(run, 'ctxs', {}).values() for st in cx.states):
        return {'paths_checked': 0, 'agree': 0, 'disagreements': [], 'skipped': len(getattr(run, 'ctxs', {})), 'note': 'pre-states with containers / maps are not driven natively'}
    for ob in rep.obligations:
        if ob.kind != 'ensures' or ob.result != 'proved' or ob.path is None or '/path' not in ob.name:
            continue
        key = ob.name.split('/ensures.')[0]
        if key in seen:
            continue
        seen.add(key)
        s = z3.Solver(); s.set('timeout', 3000)
        qf = [h for h in ob.hyps if not has_quantifier(h)]
        s.add(*qf)
        from .solve import small_bounds
        s.add(*small_bounds(qf, 12))          # small keys / counters / parameters: the native run must stay cheap
        if s.check() != z3.sat:
            skipped += 1; continue
        fake = type(ob)(ob.name, ob.hyps, ob.goal, ob.kind, ob.where, path=ob.path)
        fake.model = s.model()
        try:
            rp = replay.replay_operator(world, run, fake, opts)
        except Exception as ex:
            skipped += 1; continue
        # only the clauses that were PROVED for this path are claims of the engine: a clause that is refuted (e.g. a listed known finding)
        # is expected to be false on the real run too
        proved_names = {o.name.split('/ensures.')[1] for o in rep.obligations if o.kind == 'ensures' and o.result == 'proved' and o.name.startswith(key + '/ensures.')}
        failed = [fc for fc in (rp.get('failed_clauses') or []) if (fc[0] if isinstance(fc, (list, tuple)) else fc) in proved_names]
        if rp.get('status') == 'reproduced' and not rp.get('note') and failed:
            # only meaningful when the concrete pre-state satisfies the (quantified) requires too; report with the details
            dis.append({'path': key, 'replay': dict(rp, failed_clauses=failed)})
        elif rp.get('status') == 'not-reproduced' or (rp.get('status') == 'reproduced' and not rp.get('note') and not failed):
            agree += 1
        else:
            skipped += 1
    return {'paths_checked': agree + len(dis), 'agree': agree, 'disagreements': dis[:5], 'skipped': skipped}
