#!/usr/bin/env python3
"""Seeded-mutant self test (DESIGN 4.4): applies property-breaking edits, one at a time, to a scratch copy of /repo/rxsci
(never to /repo) and reports which are detected by the deductive units; harmless edits must stay green."""
import json, os, shutil, subprocess, sys, tempfile
HERE = os.path.dirname(os.path.dirname(os.path.abspath(__file__)))
sys.path.insert(0, HERE)

MUTANTS = json.load(open(os.path.join(HERE, 'tools', 'mutants.json')))

RUNNER = r'''
import sys, json
sys.path.insert(0, %r)
from rxv import units
spec = json.loads(sys.argv[1])
r = units.run_unit((spec[0], spec[1], spec[2], dict(spec[3], pid='SELF')))
bad = [o['name'] + ':' + o['result'] for o in r.get('obligations', []) if o['result'] != 'proved']
print(json.dumps({'crash': r.get('crash'), 'open': bad[:5], 'n_open': len(bad), 'undecided': [u['where'] + ': ' + u['reason'][:200] for u in r.get('undecided', [])][:5],
                  'refuted': sum(1 for o in r.get('obligations', []) if o['result'] == 'refuted'),
                  'replayed': sum(1 for v in r.get('violations', []) if (v.get('replay') or {}).get('status') == 'reproduced')}))
''' % HERE


def main():
    only = sys.argv[1:]
    tmp = tempfile.mkdtemp(prefix='rxv_selftest_')
    py = os.path.join(HERE, '.venv', 'bin', 'python')
    res = []
    try:
        for m in MUTANTS:
            if only and not any(o in m['id'] for o in only):
                continue
            root = os.path.join(tmp, 'repo')
            if os.path.exists(root): shutil.rmtree(root)
            os.makedirs(root)
            shutil.copytree('/repo/rxsci', os.path.join(root, 'rxsci'))
            f = os.path.join(root, m['file'])
            src = open(f).read()
            if m['old'] not in src:
                print(f"{m['id']}: PATTERN NOT FOUND (stale mutant: the source changed)"); res.append((m['id'], m.get('kind', '?'), 'MISSED', 'stale pattern')); continue
            open(f, 'w').write(src.replace(m['old'], m['new'], 1))
            env = dict(os.environ, RXV_REPO=root, PYTHONDONTWRITEBYTECODE='1')
            detected = False; info = []
            for spec in m['units']:
                out = subprocess.run([py, '-c', RUNNER, json.dumps(spec)], env=env, capture_output=True, text=True, timeout=600)
                try:
                    d = json.loads(out.stdout.strip().splitlines()[-1])
                except Exception:
                    d = {'crash': out.stderr[-400:], 'n_open': 0, 'undecided': [], 'refuted': 0, 'replayed': 0}
                info.append(d)
                if d['refuted'] > 0: detected = True
            kind = m.get('kind', 'breaking')
            if kind == 'breaking':
                status = 'DETECTED' if detected else 'MISSED'
            elif kind == 'harmless-may-be-undecided':
                # a correct re-implementation the contract cannot prove (needs an induction the solver does not do): it must not be REFUTED;
                # undecided obligations are the honest outcome
                status = 'FALSE-ALARM' if detected else ('quiet (undecided)' if any(i['n_open'] or i['undecided'] for i in info) else 'quiet')
            else:
                status = 'FALSE-ALARM' if (detected or any(i['n_open'] or i['undecided'] for i in info)) else 'quiet'
            print(f"{m['id']:40s} {kind:9s} {status:12s} refuted={sum(i['refuted'] for i in info)} replayed={sum(i['replayed'] for i in info)} "
                  f"unknown/undecided={sum(i['n_open'] - i['refuted'] for i in info)}/{sum(len(i['undecided']) for i in info)} {[i['crash'][:100] for i in info if i.get('crash')]}")
            res.append((m['id'], kind, status))
    finally:
        shutil.rmtree(tmp, ignore_errors=True)
    bad = [r for r in res if r[2] in ('MISSED', 'FALSE-ALARM')]
    print(f'{len(res)} mutants, {len(bad)} missed/false alarms')
    return 1 if bad else 0


if __name__ == '__main__':
    sys.exit(main())
