#!/usr/bin/env python3
"""regenerates MANIFEST.json from rxv/props.py (claimed properties) and tools/manifest_meta.json (texts)"""
import json, os, sys
HERE = os.path.dirname(os.path.dirname(os.path.abspath(__file__)))
sys.path.insert(0, HERE)
from rxv import props
meta = json.load(open(os.path.join(HERE, 'tools', 'manifest_meta.json')))
ids = [json.loads(l)['id'] for l in open(os.path.join(HERE, 'properties.jsonl'))]
checks = []
for pid in ids:
    if pid not in props.PROPS:
        continue
    m = meta['checks'].get(pid, {})
    checks.append({
        'property_id': pid,
        'quick_cmd': f'./vcheck {pid} --tier quick',
        'thorough_cmd': f'./vcheck {pid} --tier thorough',
        'evidence_file': f'evidence/{pid}.json',
        'replay_cmd_template': './vcheck %s --replay {path}' % pid,
        'engine': 'rxv',
        'level_claimed': {'category': m.get('category', 'proof'), 'text': m.get('text', ''), 'design_ref': props.PROPS[pid]['design_ref']},
        'level_note': m.get('note', ''),
        'technique': m.get('technique', 'contract-based deductive verification: VCs generated from the AST of the real handlers, discharged by z3/cvc5'),
    })
na = [{'property_id': pid, 'reason': meta['not_applicable'].get(pid, 'check not built yet in this round; see DESIGN.md section 7')}
      for pid in ids if pid not in props.PROPS]
man = {
    'version': 1,
    'setup_cmd': './setup.sh',
    'hooks': {'guard': 'RXSCI_VERIF', 'enable': 'no source hooks are needed: contracts are sidecars under /verif/rxv/contracts and replays drive the real closures from outside',
              'baseline_off_cmd': 'cd /repo && /venv/bin/python -m pytest -q -p no:cacheprovider --timeout=900', 'source_commits': [], 'add_only': True},
    'engines': [{'name': 'rxv', 'path': 'rxv/', 'serves_properties': [c['property_id'] for c in checks],
                 'kind_free_text': 'home-built VC generator: symbolic execution of the python AST of the real rxsci functions against sidecar contracts; z3 5.1 primary, cvc5 for unknowns; Lean 4 core for glue lemmas; run-time replay of counter-models on the real closures'}],
    'checks': checks,
    'notes': meta.get('notes', ''),
    'not_applicable': na,
}
json.dump(man, open(os.path.join(HERE, 'MANIFEST.json'), 'w'), indent=1)
import jsonschema
jsonschema.validate(man, json.load(open('/root/.vp/MANIFEST.schema.json')))
print('MANIFEST.json written:', len(checks), 'checks,', len(na), 'not applicable')
