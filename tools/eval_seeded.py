#!/usr/bin/env python3
"""Runs the registered quick checks against every seeded change under /verif/seeded/<id>/ (patch.diff applied to /repo with
`git apply`, undone with `git checkout -- .` straight afterwards) and reports which checks catch which change.
usage: tools/eval_seeded.py [id-substring ...] [--all-props]"""
import json, os, subprocess, sys, time
HERE = os.path.dirname(os.path.dirname(os.path.abspath(__file__)))
REPO = '/repo'


def sh(cmd, **kw):
    return subprocess.run(cmd, shell=True, capture_output=True, text=True, **kw)


def main():
    args = [a for a in sys.argv[1:] if not a.startswith('--')]
    allp = '--all-props' in sys.argv
    assert sh(f'git -C {REPO} status --porcelain').stdout.strip() == '', '/repo working tree must be clean'
    rows = []
    for sid in sorted(os.listdir(os.path.join(HERE, 'seeded'))):
        d = os.path.join(HERE, 'seeded', sid)
        if not os.path.isdir(d) or (args and not any(a in sid for a in args)):
            continue
        meta = json.load(open(os.path.join(d, 'meta.json')))
        props = meta.get('checks_to_run') or [meta['property']]
        if allp:
            props = [json.loads(l)['id'] for l in open(os.path.join(HERE, 'properties.jsonl'))]
        r = sh(f'git -C {REPO} apply {os.path.join(d, "patch.diff")}')
        if r.returncode != 0:
            print(sid, 'PATCH DOES NOT APPLY', r.stderr[:200]); continue
        try:
            caught = {}
            for p in props:
                t = time.time()
                out = sh(f'cd {HERE} && ./vcheck {p}', timeout=3600)
                vio = [l for l in out.stdout.splitlines() if l.startswith('VIOLATION')]
                und = [l for l in out.stdout.splitlines() if 'UNDECIDED' in l]
                caught[p] = {'exit': out.returncode, 'violations': len(vio), 'first': vio[0] if vio else None, 'undecided': len(und), 'wall_s': round(time.time() - t, 1),
                             'no_input': sum(1 for l in vio if l.endswith('no-failing-input-found')),
                             # VIOLATION lines that come from a refuted obligation of a contract (not from the bounded end-to-end tier)
                             'deductive': sum(1 for l in vio if '/e2e.' not in l.split('replay=')[1])}
        finally:
            sh(f'git -C {REPO} checkout -- .')
        ok = any(c['exit'] == 1 and c['violations'] for c in caught.values())
        print(f"{sid:28s} {'CAUGHT' if ok else 'MISSED':7s} " + ' '.join(f"{p}:exit{c['exit']}/v{c['violations']}(noinput {c['no_input']})/u{c['undecided']}/{c['wall_s']}s" for p, c in caught.items()))
        rows.append({'id': sid, 'caught': ok, 'checks': caught})
    path_ = os.path.join(HERE, 'seeded', 'last_eval.json')
    try: prev = {r['id']: r for r in json.load(open(path_))}
    except Exception: prev = {}
    prev.update({r['id']: r for r in rows})           # partial runs update their own rows only
    json.dump([prev[k] for k in sorted(prev)], open(path_, 'w'), indent=1)
    # restore clean evidence is the caller's job (re-run the checks on the clean tree before committing evidence)


if __name__ == '__main__':
    main()
