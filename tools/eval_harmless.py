#!/usr/bin/env python3
"""False-alarm test: behaviour-preserving refactorings (written by independent sub-agents, suite passes with each) are applied to /repo
one at a time (git apply / git checkout -- .) and the checks of every property anchored in the touched files are run.
A VIOLATION line is a false alarm; undecided obligations (exit 0) are reported separately."""
import json, os, re, subprocess, sys, time
HERE = os.path.dirname(os.path.dirname(os.path.abspath(__file__)))
REPO = '/repo'
def sh(cmd, **kw): return subprocess.run(cmd, shell=True, capture_output=True, text=True, **kw)
props = [json.loads(l) for l in open(os.path.join(HERE, 'properties.jsonl'))]
EXTRA = {'rxsci/operators/scan.py': ['C12', 'C20'], 'rxsci/state/memory_store.py': ['C04', 'C05'], 'rxsci/framing/line.py': ['C18', 'C19'], 'rxsci/data/batch.py': ['C11', 'C20'],
         'rxsci/state/state_topology.py': ['C14'], 'rxsci/state/store.py': ['C14'], 'rxsci/operators/do_action.py': ['C01', 'C03'], 'rxsci/error/router.py': ['C13', 'C03'],
         'rxsci/compression/z.py': ['C16', 'C19'], 'rxsci/compression/zstd.py': ['C16', 'C19'], 'rxsci/io/file.py': ['C18', 'C19'], 'rxsci/data/codec.py': ['C17', 'C19'],
         'rxsci/math/min.py': ['C12', 'C09', 'C01'], 'rxsci/math/max.py': ['C12', 'C09', 'C01'], 'rxsci/math/sum.py': ['C12', 'C09', 'C01'], 'rxsci/math/mean.py': ['C12', 'C09', 'C01'],
         'rxsci/framing/length_prefix.py': ['C15'], 'rxsci/mux/muxconnectable.py': ['C08', 'C01'], 'rxsci/operators/progress.py': ['C09', 'C01'], 'rxsci/data/sort.py': ['C10'], 'rxsci/data/to_deque.py': ['C10'], 'rxsci/error/map.py': ['C13', 'C03'], 'rxsci/error/ignore.py': ['C13', 'C03'], 'rxsci/operators/distinct_until_changed.py': ['C10', 'C02'],
         'rxsci/operators/distinct.py': ['C10', 'C02'], 'rxsci/data/lag.py': ['C10', 'C02'], 'rxsci/container/parquet.py': ['C20'], 'rxsci/container/csv.py': ['C18'], 'rxsci/container/json.py': ['C19'], 'rxsci/operators/tee_map.py': ['C13']}
def main():
    args = sys.argv[1:]
    assert sh(f'git -C {REPO} status --porcelain').stdout.strip() == ''
    rows = []
    for hid in sorted(os.listdir(os.path.join(HERE, 'harmless'))):
        d = os.path.join(HERE, 'harmless', hid)
        if not os.path.isdir(d) or (args and not any(a in hid for a in args)): continue
        patch = os.path.join(d, 'patch.diff')
        files = re.findall(r'^\+\+\+ b/(\S+)', open(patch).read(), re.M)
        pids = sorted({p['id'] for p in props for f in files if f in p['anchors']['files']} | {x for f in files for x in EXTRA.get(f, [])})
        r = sh(f'git -C {REPO} apply {patch}')
        if r.returncode != 0:
            print(hid, 'PATCH DOES NOT APPLY'); continue
        res = {}
        try:
            for p in pids:
                out = sh(f'cd {HERE} && ./vcheck {p}', timeout=3600)
                vio = [l for l in out.stdout.splitlines() if l.startswith('VIOLATION')]
                und = [l for l in out.stdout.splitlines() if 'UNDECIDED' in l]
                res[p] = {'exit': out.returncode, 'violations': vio[:3], 'undecided': len(und), 'first_undecided': und[0][:200] if und else None}
        finally:
            sh(f'git -C {REPO} checkout -- .')
        fa = [p for p, c in res.items() if c['exit'] == 1]
        cr = [p for p, c in res.items() if c['exit'] not in (0, 1)]
        ud = [p for p, c in res.items() if c['undecided']]
        print(f"{hid:5s} files={','.join(os.path.basename(f) for f in files):40s} {'FALSE-ALARM ' + ','.join(fa) if fa else 'quiet':24s} crash={cr} undecided_in={ud}")
        for p in fa:
            print('      ', res[p]['violations'][0][:200])
        for p in ud[:2]:
            print('       undecided:', p, res[p]['first_undecided'])
        rows.append({'id': hid, 'files': files, 'false_alarm': fa, 'crash': cr, 'undecided': ud, 'detail': res})
    path_ = os.path.join(HERE, 'harmless', 'last_eval.json')
    try: prev = {r['id']: r for r in json.load(open(path_))}
    except Exception: prev = {}
    prev.update({r['id']: r for r in rows})           # partial runs update their own rows only
    json.dump([prev[k] for k in sorted(prev)], open(path_, 'w'), indent=1)
if __name__ == '__main__':
    main()
